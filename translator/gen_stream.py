"""aiohttp/streams.py (StreamReader water marks and integer tests) -> Generated/StreamGen.v

Everything emitted is a Z formula or a Z comparison read from the source text:
  __init__                    initial low/high water marks (bytes and chunk count)
  set_read_chunk_size         the raise test and the two new marks
  feed_data                   the pause test
  end_http_chunk_receiving    the empty-chunk test and the chunk-count pause test
  _read_nowait_chunk          the partial-take test, the stale-split test, the resume test
  readchunk                   the two position tests
  readuntil                   the LineTooLong test, `max_size or self._high_water`
  read                        `set_read_chunk_size(sys.maxsize)` for read(-1)
Shapes that are not recognised raise TranslatorError (fail-closed).
"""
import ast
import copy
import sys

from . import core
from .core import TranslatorError

OUTPUT = "StreamGen.v"
ITEMS = ["init_low_water", "init_high_water", "init_high_water_chunks", "init_low_water_chunks",
         "chunk_size_raises", "chunk_size_low", "chunk_size_high", "feed_pause", "empty_chunk",
         "chunk_pause", "take_partial", "split_stale", "resume_open", "resume_size", "resume_bytes", "resume_chunks",
         "readchunk_at", "readchunk_ahead", "line_too_long", "readuntil max_size default", "wait_checks_exception", "read_all_chunk_size"]

F = "aiohttp/streams.py"
C = "StreamReader"

PRELUDE = "(* from aiohttp/streams.py, class StreamReader; all quantities are Python ints = Z *)\nOpen Scope Z_scope.\n"


class _Subst(ast.NodeTransformer):
    """Replace sub-expressions (compared by ast.dump) with names; fold -k literals."""

    def __init__(self, table):
        self.table = {ast.dump(ast.parse(k, mode="eval").body): v for k, v in table.items()}

    def visit(self, node):
        if isinstance(node, ast.expr):
            d = ast.dump(node)
            if d in self.table:
                return ast.Name(id=self.table[d], ctx=ast.Load())
        if isinstance(node, ast.UnaryOp) and isinstance(node.op, ast.USub) and isinstance(node.operand, ast.Constant) \
                and isinstance(node.operand.value, int):
            return ast.Constant(value=-node.operand.value)
        return self.generic_visit(node)


def _sub(node, table):
    return _Subst(table).visit(copy.deepcopy(node))


def _fml(node, env, table=None):
    e = dict(env)
    e["__scope__"] = "Z"
    return core.formula(_sub(node, table or {}), e)


def _cmp(node, env, table=None):
    e = dict(env)
    e["__scope__"] = "Z"
    n = _sub(node, table or {})
    # negative literals print as (-k)
    txt = core.comparison(n, e)
    return txt


def _neg_lits(txt: str) -> str:
    import re
    return re.sub(r"(?<![\w)])-(\d+)", r"(-\1)", txt)


def _is_call_on(node, owner_attr, meth):
    """Expr statement `self.<owner_attr>.<meth>(...)`."""
    return (isinstance(node, ast.Expr) and isinstance(node.value, ast.Call)
            and isinstance(node.value.func, ast.Attribute) and node.value.func.attr == meth
            and isinstance(node.value.func.value, ast.Attribute) and node.value.func.value.attr == owner_attr)


def _ifs_guarding(fn, meth):
    out = []
    for n in ast.walk(fn):
        if isinstance(n, ast.If) and len(n.body) == 1 and _is_call_on(n.body[0], "_protocol", meth) and not n.orelse:
            out.append(n)
    return out


def _self_assign(fn, attr):
    vals = []
    for n in ast.walk(fn):
        if isinstance(n, ast.Assign) and len(n.targets) == 1:
            t = n.targets[0]
            if isinstance(t, ast.Attribute) and t.attr == attr and isinstance(t.value, ast.Name) and t.value.id == "self":
                vals.append(n.value)
        if isinstance(n, ast.AnnAssign) and n.value is not None:
            t = n.target
            if isinstance(t, ast.Attribute) and t.attr == attr and isinstance(t.value, ast.Name) and t.value.id == "self":
                vals.append(n.value)
    if len(vals) != 1:
        raise TranslatorError(f"{fn.name}: self.{attr} assigned {len(vals)} times")
    return vals[0]


def generate() -> str:
    out = [PRELUDE]

    # ---- __init__ -------------------------------------------------------------------------
    init = core.find_function(F, "__init__", cls=C)
    argn = [a.arg for a in init.args.args]
    if argn[:3] != ["self", "protocol", "limit"]:
        raise TranslatorError(f"StreamReader.__init__ positional args are {argn}")
    env = {"limit": "limit"}
    low = _fml(_self_assign(init, "_low_water"), env)
    high = _fml(_self_assign(init, "_high_water"), env)
    highc = _fml(_self_assign(init, "_high_water_chunks"), env)
    lowc = _fml(_self_assign(init, "_low_water_chunks"), {**env, "_high_water_chunks": "(init_high_water_chunks limit)"})
    out.append(f"Definition init_low_water (limit : Z) : Z := {low}.")
    out.append(f"Definition init_high_water (limit : Z) : Z := {high}.")
    out.append(f"Definition init_high_water_chunks (limit : Z) : Z := {highc}.")
    out.append(f"Definition init_low_water_chunks (limit : Z) : Z := {lowc}.")
    for attr, want in (("_size", 0), ("_cursor", 0), ("total_bytes", 0)):
        v = _self_assign(init, attr)
        if not (isinstance(v, ast.Constant) and v.value == want):
            raise TranslatorError(f"__init__: self.{attr} does not start at {want}")

    # ---- set_read_chunk_size -------------------------------------------------------------
    fn = core.find_function(F, "set_read_chunk_size", cls=C)
    body = [s for s in fn.body if not (isinstance(s, ast.Expr) and isinstance(s.value, ast.Constant))]
    if len(body) != 1 or not isinstance(body[0], ast.If) or body[0].orelse:
        raise TranslatorError("set_read_chunk_size: expected a single `if`")
    env = {"n": "n", "_low_water": "low"}
    out.append(f"Definition chunk_size_raises (n low : Z) : bool := {_cmp(body[0].test, env)}.")
    fake = ast.FunctionDef(name="set_read_chunk_size", body=body[0].body)
    out.append(f"Definition chunk_size_low (n : Z) : Z := {_fml(_self_assign(fake, '_low_water'), env)}.")
    out.append(f"Definition chunk_size_high (n : Z) : Z := {_fml(_self_assign(fake, '_high_water'), env)}.")
    if len(body[0].body) != 2:
        raise TranslatorError("set_read_chunk_size: the if-branch must be exactly the two assignments")

    # ---- feed_data -----------------------------------------------------------------------
    fn = core.find_function(F, "feed_data", cls=C)
    ifs = _ifs_guarding(fn, "pause_reading")
    if len(ifs) != 1:
        raise TranslatorError(f"feed_data: {len(ifs)} guarded pause_reading calls")
    out.append(f"Definition feed_pause (size high : Z) : bool := {_cmp(ifs[0].test, {'_size': 'size', '_high_water': 'high'})}.")

    # ---- end_http_chunk_receiving ----------------------------------------------------------
    fn = core.find_function(F, "end_http_chunk_receiving", cls=C)
    ifs = _ifs_guarding(fn, "pause_reading")
    if len(ifs) != 1:
        raise TranslatorError(f"end_http_chunk_receiving: {len(ifs)} guarded pause_reading calls")
    t = {"len(self._http_chunk_splits)": "nsplits"}
    out.append(f"Definition chunk_pause (nsplits highc : Z) : bool := {_cmp(ifs[0].test, {'nsplits': 'nsplits', '_high_water_chunks': 'highc'}, t)}.")
    empties = [n for n in ast.walk(fn) if isinstance(n, ast.If) and len(n.body) == 1 and isinstance(n.body[0], ast.Return)
               and n.body[0].value is None and not n.orelse]
    if len(empties) != 1:
        raise TranslatorError(f"end_http_chunk_receiving: expected one `if ...: return`, found {len(empties)}")
    out.append(f"Definition empty_chunk (total pos : Z) : bool := {_cmp(empties[0].test, {'total_bytes': 'total', 'pos': 'pos'})}.")
    posv = [n.value for n in ast.walk(fn) if isinstance(n, ast.Assign) and isinstance(n.targets[0], ast.Name) and n.targets[0].id == "pos"]
    exp = ast.dump(ast.parse("self._http_chunk_splits[-1] if self._http_chunk_splits else 0", mode="eval").body)
    if len(posv) != 1 or ast.dump(posv[0]) != exp:
        raise TranslatorError("end_http_chunk_receiving: `pos` is not `splits[-1] if splits else 0`")

    # ---- _read_nowait_chunk ----------------------------------------------------------------
    fn = core.find_function(F, "_read_nowait_chunk", cls=C)
    first_if = [s for s in fn.body if isinstance(s, ast.If)]
    if not first_if:
        raise TranslatorError("_read_nowait_chunk: no if")
    t0 = first_if[0].test
    if not (isinstance(t0, ast.BoolOp) and isinstance(t0.op, ast.And) and len(t0.values) == 2):
        raise TranslatorError("_read_nowait_chunk: first test is not `a and b`")
    tbl = {"len(first_buffer) - offset": "avail"}
    env = {"n": "n", "avail": "avail"}
    a = _neg_lits(_cmp(t0.values[0], env, tbl))
    b = _neg_lits(_cmp(t0.values[1], env, tbl))
    out.append(f"Definition take_partial (avail n : Z) : bool := {a} && {b}.")
    whiles = [n for n in ast.walk(fn) if isinstance(n, ast.While)]
    if len(whiles) != 1:
        raise TranslatorError("_read_nowait_chunk: expected one while loop (stale split removal)")
    wt = whiles[0].test
    if not (isinstance(wt, ast.BoolOp) and isinstance(wt.op, ast.And) and len(wt.values) == 2
            and isinstance(wt.values[0], ast.Name) and wt.values[0].id == "chunk_splits"):
        raise TranslatorError("_read_nowait_chunk: while test is not `chunk_splits and <cmp>`")
    out.append("Definition split_stale (s0 cursor : Z) : bool := "
               + _cmp(wt.values[1], {"s0": "s0", "_cursor": "cursor"}, {"chunk_splits[0]": "s0"}) + ".")
    if not (len(whiles[0].body) == 1 and ast.dump(whiles[0].body[0]) == ast.dump(ast.parse("chunk_splits.popleft()").body[0])):
        raise TranslatorError("_read_nowait_chunk: while body is not chunk_splits.popleft()")
    ifs = _ifs_guarding(fn, "resume_reading")
    if len(ifs) != 1:
        raise TranslatorError(f"_read_nowait_chunk: {len(ifs)} guarded resume_reading calls")
    rt = ifs[0].test
    # optional leading conjunct `not self._eof` (repair b336e09: nothing is resumed once EOF was fed);
    # translated as found into resume_open
    not_eof = ast.dump(ast.parse("not self._eof", mode="eval").body)
    if isinstance(rt, ast.BoolOp) and isinstance(rt.op, ast.And) and len(rt.values) == 3 and ast.dump(rt.values[0]) == not_eof:
        out.append("Definition resume_open (eof : bool) : bool := negb eof.")
        rt = ast.BoolOp(op=ast.And(), values=rt.values[1:])
    else:
        out.append("Definition resume_open (eof : bool) : bool := true.")
    ok = (isinstance(rt, ast.BoolOp) and isinstance(rt.op, ast.And) and len(rt.values) == 2
          and isinstance(rt.values[1], ast.BoolOp) and isinstance(rt.values[1].op, ast.Or) and len(rt.values[1].values) == 2)
    if not ok:
        raise TranslatorError("_read_nowait_chunk: resume test is not `[not self._eof and] a and (splits is None or c)`")
    isnone = rt.values[1].values[0]
    if ast.dump(isnone) != ast.dump(ast.parse("self._http_chunk_splits is None", mode="eval").body):
        raise TranslatorError("_read_nowait_chunk: resume test: first disjunct is not `self._http_chunk_splits is None`")
    # first conjunct: `self._size < self._low_water`, optionally `... or not self._buffer`
    # (the empty-buffer disjunct is translated when present, not required: the theorems that need it
    #  stop compiling if it disappears)
    first = rt.values[0]
    env_b = {'_size': 'size', '_low_water': 'low'}
    if isinstance(first, ast.Compare):
        out.append(f"Definition resume_size (size low : Z) : bool := {_cmp(first, env_b)}.")
        out.append("Definition resume_bytes (size low : Z) (buffer_empty : bool) : bool := resume_size size low.")
    elif (isinstance(first, ast.BoolOp) and isinstance(first.op, ast.Or) and len(first.values) == 2
          and isinstance(first.values[0], ast.Compare)
          and ast.dump(first.values[1]) == ast.dump(ast.parse("not self._buffer", mode="eval").body)):
        out.append(f"Definition resume_size (size low : Z) : bool := {_cmp(first.values[0], env_b)}.")
        out.append("Definition resume_bytes (size low : Z) (buffer_empty : bool) : bool := resume_size size low || buffer_empty.")
    else:
        raise TranslatorError("_read_nowait_chunk: resume test: first conjunct is neither `size < low` nor `size < low or not self._buffer`")
    out.append("Definition resume_chunks (nsplits lowc : Z) : bool := "
               + _cmp(rt.values[1].values[1], {"nsplits": "nsplits", "_low_water_chunks": "lowc"}, t) + ".")

    # ---- readchunk ---------------------------------------------------------------------------
    fn = core.find_function(F, "readchunk", cls=C)
    tests = []
    for n in ast.walk(fn):
        if isinstance(n, ast.If) and isinstance(n.test, ast.Compare) and isinstance(n.test.left, ast.Name) and n.test.left.id == "pos":
            tests.append(n)
    if len(tests) != 2:
        raise TranslatorError(f"readchunk: expected two tests on pos, found {len(tests)}")
    tests.sort(key=lambda n: n.lineno)
    env = {"pos": "pos", "_cursor": "cursor"}
    if not isinstance(tests[0].test.ops[0], ast.Eq):
        raise TranslatorError("readchunk: first pos test is not ==")
    out.append(f"Definition readchunk_at (pos cursor : Z) : bool := {_cmp(tests[0].test, env)}.")
    out.append(f"Definition readchunk_ahead (pos cursor : Z) : bool := {_cmp(tests[1].test, env)}.")
    rn = [n for n in ast.walk(tests[1]) if isinstance(n, ast.Call) and isinstance(n.func, ast.Attribute) and n.func.attr == "_read_nowait"]
    if len(rn) != 1 or ast.dump(rn[0].args[0]) != ast.dump(ast.parse("pos - self._cursor", mode="eval").body):
        raise TranslatorError("readchunk: the ahead branch does not read `pos - self._cursor` bytes")

    # ---- readuntil ---------------------------------------------------------------------------
    fn = core.find_function(F, "readuntil", cls=C)
    lt = [n for n in ast.walk(fn) if isinstance(n, ast.If) and len(n.body) == 1 and isinstance(n.body[0], ast.Raise)
          and isinstance(n.body[0].exc, ast.Call) and getattr(n.body[0].exc.func, "id", None) == "LineTooLong"]
    if len(lt) != 1:
        raise TranslatorError("readuntil: expected one LineTooLong test")
    out.append(f"Definition line_too_long (chunk_size max_size : Z) : bool := {_cmp(lt[0].test, {'chunk_size': 'chunk_size', 'max_size': 'max_size'})}.")
    ms = [n.value for n in ast.walk(fn) if isinstance(n, ast.Assign) and isinstance(n.targets[0], ast.Name) and n.targets[0].id == "max_size"]
    if len(ms) != 1 or ast.dump(ms[0]) != ast.dump(ast.parse("max_size or self._high_water", mode="eval").body):
        raise TranslatorError("readuntil: max_size default is not `max_size or self._high_water`")
    out.append("(* readuntil: `max_size = max_size or self._high_water` (None and 0 both select the high-water mark) *)")
    out.append("Definition until_max (max_size high : Z) : Z := if max_size =? 0 then high else max_size.")
    sep_arg = ast.dump(ast.parse("ichar - offset + seplen - 1 if ichar else -1", mode="eval").body)
    calls = [n for n in ast.walk(fn) if isinstance(n, ast.Call) and isinstance(n.func, ast.Attribute) and n.func.attr == "_read_nowait_chunk"]
    if len(calls) != 1 or ast.dump(calls[0].args[0]) != sep_arg:
        raise TranslatorError("readuntil: the byte count passed to _read_nowait_chunk changed")

    # ---- _wait -------------------------------------------------------------------------------
    # does `_wait` start by raising a pending exception (`if self._exception is not None: raise self._exception`)?
    # Translated as found: the "no reader waits while an exception is set" theorem needs it.
    fn = core.find_function(F, "_wait", cls=C)
    body = [st_ for st_ in fn.body if not (isinstance(st_, ast.Expr) and isinstance(st_.value, ast.Constant))]
    exc_check = ast.dump(ast.parse("if self._exception is not None:\n    raise self._exception").body[0])
    conn_check = ast.dump(ast.parse("not self._protocol.connected", mode="eval").body)
    checks = body[0:1] if body and ast.dump(body[0]) == exc_check else []
    rest = body[len(checks):]
    if not (rest and isinstance(rest[0], ast.If) and ast.dump(rest[0].test) == conn_check):
        raise TranslatorError("_wait: expected (optional pending-exception test,) then the `not self._protocol.connected` test")
    if any(ast.dump(x) == exc_check for x in rest):
        raise TranslatorError("_wait: the pending-exception test is not the first statement")
    out.append("(* _wait raises a pending self._exception before creating the waiter *)")
    out.append(f"Definition wait_checks_exception : bool := {'true' if checks else 'false'}.")

    # ---- read(-1) ----------------------------------------------------------------------------
    fn = core.find_function(F, "read", cls=C)
    sc = [n for n in ast.walk(fn) if isinstance(n, ast.Call) and isinstance(n.func, ast.Attribute) and n.func.attr == "set_read_chunk_size"]
    args = sorted(ast.dump(c.args[0]) for c in sc)
    want = sorted([ast.dump(ast.parse("sys.maxsize", mode="eval").body), ast.dump(ast.parse("n", mode="eval").body)])
    if args != want:
        raise TranslatorError("read: expected set_read_chunk_size(sys.maxsize) and set_read_chunk_size(n)")
    out.append(f"(* sys.maxsize of the interpreter running the check *)\nDefinition read_all_chunk_size : Z := {sys.maxsize}.")
    return "\n".join(out) + "\n"
