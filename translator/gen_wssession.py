"""aiohttp/web_ws.py, client_ws.py, _websocket/{writer,models}.py, http_websocket.py -> Generated/WsSessionGen.v

The WebSocket session code is control flow (modelled by hand in Model/WsSession.v and tied to the code by
trace correspondence in harness/c13.py).  This module regenerates the data-like parts the model is
parametric in and checks, fail-closed, the statement shapes the hand model transcribes:
  * WSCloseCode.OK / ABNORMAL_CLOSURE / PROTOCOL_ERROR, the WSMsgType opcodes,
  * THRESHOLD_CONNLOST_ACCESS, the `heartbeat / 2.0` pong delay divisor,
  * the writer's "closing" guard `self._closing and not (opcode & WSMsgType.CLOSE)` as a predicate on opcodes,
  * _INTERNAL_RECEIVE_TYPES,
  * order of the state changes inside close() (closed flag before the close frame, wake-up of a blocked
    receive(), every exit path closes the transport), the `finally` of receive() (clears `_waiting`, resolves
    `_close_wait`), `WebSocketWriter.close` setting `_closing` before the close frame, one close timeout around the whole wait loop, and the exception handler order
    of receive().
"""
import ast

from . import core
from .core import TranslatorError

OUTPUT = "WsSessionGen.v"
ITEMS = ["close codes", "opcodes", "connlost_threshold", "pong_divisor", "closing_write_allowed", "internal_recv_type",
         "shape: server close()", "shape: client close()", "shape: server receive()", "shape: client receive()",
         "shape: WebSocketWriter.close", "shape: ping/pong exception handlers"]

WEB = "aiohttp/web_ws.py"
CLI = "aiohttp/client_ws.py"
WR = "aiohttp/_websocket/writer.py"
MODELS = "aiohttp/_websocket/models.py"
HW = "aiohttp/http_websocket.py"


def _enum(path, cls):
    mod = core.module(path)
    cands = [n for n in mod.body if isinstance(n, ast.ClassDef) and n.name == cls]
    if len(cands) != 1:
        raise TranslatorError(f"{path}: enum {cls} not found")
    out = {}
    for s in cands[0].body:
        if isinstance(s, ast.Assign) and len(s.targets) == 1 and isinstance(s.targets[0], ast.Name):
            v = core.literal(s.value)
            if not isinstance(v, int):
                raise TranslatorError(f"{cls}.{s.targets[0].id} is not an int")
            out[s.targets[0].id] = v
    return out


def _u(n):
    return ast.unparse(n)


def _find(path, name, cls):
    """The unique non-@overload definition of cls.name."""
    mod = core.module(path)
    cands = [n for n in mod.body if isinstance(n, ast.ClassDef) and n.name == cls]
    if len(cands) != 1:
        raise TranslatorError(f"{path}: class {cls} not found uniquely")
    fns = [n for n in cands[0].body if isinstance(n, (ast.FunctionDef, ast.AsyncFunctionDef)) and n.name == name
           and not any(_u(d) == "overload" for d in n.decorator_list)]
    if len(fns) != 1:
        raise TranslatorError(f"{path}: {cls}.{name} found {len(fns)} times")
    return fns[0]


def _stmts(fn):
    """All statements of fn in source order (pre-order), as (unparsed first line, node)."""
    out = []

    def walk(body):
        for s in body:
            out.append(s)
            for fld in ("body", "orelse", "finalbody"):
                sub = getattr(s, fld, None)
                if isinstance(sub, list) and sub and isinstance(sub[0], ast.stmt):
                    walk(sub)
            for h in getattr(s, "handlers", []) or []:
                out.append(h)
                walk(h.body)
    walk(fn.body)
    return out


def _head(s):
    if isinstance(s, ast.ExceptHandler):
        return "except " + (_u(s.type) if s.type is not None else "")
    return _u(s).split("\n")[0]


def _ordered(path, cls, fname, snippets):
    """Each snippet must be the first line of some statement; first occurrences must be in the given order."""
    fn = _find(path, fname, cls)
    heads = [_head(s) for s in _stmts(fn)]
    pos = -1
    for sn in snippets:
        try:
            i = heads.index(sn, pos + 1)
        except ValueError:
            raise TranslatorError(f"{path}: {cls}.{fname}: statement {sn!r} not found after position {pos} "
                                  f"(the hand model transcribes this order)") from None
        pos = i
    return fn


def _count(fn, head):
    return sum(1 for s in _stmts(fn) if _head(s) == head)


def _handlers_call(path, cls, fname, must):
    """Every `except` handler of the function (except those that only `raise`) and nothing else is required to
    contain a statement whose first line is in `must`."""
    fn = _find(path, fname, cls)
    n = 0
    for s in _stmts(fn):
        if isinstance(s, ast.ExceptHandler):
            heads = []
            for b in s.body:
                heads += [_head(x) for x in [b] + _stmts(ast.Module(body=[b], type_ignores=[]))]
            if not any(h in must for h in heads):
                raise TranslatorError(f"{path}: {cls}.{fname}: handler `{_head(s)}` leaves the transport open "
                                      f"(none of {must})")
            n += 1
    return n


def _closing_guard():
    fn = core.find_function(WR, "send_frame", cls="WebSocketWriter")
    body = [s for s in fn.body if not (isinstance(s, ast.Expr) and isinstance(s.value, ast.Constant))]
    first = body[0]
    if not (isinstance(first, ast.If) and len(first.body) == 1 and isinstance(first.body[0], ast.Raise) and not first.orelse):
        raise TranslatorError("WebSocketWriter.send_frame: first statement is not the closing guard")
    t = first.test
    exp = "self._closing and (not opcode & WSMsgType.CLOSE)"
    if _u(t) != exp:
        raise TranslatorError(f"WebSocketWriter.send_frame guard is {_u(t)!r}, expected {exp!r}")
    if "ClientConnectionResetError" not in _u(first.body[0]):
        raise TranslatorError("closing guard raises something else than ClientConnectionResetError")
    # the transport check inside _write_websocket_frame
    fn2 = core.find_function(WR, "_write_websocket_frame", cls="WebSocketWriter")
    heads = [_head(s) for s in _stmts(fn2)]
    if "if self.transport.is_closing():" not in heads:
        raise TranslatorError("_write_websocket_frame: transport.is_closing() check missing")
    i = heads.index("if self.transport.is_closing():")
    w = [j for j, h in enumerate(heads) if h.startswith("self.transport.write(")]
    if not w or min(w) < i:
        raise TranslatorError("_write_websocket_frame: writes before the is_closing() check")


def _pong_div(path, cls, fname):
    fn = _find(path, fname, cls)
    for s in _stmts(fn):
        if _head(s).startswith("self._pong_heartbeat ="):
            v = s.value
            if isinstance(v, ast.BinOp) and isinstance(v.op, ast.Div) and _u(v.left) == "heartbeat" \
                    and isinstance(v.right, ast.Constant) and float(v.right.value) == int(v.right.value):
                return int(v.right.value)
            raise TranslatorError(f"{cls}: _pong_heartbeat = {_u(v)}")
    raise TranslatorError(f"{cls}: _pong_heartbeat assignment not found")


def _internal_types():
    v = core.find_assign(HW, "_INTERNAL_RECEIVE_TYPES")
    if not (isinstance(v, ast.Call) and _u(v.func) == "frozenset" and len(v.args) == 1 and isinstance(v.args[0], ast.Tuple)):
        raise TranslatorError("_INTERNAL_RECEIVE_TYPES shape")
    names = []
    for e in v.args[0].elts:
        if not (isinstance(e, ast.Attribute) and _u(e.value) == "WSMsgType"):
            raise TranslatorError("_INTERNAL_RECEIVE_TYPES element")
        names.append(e.attr)
    return names


def generate() -> str:
    cc = _enum(MODELS, "WSCloseCode")
    mt = _enum(MODELS, "WSMsgType")
    for k in ("OK", "ABNORMAL_CLOSURE", "PROTOCOL_ERROR"):
        if k not in cc:
            raise TranslatorError(f"WSCloseCode.{k} missing")
    for k in ("TEXT", "BINARY", "PING", "PONG", "CLOSE", "CLOSING", "CLOSED", "ERROR"):
        if k not in mt:
            raise TranslatorError(f"WSMsgType.{k} missing")
    thr = core.literal(core.find_assign(WEB, "THRESHOLD_CONNLOST_ACCESS"))
    if not isinstance(thr, int):
        raise TranslatorError("THRESHOLD_CONNLOST_ACCESS not an int")
    _closing_guard()
    d1 = _pong_div(WEB, "WebSocketResponse", "__init__")
    d2 = _pong_div(CLI, "ClientWebSocketResponse", "__init__")
    if d1 != d2:
        raise TranslatorError("server and client pong delays differ")
    internal = _internal_types()

    # ---- shapes -----------------------------------------------------------------------------
    # server close(): closed flag first, then the frame; wake-up of a blocked receive(); transport closed on every exit
    fn = _ordered(WEB, "WebSocketResponse", "close", [
        "if self._closed:", "return False", "self._set_closed()", "try:",
        "await self._writer.close(code, message)",
        "except (asyncio.CancelledError, asyncio.TimeoutError)", "self._set_code_close_transport(WSCloseCode.ABNORMAL_CLOSURE)", "raise",
        "except Exception", "self._set_code_close_transport(WSCloseCode.ABNORMAL_CLOSURE)", "return True",
        "if self._waiting:", "self._close_wait = self._loop.create_future()", "reader.feed_data(WS_CLOSING_MESSAGE)",
        "try:", "await self._close_wait",
        "except asyncio.CancelledError", "self._set_code_close_transport(WSCloseCode.ABNORMAL_CLOSURE)", "raise",
        "if self._closing:", "self._close_transport()", "return True",
        "try:", "async with async_timeout.timeout(self._timeout):", "while True:", "msg = await reader.read()",
        "if msg.type is WSMsgType.CLOSE:", "self._set_code_close_transport(msg.data)", "return True",
        "except asyncio.CancelledError", "self._set_code_close_transport(WSCloseCode.ABNORMAL_CLOSURE)", "raise",
        "except Exception", "self._set_code_close_transport(WSCloseCode.ABNORMAL_CLOSURE)", "return True"])
    if _count(fn, "self._set_closed()") != 1 or _count(fn, "await self._writer.close(code, message)") != 1:
        raise TranslatorError("server close(): _set_closed / writer.close not exactly once")
    _handlers_call(WEB, "WebSocketResponse", "close", {"self._set_code_close_transport(WSCloseCode.ABNORMAL_CLOSURE)"})
    _ordered(WEB, "WebSocketResponse", "_set_code_close_transport", ["self._close_code = code", "self._close_transport()"])
    _ordered(WEB, "WebSocketResponse", "_close_transport",
             ["if self._req is not None and self._req.transport is not None:", "self._req.transport.close()"])
    _ordered(WEB, "WebSocketResponse", "_set_closed", ["self._closed = True", "self._cancel_heartbeat()"])
    _ordered(WEB, "WebSocketResponse", "_set_closing", ["self._closing = True", "self._close_code = code", "self._cancel_heartbeat()"])

    # client close()
    fn = _ordered(CLI, "ClientWebSocketResponse", "close", [
        "if self._waiting and (not self._closing):", "self._close_wait = self._loop.create_future()", "self._set_closing()",
        "self._reader.feed_data(WS_CLOSING_MESSAGE)", "await self._close_wait",
        "if self._closed:", "return False", "self._set_closed()", "try:", "await self._writer.close(code, message)",
        "except asyncio.CancelledError", "self._close_code = WSCloseCode.ABNORMAL_CLOSURE", "self._response.close()", "raise",
        "except Exception", "self._close_code = WSCloseCode.ABNORMAL_CLOSURE", "self._response.close()", "return True",
        "if self._close_code:", "self._response.close()", "return True",
        "try:", "async with async_timeout.timeout(self._timeout.ws_close):", "while True:",
        "try:", "msg = await self._reader.read()",
        "except EofStream", "if self._close_code and (not self._reader.is_eof()):", "self._response.close()", "return True", "raise",
        "if msg.type is WSMsgType.CLOSE:", "self._close_code = msg.data", "self._response.close()", "return True",
        "except asyncio.CancelledError", "self._close_code = WSCloseCode.ABNORMAL_CLOSURE", "self._response.close()", "raise",
        "except Exception", "self._close_code = WSCloseCode.ABNORMAL_CLOSURE", "self._response.close()", "return True"])
    # one deadline for the whole wait: the timeout context encloses the loop, not the other way round
    for path, cls in ((WEB, "WebSocketResponse"), (CLI, "ClientWebSocketResponse")):
        f2 = _find(path, "close", cls)
        for st in _stmts(f2):
            if isinstance(st, ast.While):
                inner = [_head(x) for x in _stmts(ast.Module(body=list(st.body), type_ignores=[]))]
                if any(h.startswith("async with async_timeout.timeout(") for h in inner):
                    raise TranslatorError(f"{cls}.close: the close timeout is re-armed inside the read loop")
    if _count(fn, "self._set_closed()") != 1 or _count(fn, "await self._writer.close(code, message)") != 1:
        raise TranslatorError("client close(): _set_closed / writer.close not exactly once")
    _handlers_call(CLI, "ClientWebSocketResponse", "close", {"self._response.close()"})
    _ordered(CLI, "ClientWebSocketResponse", "_set_closed", ["self._closed = True", "self._cancel_heartbeat()"])
    _ordered(CLI, "ClientWebSocketResponse", "_set_closing", ["self._closing = True", "self._cancel_heartbeat()"])

    # receive(): entry checks, finally, handler order
    _ordered(WEB, "WebSocketResponse", "receive", [
        "while True:", "if self._waiting:", "if self._closed:", "self._conn_lost += 1",
        "if self._conn_lost >= THRESHOLD_CONNLOST_ACCESS:", "return WS_CLOSED_MESSAGE",
        "if self._closing:", "return WS_CLOSING_MESSAGE",
        "try:", "self._waiting = True", "try:", "if receive_timeout:",
        "msg = await self._reader.read()", "self._waiting = False", "if self._close_wait:", "set_result(self._close_wait, None)",
        "except asyncio.TimeoutError", "raise",
        "except EofStream", "if not self._closed:", "self._close_code = WSCloseCode.OK", "await self.close()", "return WS_CLOSED_MESSAGE",
        "except WebSocketError", "if not self._closed:", "self._close_code = exc.code", "await self.close(code=exc.code)", "return WSMessageError(data=exc)",
        "except Exception", "self._set_closing(WSCloseCode.ABNORMAL_CLOSURE)", "await self.close()",
        "if msg.type not in _INTERNAL_RECEIVE_TYPES:", "return msg",
        "if msg.type is WSMsgType.CLOSE:", "self._set_closing(msg.data)", "if not self._closed and self._autoclose:",
        "await self.close(drain=False)",
        "if msg.type is WSMsgType.CLOSING:", "if not self._closed:", "self._set_closing(WSCloseCode.OK)",
        "if msg.type is WSMsgType.PING and self._autoping:", "await self.pong(msg.data)", "continue",
        "if msg.type is WSMsgType.PONG and self._autoping:", "continue", "return msg"])
    _ordered(CLI, "ClientWebSocketResponse", "receive", [
        "while True:", "if self._waiting:", "if self._closed:", "return WS_CLOSED_MESSAGE",
        "if self._closing:", "await self.close()", "return WS_CLOSED_MESSAGE",
        "try:", "self._waiting = True", "try:", "if receive_timeout:",
        "msg = await self._reader.read()", "self._waiting = False", "if self._close_wait:", "set_result(self._close_wait, None)",
        "except (asyncio.CancelledError, asyncio.TimeoutError)", "self._close_code = WSCloseCode.ABNORMAL_CLOSURE", "raise",
        "except EofStream", "if not self._closed:", "self._close_code = WSCloseCode.OK", "await self.close()", "return WS_CLOSED_MESSAGE",
        "except ClientError", "self._set_closed()", "self._close_code = WSCloseCode.ABNORMAL_CLOSURE", "return WS_CLOSED_MESSAGE",
        "except WebSocketError", "self._close_code = WSCloseCode.ABNORMAL_CLOSURE", "await self.close(code=exc.code)", "return WSMessageError(data=exc)",
        "except Exception", "self._set_closing()", "self._close_code = WSCloseCode.ABNORMAL_CLOSURE", "await self.close()",
        "if msg.type not in _INTERNAL_RECEIVE_TYPES:", "return msg",
        "if msg.type is WSMsgType.CLOSE:", "self._set_closing()", "self._close_code = msg.data",
        "if not self._closed and self._autoclose:", "await self.close()",
        "if msg.type is WSMsgType.CLOSING:", "self._set_closing()",
        "if msg.type is WSMsgType.PING and self._autoping:", "await self.pong(msg.data)", "continue",
        "if msg.type is WSMsgType.PONG and self._autoping:", "continue", "return msg"])
    # the `finally` really is a finally of the inner try
    for path, cls in ((WEB, "WebSocketResponse"), (CLI, "ClientWebSocketResponse")):
        fn = _find(path, "receive", cls)
        ok = False
        for s in _stmts(fn):
            if isinstance(s, ast.Try) and s.finalbody:
                fb = [_head(x) for x in s.finalbody]
                if fb == ["self._waiting = False", "if self._close_wait:"] and not s.handlers:
                    ok = True
        if not ok:
            raise TranslatorError(f"{cls}.receive: `finally: self._waiting = False; if self._close_wait: set_result(...)` not found")

    # WebSocketWriter.close: the closing flag is set BEFORE the close frame is sent (send_frame may wait for a drain)
    fn = core.find_function(WR, "close", cls="WebSocketWriter")
    heads = [_head(x) for x in _stmts(fn)]
    want = ["self._closing = True", "await self.send_frame(PACK_CLOSE_CODE(code) + message, opcode=WSMsgType.CLOSE)"]
    if [h for h in heads if h in want] != want or any(isinstance(x, ast.Try) for x in _stmts(fn)):
        raise TranslatorError("WebSocketWriter.close: expected `self._closing = True` followed by `await self.send_frame(<close>)`, no try")

    # ping/pong exception handlers
    _ordered(WEB, "WebSocketResponse", "_handle_ping_pong_exception", [
        "if self._closed:", "return", "self._set_closed()", "self._set_code_close_transport(WSCloseCode.ABNORMAL_CLOSURE)",
        "self._exception = exc", "if self._waiting and (not self._closing) and (self._reader is not None):",
        "self._reader.feed_data(WSMessageError(data=exc, extra=None))"])
    _ordered(CLI, "ClientWebSocketResponse", "_handle_ping_pong_exception", [
        "if self._closed:", "return", "self._set_closed()", "self._close_code = WSCloseCode.ABNORMAL_CLOSURE",
        "self._exception = exc", "self._response.close()", "if self._waiting and (not self._closing):",
        "self._reader.feed_data(WSMessageError(data=exc, extra=None))"])
    _ordered(WEB, "WebSocketResponse", "_pong_not_received",
             ["if self._req is not None and self._req.transport is not None:"])

    def member(names, fmt):
        return " || ".join(fmt % mt[n] for n in names) or "false"

    out = []
    out.append("(* aiohttp/_websocket/models.py: WSCloseCode *)")
    out.append(f"Definition ws_close_ok : N := {cc['OK']}.")
    out.append(f"Definition ws_close_abnormal : N := {cc['ABNORMAL_CLOSURE']}.")
    out.append(f"Definition ws_close_protocol_error : N := {cc['PROTOCOL_ERROR']}.")
    out.append("(* WSMsgType *)")
    for k in ("TEXT", "BINARY", "PING", "PONG", "CLOSE", "CLOSING", "CLOSED", "ERROR"):
        out.append(f"Definition op_{k.lower()} : N := {mt[k]}.")
    out.append("(* web_ws.THRESHOLD_CONNLOST_ACCESS *)")
    out.append(f"Definition connlost_threshold : N := {thr}.")
    out.append("(* self._pong_heartbeat = heartbeat / <d> (both classes) *)")
    out.append(f"Definition pong_divisor : N := {d1}.")
    out.append("(* WebSocketWriter.send_frame: `if self._closing and not (opcode & WSMsgType.CLOSE): raise` —\n"
               "   true when a frame with this opcode may still be written after the close frame *)")
    out.append("Definition closing_write_allowed (opcode : N) : bool := negb (N.land opcode op_close =? 0).")
    out.append("(* http_websocket._INTERNAL_RECEIVE_TYPES *)")
    out.append("Definition internal_recv_type (t : N) : bool := " + member(internal, "(t =? %d)") + ".")
    out.append("(* statement shapes of close()/receive()/_handle_ping_pong_exception/WebSocketWriter.close checked by the translator *)")
    out.append("Definition ws_session_shapes_checked : bool := true.")
    return "\n".join(out) + "\n"
