#!/usr/bin/env python3
"""Regenerate coq/Generated/*.v from /repo's current working tree.

Each translator/gen_<area>.py defines OUTPUT (file name under coq/Generated) and
generate() -> Coq text.  A failing module deletes its output (so nothing stale is
compiled) and is reported; the properties that Require that file then fail their
translator obligation.
"""
from __future__ import annotations

import glob
import importlib
import os
import sys
import traceback

HERE = os.path.dirname(os.path.abspath(__file__))
sys.path.insert(0, os.path.dirname(HERE))

from translator import core  # noqa: E402


def regenerate(only: list[str] | None = None) -> dict[str, dict]:
    res: dict[str, dict] = {}
    for path in sorted(glob.glob(os.path.join(HERE, "gen_*.py"))):
        modname = os.path.basename(path)[:-3]
        try:
            mod = importlib.import_module(f"translator.{modname}")
            out = mod.OUTPUT
        except Exception as e:  # noqa
            res[modname] = {"ok": False, "error": f"import failed: {e!r}", "changed": False, "items": []}
            continue
        if only is not None and out not in only:
            continue
        try:
            core._ast_cache.clear()
            core._src_cache.clear()
            body = mod.generate()
            changed = core.emit(out, body)
            res[out] = {"ok": True, "error": "", "changed": changed, "items": list(getattr(mod, "ITEMS", []))}
        except Exception as e:  # noqa
            for ext in (".v", ".vo", ".vok", ".vos", ".glob"):
                try:
                    os.remove(os.path.join(core.GEN_DIR, out[:-2] + ext))
                except FileNotFoundError:
                    pass
            stale = core.restore_lastgood(out)
            res[out] = {"ok": False, "error": f"{type(e).__name__}: {e}", "changed": True, "stale_restored": stale,
                        "items": list(getattr(mod, "ITEMS", [])), "trace": traceback.format_exc()}
    return res


if __name__ == "__main__":
    r = regenerate()
    bad = 0
    for k, v in r.items():
        print(("ok  " if v["ok"] else "FAIL"), k, "(rewritten)" if v["changed"] else "", v["error"])
        bad += not v["ok"]
    sys.exit(1 if bad else 0)
