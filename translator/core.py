"""Fail-closed translator helpers: Python source (ast / re._parser) -> Coq text.

Everything here reads the *source text* of /repo (never imports aiohttp), so the
generated Coq definitions say what the code says now.  Any construct that is not
recognised raises TranslatorError: nothing is defaulted silently.
"""
from __future__ import annotations

import ast
import os
import re
import re._parser as sre_parse  # type: ignore
import re._constants as sre_c  # type: ignore

REPO = os.environ.get("VERIF_REPO", "/repo")
VERIF = os.path.dirname(os.path.dirname(os.path.abspath(__file__)))
GEN_DIR = os.path.join(os.environ.get("VERIF_WORK", VERIF), "coq", "Generated")


class TranslatorError(Exception):
    pass


# ----------------------------------------------------------------------------
# source access

_ast_cache: dict[str, ast.Module] = {}
_src_cache: dict[str, str] = {}


def src(relpath: str) -> str:
    if relpath not in _src_cache:
        with open(os.path.join(REPO, relpath), encoding="utf-8") as f:
            _src_cache[relpath] = f.read()
    return _src_cache[relpath]


def module(relpath: str) -> ast.Module:
    if relpath not in _ast_cache:
        _ast_cache[relpath] = ast.parse(src(relpath), relpath)
    return _ast_cache[relpath]


def _targets(node):
    if isinstance(node, ast.Assign):
        return node.targets, node.value
    if isinstance(node, ast.AnnAssign) and node.value is not None:
        return [node.target], node.value
    return [], None


def find_assign(relpath: str, name: str, cls: str | None = None, func: str | None = None) -> ast.expr:
    """Value expression of the unique assignment `name = ...` at module level,
    or in class `cls`, or (attribute `self.name`) anywhere inside function `func` of `cls`."""
    mod = module(relpath)
    scope: list[ast.stmt] = mod.body
    if cls is not None:
        cands = [n for n in mod.body if isinstance(n, ast.ClassDef) and n.name == cls]
        if len(cands) != 1:
            raise TranslatorError(f"{relpath}: class {cls} not found uniquely")
        scope = cands[0].body
    if func is not None:
        cands = [n for n in scope if isinstance(n, (ast.FunctionDef, ast.AsyncFunctionDef)) and n.name == func]
        if len(cands) != 1:
            raise TranslatorError(f"{relpath}: function {func} not found uniquely")
        found = []
        for n in ast.walk(cands[0]):
            tg, val = _targets(n)
            for t in tg:
                if isinstance(t, ast.Attribute) and t.attr == name and isinstance(t.value, ast.Name) and t.value.id == "self":
                    found.append(val)
                if isinstance(t, ast.Name) and t.id == name:
                    found.append(val)
        if len(found) != 1:
            raise TranslatorError(f"{relpath}: {cls}.{func}: assignment to {name} found {len(found)} times")
        return found[0]
    found = []
    for n in scope:
        tg, val = _targets(n)
        for t in tg:
            if isinstance(t, ast.Name) and t.id == name:
                found.append(val)
    if len(found) != 1:
        raise TranslatorError(f"{relpath}: assignment to {name} found {len(found)} times (cls={cls})")
    return found[0]


def find_function(relpath: str, name: str, cls: str | None = None):
    mod = module(relpath)
    scope = mod.body
    if cls is not None:
        cands = [n for n in mod.body if isinstance(n, ast.ClassDef) and n.name == cls]
        if len(cands) != 1:
            raise TranslatorError(f"{relpath}: class {cls} not found uniquely")
        scope = cands[0].body
    cands = [n for n in scope if isinstance(n, (ast.FunctionDef, ast.AsyncFunctionDef)) and n.name == name]
    if len(cands) != 1:
        raise TranslatorError(f"{relpath}: function {name} not found uniquely (cls={cls})")
    return cands[0]


def literal(node: ast.expr):
    """Python literal (int, str, bytes, tuple/list/set/frozenset of those)."""
    if isinstance(node, ast.Call) and isinstance(node.func, ast.Name) and node.func.id in ("frozenset", "set", "tuple", "list") and len(node.args) == 1 and not node.keywords:
        v = literal(node.args[0])
        return {"frozenset": frozenset, "set": set, "tuple": tuple, "list": list}[node.func.id](v)
    try:
        return ast.literal_eval(node)
    except Exception as e:  # noqa
        raise TranslatorError(f"not a literal: {ast.dump(node)[:200]}") from e


# ----------------------------------------------------------------------------
# regular expressions -> character classes

_FLAGS = {"ASCII": re.ASCII, "A": re.ASCII, "IGNORECASE": re.IGNORECASE, "I": re.IGNORECASE,
          "VERBOSE": re.VERBOSE, "X": re.VERBOSE, "MULTILINE": re.MULTILINE, "M": re.MULTILINE,
          "DOTALL": re.DOTALL, "S": re.DOTALL}


def _flags(node: ast.expr) -> int:
    if isinstance(node, ast.Attribute) and isinstance(node.value, ast.Name) and node.value.id == "re":
        if node.attr not in _FLAGS:
            raise TranslatorError(f"unknown regex flag {node.attr}")
        return _FLAGS[node.attr]
    if isinstance(node, ast.BinOp) and isinstance(node.op, ast.BitOr):
        return _flags(node.left) | _flags(node.right)
    raise TranslatorError(f"unrecognised flags expression {ast.dump(node)}")


def const_str(node: ast.expr, relpath: str | None = None):
    """String/bytes value of: a literal; an f-string whose holes are module-level names bound to
    such values; `re.escape(<such value>)`."""
    if isinstance(node, ast.Constant) and isinstance(node.value, (str, bytes)):
        return node.value
    if isinstance(node, ast.JoinedStr):
        out = ""
        for part in node.values:
            if isinstance(part, ast.Constant) and isinstance(part.value, str):
                out += part.value
            elif isinstance(part, ast.FormattedValue) and part.conversion == -1 and part.format_spec is None:
                v = const_str(part.value, relpath)
                if not isinstance(v, str):
                    raise TranslatorError("f-string hole is not a str")
                out += v
            else:
                raise TranslatorError("unsupported f-string part")
        return out
    if isinstance(node, ast.Name) and relpath is not None:
        return const_str(find_assign(relpath, node.id), relpath)
    if (isinstance(node, ast.Call) and isinstance(node.func, ast.Attribute) and node.func.attr == "escape"
            and isinstance(node.func.value, ast.Name) and node.func.value.id == "re" and len(node.args) == 1 and not node.keywords):
        return re.escape(const_str(node.args[0], relpath))
    raise TranslatorError(f"not a constant string: {ast.dump(node)[:200]}")


def regex_source(node: ast.expr, relpath: str | None = None):
    """(pattern, flags, is_bytes) of a `re.compile(<literal>[, flags])` expression."""
    if not (isinstance(node, ast.Call) and isinstance(node.func, ast.Attribute) and node.func.attr == "compile"
            and isinstance(node.func.value, ast.Name) and node.func.value.id == "re"):
        raise TranslatorError(f"not a re.compile call: {ast.dump(node)[:200]}")
    if not node.args:
        raise TranslatorError("re.compile without pattern")
    pat = const_str(node.args[0], relpath)
    flags = 0
    if len(node.args) > 1:
        flags |= _flags(node.args[1])
    for kw in node.keywords:
        if kw.arg == "flags":
            flags |= _flags(kw.value)
        else:
            raise TranslatorError(f"re.compile keyword {kw.arg}")
    return pat, flags, isinstance(pat, bytes)


_ASCII_CAT = {
    sre_c.CATEGORY_DIGIT: [(48, 57)],
    sre_c.CATEGORY_SPACE: [(9, 13), (32, 32)],
    sre_c.CATEGORY_WORD: [(48, 57), (65, 90), (95, 95), (97, 122)],
}


def _class_items(items, flags: int, is_bytes: bool):
    """-> (negated, [(lo,hi)...]) for the item list of an IN node."""
    neg = False
    rngs: list[tuple[int, int]] = []
    for op, av in items:
        if op is sre_c.NEGATE:
            neg = True
        elif op is sre_c.LITERAL:
            rngs.append((av, av))
        elif op is sre_c.RANGE:
            rngs.append((av[0], av[1]))
        elif op is sre_c.CATEGORY:
            if not (is_bytes or (flags & re.ASCII)):
                raise TranslatorError(f"unicode category {av} without re.ASCII is outside the translated fragment")
            if av not in _ASCII_CAT:
                raise TranslatorError(f"category {av} not supported")
            rngs.extend(_ASCII_CAT[av])
        else:
            raise TranslatorError(f"class item {op} not supported")
    return neg, rngs


def charclass(pattern, flags: int = 0):
    """Pattern must be one character class (or single literal/category), optionally
    under + or *.  Returns dict(neg, ranges, quant) with quant in {'one','plus','star'}."""
    is_bytes = isinstance(pattern, bytes)
    if flags & re.IGNORECASE:
        raise TranslatorError("IGNORECASE classes are outside the translated fragment")
    p = sre_parse.parse(pattern, flags)
    data = list(p)
    if len(data) != 1:
        raise TranslatorError(f"pattern {pattern!r}: expected a single item, got {data}")
    op, av = data[0]
    quant = "one"
    if op is sre_c.MAX_REPEAT:
        lo, hi, sub = av
        if hi is not sre_c.MAXREPEAT or lo not in (0, 1):
            raise TranslatorError(f"pattern {pattern!r}: repeat {lo},{hi} not supported")
        quant = "plus" if lo == 1 else "star"
        sub = list(sub)
        if len(sub) != 1:
            raise TranslatorError(f"pattern {pattern!r}: repeat body not a single item")
        op, av = sub[0]
    if op is sre_c.IN:
        neg, rngs = _class_items(av, flags, is_bytes)
    elif op is sre_c.LITERAL:
        neg, rngs = False, [(av, av)]
    elif op is sre_c.NOT_LITERAL:
        neg, rngs = True, [(av, av)]
    else:
        raise TranslatorError(f"pattern {pattern!r}: top item {op} not supported")
    return {"neg": neg, "ranges": sorted(set(rngs)), "quant": quant}


def charclass_coq(name: str, cc: dict, comment: str = "") -> str:
    """Definition name (c : N) : bool."""
    tests = []
    for lo, hi in cc["ranges"]:
        if lo == hi:
            tests.append(f"(c =? {lo})")
        else:
            tests.append(f"(({lo} <=? c) && (c <=? {hi}))")
    body = " || ".join(tests) if tests else "false"
    if cc["neg"]:
        body = f"negb ({body})"
    c = f"(* {comment} *)\n" if comment else ""
    return f"{c}Definition {name} (c : N) : bool := {body}.\n"


def call_modes(relpath: str, regex_name: str) -> list[str]:
    """Sorted set of methods (`match`, `fullmatch`, `search`, `sub`, ...) invoked on the
    module-level / attribute name `regex_name` anywhere in the file."""
    modes = set()
    for n in ast.walk(module(relpath)):
        if isinstance(n, ast.Call) and isinstance(n.func, ast.Attribute):
            v = n.func.value
            nm = v.id if isinstance(v, ast.Name) else (v.attr if isinstance(v, ast.Attribute) else None)
            if nm == regex_name:
                modes.add(n.func.attr)
    return sorted(modes)


# ----------------------------------------------------------------------------
# integer formulas

_BIN = {ast.Add: "+", ast.Sub: "-", ast.Mult: "*", ast.FloorDiv: "/"}
_CMP = {ast.Lt: "<?", ast.LtE: "<=?", ast.Eq: "=?"}


def formula(node: ast.expr, env: dict[str, str]) -> str:
    """Straight-line integer expression over + - * // min max, names in env, int literals.
    `self.x` is looked up as `x`.  Returns Coq text (scope decided by the caller)."""
    if isinstance(node, ast.Constant) and isinstance(node.value, int) and not isinstance(node.value, bool):
        return str(node.value)
    if isinstance(node, ast.Name):
        if node.id not in env:
            raise TranslatorError(f"formula: free name {node.id}")
        return env[node.id]
    if isinstance(node, ast.Attribute) and isinstance(node.value, ast.Name) and node.value.id == "self":
        if node.attr not in env:
            raise TranslatorError(f"formula: free attribute self.{node.attr}")
        return env[node.attr]
    if isinstance(node, ast.BinOp) and type(node.op) in _BIN:
        return f"({formula(node.left, env)} {_BIN[type(node.op)]} {formula(node.right, env)})"
    if isinstance(node, ast.Call) and isinstance(node.func, ast.Name) and node.func.id in ("min", "max") and len(node.args) == 2 and not node.keywords:
        f = "N.min" if node.func.id == "min" else "N.max"
        if env.get("__scope__") == "Z":
            f = "Z" + f[1:]
        return f"({f} {formula(node.args[0], env)} {formula(node.args[1], env)})"
    raise TranslatorError(f"formula: unsupported node {ast.dump(node)[:200]}")


def comparison(node: ast.expr, env: dict[str, str]) -> str:
    """a < b, a <= b, a > b, a >= b, a == b  -> Coq boolean text."""
    if not (isinstance(node, ast.Compare) and len(node.ops) == 1):
        raise TranslatorError(f"comparison: unsupported {ast.dump(node)[:200]}")
    a, b = formula(node.left, env), formula(node.comparators[0], env)
    op = node.ops[0]
    if isinstance(op, ast.Gt):
        return f"({b} <? {a})"
    if isinstance(op, ast.GtE):
        return f"({b} <=? {a})"
    if type(op) in _CMP:
        return f"({a} {_CMP[type(op)]} {b})"
    if isinstance(op, ast.NotEq):
        return f"(negb ({a} =? {b}))"
    raise TranslatorError(f"comparison: operator {type(op).__name__}")


# ----------------------------------------------------------------------------
# emitting

def coq_N_list(xs) -> str:
    return "[" + "; ".join(str(int(x)) for x in xs) + "]"


def coq_bytes(b: bytes | str) -> str:
    if isinstance(b, str):
        return coq_N_list([ord(c) for c in b])
    return coq_N_list(list(b))


HEADER = """(* GENERATED from /repo by translator — do not edit; rewritten on every check run *)
From Coq Require Import NArith ZArith List Bool.
Import ListNotations.
Open Scope N_scope.
"""


def emit(filename: str, body: str, header: str = HEADER) -> bool:
    """Write coq/Generated/<filename> only if the text changed. Returns True if rewritten."""
    os.makedirs(GEN_DIR, exist_ok=True)
    path = os.path.join(GEN_DIR, filename)
    text = header + "\n" + body
    try:
        with open(path, encoding="utf-8") as f:
            if f.read() == text:
                if not os.path.exists(os.path.join(GEN_DIR, ".lastgood", filename)):
                    _save_lastgood(filename, text)
                return False
    except FileNotFoundError:
        pass
    with open(path, "w", encoding="utf-8") as f:
        f.write(text)
    _save_lastgood(filename, text)
    return True


def _save_lastgood(filename: str, text: str) -> None:
    """Keep a copy of every successfully generated file.  It is used ONLY when a later translation of
    that file fails: the model runner is then built from the last good text so that the check can still
    search for a concrete failing input; the translator obligation and every theorem obligation are
    reported as broken in that case (see framework.main)."""
    d = os.path.join(GEN_DIR, ".lastgood")
    os.makedirs(d, exist_ok=True)
    with open(os.path.join(d, filename), "w", encoding="utf-8") as f:
        f.write(text)


def restore_lastgood(filename: str) -> bool:
    src_ = os.path.join(GEN_DIR, ".lastgood", filename)
    if not os.path.exists(src_):
        return False
    with open(src_, encoding="utf-8") as f, open(os.path.join(GEN_DIR, filename), "w", encoding="utf-8") as g:
        g.write(f.read())
    return True
