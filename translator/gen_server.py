"""aiohttp/web_protocol.py + aiohttp/http_parser.py (pipeline queue cap) -> Generated/ServerGen.v

Translated from the source text on every run (fail-closed):
  * MAX_MSG_QUEUE_SIZE, the resume mark formula (`MAX_MSG_QUEUE_SIZE // 2`), and that the request parser
    is constructed with `max_msg_queue_size=MAX_MSG_QUEUE_SIZE`;
  * the four comparisons that implement the cap, with their operators as written:
      parser  : `self._max_msg_queue_size and self._msg_in_flight >= self._max_msg_queue_size`   (HttpParser.feed_data)
      protocol: `len(self._messages) >= self._max_msg_queue_size`                                (data_received: pause)
      protocol: `len(self._messages) >= self._max_msg_queue_size`                                (_resume_msg_queue_reading: stay paused)
      protocol: `len(self._messages) <= self._msg_queue_resume_size`                             (start: resume mark)
  * `message_consumed` (guarded decrement) and the guarded increment of `_msg_in_flight`;
  * the status codes the protocol itself chooses (400 for a parse error, 504 timeout, 500 exception) and the
    default lingering time;
  * shape checks: data_received turns HttpProcessingError into ONE `_ErrInfo` item appended to the queue;
    handle_error and the HTTPException branch of _handle_request refuse (ConnectionError) when
    `request.writer.output_size > 0`; StreamResponse._start un-starts the response when _prepare_headers() raises.
"""
import ast

from . import core
from .core import TranslatorError

OUTPUT = "ServerGen.v"
ITEMS = ["MAX_MSG_QUEUE_SIZE", "msg_queue_resume_size", "parser_queue_full", "proto_queue_full",
         "proto_stays_paused", "proto_resume_mark", "msg_consumed", "msg_in_flight increment",
         "parse_error_status", "timeout_status", "exception_status", "default_lingering_time",
         "ErrInfo append shape", "handle_error output_size shape", "parser constructed with the cap",
         "HTTPException branch output_size shape", "StreamResponse._start resets the writer when _prepare_headers raises",
         "_settle_declined_upgrade called from finish_response and from start after the payload check",
         "_settle_declined_upgrade records the remaining tail before pausing / resuming",
         "data_received closing guard queues nothing",
         "finish_response refuses a response object other than the started one; _write_headers records the started one"]

WP = "aiohttp/web_protocol.py"
HP = "aiohttp/http_parser.py"


def _is_self_attr(n, attr):
    return isinstance(n, ast.Attribute) and n.attr == attr and isinstance(n.value, ast.Name) and n.value.id == "self"


def _is_len_self(n, attr):
    return (isinstance(n, ast.Call) and isinstance(n.func, ast.Name) and n.func.id == "len" and len(n.args) == 1
            and not n.keywords and _is_self_attr(n.args[0], attr))


def _cmp(op, a, b):
    """python `a op b` -> Coq bool over N"""
    if isinstance(op, ast.GtE):
        return f"({b} <=? {a})"
    if isinstance(op, ast.Gt):
        return f"({b} <? {a})"
    if isinstance(op, ast.LtE):
        return f"({a} <=? {b})"
    if isinstance(op, ast.Lt):
        return f"({a} <? {b})"
    if isinstance(op, ast.Eq):
        return f"({a} =? {b})"
    raise TranslatorError(f"unsupported comparison operator {type(op).__name__}")


def _find_compares(fn, left_pred, right_pred):
    out = []
    for n in ast.walk(fn):
        if isinstance(n, ast.Compare) and len(n.ops) == 1 and left_pred(n.left) and right_pred(n.comparators[0]):
            out.append(n)
    return out


def _one(xs, what):
    if len(xs) != 1:
        raise TranslatorError(f"{what}: expected exactly one occurrence, found {len(xs)}")
    return xs[0]


def generate() -> str:
    out = []
    mx = core.literal(core.find_assign(WP, "MAX_MSG_QUEUE_SIZE"))
    if not isinstance(mx, int) or isinstance(mx, bool) or mx < 0:
        raise TranslatorError("MAX_MSG_QUEUE_SIZE is not a non-negative int literal")
    out.append(f"(* web_protocol.MAX_MSG_QUEUE_SIZE *)\nDefinition MAX_MSG_QUEUE_SIZE : N := {mx}.\n")

    # self._max_msg_queue_size = MAX_MSG_QUEUE_SIZE ; self._msg_queue_resume_size = MAX_MSG_QUEUE_SIZE // 2
    v = core.find_assign(WP, "_max_msg_queue_size", cls="RequestHandler", func="__init__")
    if not (isinstance(v, ast.Name) and v.id == "MAX_MSG_QUEUE_SIZE"):
        raise TranslatorError("RequestHandler._max_msg_queue_size is not MAX_MSG_QUEUE_SIZE")
    v = core.find_assign(WP, "_msg_queue_resume_size", cls="RequestHandler", func="__init__")
    out.append("(* RequestHandler.__init__: self._msg_queue_resume_size = " + ast.unparse(v) + " *)\n"
               "Definition msg_queue_resume_size (maxq : N) : N := " + core.formula(v, {"MAX_MSG_QUEUE_SIZE": "maxq"}) + ".\n")

    # the parser is built with the same cap
    init = core.find_function(WP, "__init__", cls="RequestHandler")
    calls = [n for n in ast.walk(init) if isinstance(n, ast.Call) and isinstance(n.func, ast.Name) and n.func.id == "HttpRequestParser"]
    call = _one(calls, "HttpRequestParser(...) in RequestHandler.__init__")
    kw = {k.arg: k.value for k in call.keywords}
    if not (isinstance(kw.get("max_msg_queue_size"), ast.Name) and kw["max_msg_queue_size"].id == "MAX_MSG_QUEUE_SIZE"):
        raise TranslatorError("HttpRequestParser is not constructed with max_msg_queue_size=MAX_MSG_QUEUE_SIZE")
    v = core.find_assign(HP, "_max_msg_queue_size", cls="HttpParser", func="__init__")
    if not (isinstance(v, ast.Name) and v.id == "max_msg_queue_size"):
        raise TranslatorError("HttpParser._max_msg_queue_size is not the constructor argument")
    v = core.find_assign(HP, "_msg_in_flight", cls="HttpParser", func="__init__")
    if core.literal(v) != 0:
        raise TranslatorError("HttpParser._msg_in_flight does not start at 0")

    # parser: queue-full test
    feed = core.find_function(HP, "feed_data", cls="HttpParser")
    c = _one(_find_compares(feed, lambda l: _is_self_attr(l, "_msg_in_flight"), lambda r: _is_self_attr(r, "_max_msg_queue_size")),
             "HttpParser.feed_data: comparison of _msg_in_flight with _max_msg_queue_size")
    guards = [n for n in ast.walk(feed) if isinstance(n, ast.BoolOp) and isinstance(n.op, ast.And) and len(n.values) == 2
              and _is_self_attr(n.values[0], "_max_msg_queue_size") and n.values[1] is c]
    _one(guards, "HttpParser.feed_data: `self._max_msg_queue_size and <comparison>` guard")
    out.append("(* HttpParser.feed_data: " + ast.unparse(guards[0]) + " *)\n"
               "Definition parser_queue_full (infl maxq : N) : bool := (0 <? maxq) && " + _cmp(c.ops[0], "infl", "maxq") + ".\n")
    # the test is the first statement of the head-parsing branch and its body stores the tail and breaks
    ifs = [n for n in ast.walk(feed) if isinstance(n, ast.If) and n.test is guards[0]]
    iff = _one(ifs, "HttpParser.feed_data: if <queue full>")
    if not (any(isinstance(s, ast.Break) for s in iff.body)
            and any(isinstance(s, ast.Assign) and _is_self_attr(s.targets[0], "_tail") for s in iff.body)):
        raise TranslatorError("HttpParser.feed_data: the queue-full branch must store self._tail and break")

    # parser: guarded increment
    incs = [n for n in ast.walk(feed) if isinstance(n, ast.AugAssign) and _is_self_attr(n.target, "_msg_in_flight")]
    inc = _one(incs, "HttpParser.feed_data: increment of _msg_in_flight")
    if not (isinstance(inc.op, ast.Add) and isinstance(inc.value, ast.Constant) and inc.value.value == 1):
        raise TranslatorError("HttpParser.feed_data: _msg_in_flight is not incremented by 1")
    parents = [n for n in ast.walk(feed) if isinstance(n, ast.If) and inc in n.body and _is_self_attr(n.test, "_max_msg_queue_size")]
    _one(parents, "HttpParser.feed_data: `if self._max_msg_queue_size: self._msg_in_flight += 1`")

    # parser: message_consumed
    mc = core.find_function(HP, "message_consumed", cls="HttpParser")
    body = [s for s in mc.body if not (isinstance(s, ast.Expr) and isinstance(s.value, ast.Constant))]
    ok = (len(body) == 1 and isinstance(body[0], ast.If) and not body[0].orelse and len(body[0].body) == 1
          and isinstance(body[0].test, ast.Compare) and len(body[0].test.ops) == 1
          and _is_self_attr(body[0].test.left, "_msg_in_flight")
          and isinstance(body[0].test.comparators[0], ast.Constant) and body[0].test.comparators[0].value == 0
          and isinstance(body[0].body[0], ast.AugAssign) and isinstance(body[0].body[0].op, ast.Sub)
          and _is_self_attr(body[0].body[0].target, "_msg_in_flight")
          and isinstance(body[0].body[0].value, ast.Constant) and body[0].body[0].value.value == 1)
    if not ok:
        raise TranslatorError("HttpParser.message_consumed: expected `if self._msg_in_flight > 0: self._msg_in_flight -= 1`")
    out.append("(* HttpParser.message_consumed: " + ast.unparse(body[0]).replace("\n", " ") + " *)\n"
               "Definition msg_consumed (infl : N) : N := if " + _cmp(body[0].test.ops[0], "infl", "0") + " then infl - 1 else infl.\n")

    # protocol: pause test in data_received
    dr = core.find_function(WP, "data_received", cls="RequestHandler")
    c = _one(_find_compares(dr, lambda l: _is_len_self(l, "_messages"), lambda r: _is_self_attr(r, "_max_msg_queue_size")),
             "RequestHandler.data_received: comparison of len(_messages) with _max_msg_queue_size")
    out.append("(* RequestHandler.data_received: " + ast.unparse(c) + "  -> _pause_msg_queue_reading() *)\n"
               "Definition proto_queue_full (nq maxq : N) : bool := " + _cmp(c.ops[0], "nq", "maxq") + ".\n")
    # protocol: stay paused after the reparse
    rs = core.find_function(WP, "_resume_msg_queue_reading", cls="RequestHandler")
    c = _one(_find_compares(rs, lambda l: _is_len_self(l, "_messages"), lambda r: _is_self_attr(r, "_max_msg_queue_size")),
             "RequestHandler._resume_msg_queue_reading: comparison of len(_messages) with _max_msg_queue_size")
    out.append("(* RequestHandler._resume_msg_queue_reading: if " + ast.unparse(c) + ": return *)\n"
               "Definition proto_stays_paused (nq maxq : N) : bool := " + _cmp(c.ops[0], "nq", "maxq") + ".\n")
    # protocol: resume mark in start
    st = core.find_function(WP, "start", cls="RequestHandler")
    c = _one(_find_compares(st, lambda l: _is_len_self(l, "_messages"), lambda r: _is_self_attr(r, "_msg_queue_resume_size")),
             "RequestHandler.start: comparison of len(_messages) with _msg_queue_resume_size")
    out.append("(* RequestHandler.start: self._msg_queue_paused and " + ast.unparse(c) + "  -> _resume_msg_queue_reading() *)\n"
               "Definition proto_resume_mark (nq resume : N) : bool := " + _cmp(c.ops[0], "nq", "resume") + ".\n")

    # data_received: except HttpProcessingError -> messages = [(_ErrInfo(status=400, ...), EMPTY_PAYLOAD)]
    handlers = [h for n in ast.walk(dr) if isinstance(n, ast.Try) for h in n.handlers
                if isinstance(h.type, ast.Name) and h.type.id == "HttpProcessingError"]
    # cff98d2: while closing, the body of the request in flight is still fed to the parser; that guard has its own
    # `except HttpProcessingError: pass` and must return before anything is queued
    guard = [st2 for st2 in dr.body if isinstance(st2, ast.If) and ast.unparse(st2.test) in
             ("self._force_close or self._close", "self._close or self._force_close")]
    guard = _one(guard, "RequestHandler.data_received: `if self._force_close or self._close:` guard")
    if dr.body.index(guard) != min(i for i, st2 in enumerate(dr.body) if not (isinstance(st2, ast.Expr) and isinstance(st2.value, ast.Constant))) \
            or not isinstance(guard.body[-1], ast.Return) or guard.orelse:
        raise TranslatorError("data_received: the closing guard must be the first statement and end with return")
    if any(isinstance(n, ast.Call) and isinstance(n.func, ast.Attribute) and n.func.attr in ("append", "set_result") for n in ast.walk(guard)):
        raise TranslatorError("data_received: the closing guard must not queue messages or wake start()")
    in_guard = {id(n) for n in ast.walk(guard)}
    handlers = [h for h in handlers if id(h) not in in_guard]
    h = _one(handlers, "RequestHandler.data_received: except HttpProcessingError (outside the closing guard)")
    status = None
    for s in h.body:
        if isinstance(s, ast.Assign) and isinstance(s.targets[0], ast.Name) and s.targets[0].id == "messages":
            v = s.value
            if not (isinstance(v, ast.List) and len(v.elts) == 1 and isinstance(v.elts[0], ast.Tuple)
                    and isinstance(v.elts[0].elts[0], ast.Call) and isinstance(v.elts[0].elts[0].func, ast.Name)
                    and v.elts[0].elts[0].func.id == "_ErrInfo"):
                raise TranslatorError("data_received: the error branch does not build exactly one _ErrInfo message")
            for k in v.elts[0].elts[0].keywords:
                if k.arg == "status":
                    status = core.literal(k.value)
    if not isinstance(status, int):
        raise TranslatorError("data_received: _ErrInfo(status=<int literal>) not found")
    appends = [n for n in ast.walk(dr) if isinstance(n, ast.Call) and isinstance(n.func, ast.Attribute) and n.func.attr == "append"
               and _is_self_attr(n.func.value, "_messages")]
    _one(appends, "RequestHandler.data_received: self._messages.append")
    out.append(f"(* data_received: a parse error is queued as ONE _ErrInfo(status={status}) item *)\n"
               f"Definition parse_error_status : N := {status}.\n")

    # _handle_request: handle_error(request, 504) / handle_error(request, 500, exc)
    hr = core.find_function(WP, "_handle_request", cls="RequestHandler")
    codes = {}
    for n in ast.walk(hr):
        if isinstance(n, ast.ExceptHandler):
            for c2 in ast.walk(n):
                if isinstance(c2, ast.Call) and _is_self_attr(c2.func, "handle_error") and len(c2.args) >= 2:
                    tname = ast.unparse(n.type) if n.type is not None else ""
                    codes[tname] = core.literal(c2.args[1])
    if set(codes) != {"asyncio.TimeoutError", "Exception"}:
        raise TranslatorError(f"_handle_request: handle_error call sites changed: {codes}")
    out.append(f"Definition timeout_status : N := {int(codes['asyncio.TimeoutError'])}.\n"
               f"Definition exception_status : N := {int(codes['Exception'])}.\n")

    # _handle_request: the HTTPException branch refuses to write a second head (raise ConnectionError) before it builds
    # the exception's Response
    hx = [n for n in ast.walk(hr) if isinstance(n, ast.ExceptHandler) and n.type is not None and ast.unparse(n.type) == "HTTPException"]
    hx = _one(hx, "_handle_request: except HTTPException")
    guard_at = build_at = None
    for i, st2 in enumerate(hx.body):
        if (isinstance(st2, ast.If) and ast.unparse(st2.test) == "request.writer.output_size > 0" and len(st2.body) == 1
                and isinstance(st2.body[0], ast.Raise) and isinstance(st2.body[0].exc, ast.Call)
                and isinstance(st2.body[0].exc.func, ast.Name) and st2.body[0].exc.func.id == "ConnectionError" and not st2.orelse):
            guard_at = i
        if build_at is None and any(isinstance(c2, ast.Call) and _is_self_attr(c2.func, "finish_response") for c2 in ast.walk(st2)):
            build_at = i
    if guard_at is None or build_at is None or not guard_at < build_at:
        raise TranslatorError("_handle_request: the HTTPException branch must raise ConnectionError when "
                              "request.writer.output_size > 0 before it calls finish_response")

    # StreamResponse._start: a failed _prepare_headers() leaves the response un-started
    WR = "aiohttp/web_response.py"
    stf = core.find_function(WR, "_start", cls="StreamResponse")
    ok = False
    for n in ast.walk(stf):
        if isinstance(n, ast.Try) and any("_prepare_headers" in ast.unparse(x) for x in n.body):
            for h2 in n.handlers:
                if h2.type is not None and ast.unparse(h2.type) in ("BaseException", "Exception"):
                    resets = [ast.unparse(x) for x in h2.body]
                    if "self._payload_writer = None" in resets and isinstance(h2.body[-1], ast.Raise) and h2.body[-1].exc is None:
                        ok = True
    if not ok:
        raise TranslatorError("StreamResponse._start: `try: await self._prepare_headers() except BaseException: "
                              "self._payload_writer = None; raise` not found")

    # a declined upgrade is settled (parser switched back, _message_tail re-fed) by finish_response() AND by start() after
    # the payload check (3de7072: the deferred upgrade of a request with a body takes effect only when the body ends)
    sd = core.find_function(WP, "_settle_declined_upgrade", cls="RequestHandler")
    if not any(isinstance(n, ast.Call) and isinstance(n.func, ast.Attribute) and n.func.attr == "set_upgraded" for n in ast.walk(sd)):
        raise TranslatorError("_settle_declined_upgrade: does not switch the parser back (set_upgraded)")

    # ... and it records what is left of the tail (`self._upgraded = upgraded; self._message_tail = tail`) BEFORE it
    # decides to pause / resume reading: _resume_msg_queue_reading() looks at the tail, and nothing calls it again
    # (seeded change C05-10: a headless tail of >= read_bufsize bytes left the transport paused for good)
    def _line_of(pred, what):
        hits = [n.lineno for n in ast.walk(sd) if pred(n)]
        if len(hits) != 1:
            raise TranslatorError(f"_settle_declined_upgrade: expected exactly one {what}, found {len(hits)}")
        return hits[0]
    l_up = _line_of(lambda n: isinstance(n, ast.Assign) and ast.unparse(n) == "self._upgraded = upgraded", "`self._upgraded = upgraded`")
    l_tail = _line_of(lambda n: isinstance(n, ast.Assign) and ast.unparse(n) == "self._message_tail = tail", "`self._message_tail = tail`")
    l_res = _line_of(lambda n: isinstance(n, ast.Call) and _is_self_attr(n.func, "_resume_msg_queue_reading"), "self._resume_msg_queue_reading()")
    l_pause = _line_of(lambda n: isinstance(n, ast.Call) and _is_self_attr(n.func, "_pause_msg_queue_reading"), "self._pause_msg_queue_reading()")
    if not max(l_up, l_tail) < min(l_res, l_pause):
        raise TranslatorError("_settle_declined_upgrade: the remaining tail must be recorded before reading is paused / resumed")

    def _calls_settle(fn):
        return [n for n in ast.walk(fn) if isinstance(n, ast.Call) and _is_self_attr(n.func, "_settle_declined_upgrade")]
    fr = core.find_function(WP, "finish_response", cls="RequestHandler")
    _one(_calls_settle(fr), "finish_response: self._settle_declined_upgrade()")
    c_st = _one(_calls_settle(st), "start: self._settle_declined_upgrade()")
    acc = [n for n in ast.walk(st) if isinstance(n, ast.Call) and isinstance(n.func, ast.Attribute) and n.func.attr == "set_exception"
           and isinstance(n.func.value, ast.Name) and n.func.value.id == "payload"]
    acc = _one(acc, "start: payload.set_exception(_PAYLOAD_ACCESS_ERROR)")
    if not c_st.lineno > acc.lineno:
        raise TranslatorError("start: _settle_declined_upgrade() must run after the payload check")

    # 2a9b996: finish_response() refuses (ConnectionError) a response object other than the one already started for this
    # request, before it prepares it; StreamResponse._write_headers records the started object
    guard_at = prep_at = None
    for i, st2 in enumerate(fr.body):
        if (isinstance(st2, ast.If) and ast.unparse(st2.test) == "started is not None and started is not resp" and len(st2.body) == 1
                and isinstance(st2.body[0], ast.Raise) and isinstance(st2.body[0].exc, ast.Call)
                and isinstance(st2.body[0].exc.func, ast.Name) and st2.body[0].exc.func.id == "ConnectionError" and not st2.orelse):
            guard_at = i
        if prep_at is None and isinstance(st2, ast.Try) and any("prepare_meth(request)" in ast.unparse(x) for x in st2.body):
            prep_at = i
    src_ok = any(isinstance(st2, ast.Assign) and ast.unparse(st2) == "started = request._started_response" for st2 in fr.body)
    if guard_at is None or prep_at is None or not guard_at < prep_at or not src_ok:
        raise TranslatorError("finish_response: `started = request._started_response; if started is not None and started is not "
                              "resp: raise ConnectionError(...)` must precede `await prepare_meth(request)`")
    wh = core.find_function("aiohttp/web_response.py", "_write_headers", cls="StreamResponse")
    lines2 = [ast.unparse(x) for x in wh.body]
    if "request._started_response = self" not in lines2 or not any("write_headers" in l for l in lines2[:lines2.index("request._started_response = self")]):
        raise TranslatorError("StreamResponse._write_headers: `request._started_response = self` after writer.write_headers(...) not found")

    # handle_error: if request.writer.output_size > 0: raise ConnectionError(...)
    he = core.find_function(WP, "handle_error", cls="RequestHandler")
    found = 0
    for n in ast.walk(he):
        if (isinstance(n, ast.If) and isinstance(n.test, ast.Compare) and ast.unparse(n.test) == "request.writer.output_size > 0"
                and len(n.body) == 1 and isinstance(n.body[0], ast.Raise) and isinstance(n.body[0].exc, ast.Call)
                and isinstance(n.body[0].exc.func, ast.Name) and n.body[0].exc.func.id == "ConnectionError"):
            found += 1
    if found != 1:
        raise TranslatorError("handle_error: `if request.writer.output_size > 0: raise ConnectionError(...)` not found")
    frc = [n for n in ast.walk(he) if isinstance(n, ast.Call) and isinstance(n.func, ast.Attribute) and n.func.attr == "force_close"]
    _one(frc, "handle_error: resp.force_close()")

    # default lingering time
    args = init.args
    defaults = dict(zip([a.arg for a in args.kwonlyargs], args.kw_defaults))
    lt = core.literal(defaults["lingering_time"])
    if float(lt) != int(lt):
        raise TranslatorError("lingering_time default is not integral")
    out.append(f"Definition default_lingering_time : N := {int(lt)}.\n")
    return "\n".join(out)
