"""aiohttp/http_parser.py (+helpers.py, web_protocol.py) -> Generated/HttpGen.v"""
import ast
import re

from . import core
from .core import TranslatorError

OUTPUT = "HttpGen.v"
ITEMS = ["TOKENRE", "_FIELD_VALUE_FORBIDDEN_CTL_RE", "VERSRE", "DIGITS", "HEXDIGITS", "SINGLETON_HEADERS",
         "EMPTY_BODY_METHODS", "_REQUEST_TARGET_FORBIDDEN_RE (optional)", "default limits", "MAX_MSG_QUEUE_SIZE",
         "call-site modes", "empty_body rule", "payload re-raise rule", "Content-Encoding rule",
         "partial-line length checks"]
P = "aiohttp/http_parser.py"


def _cls(name, want_quant, want_modes=None, comment=""):
    pat, flags, isb = core.regex_source(core.find_assign(P, name), P)
    cc = core.charclass(pat, flags)
    if cc["quant"] != want_quant:
        raise TranslatorError(f"{name}: quantifier {cc['quant']} != {want_quant}")
    if want_modes is not None:
        modes = core.call_modes(P, name)
        if modes != want_modes:
            raise TranslatorError(f"{name}: used with {modes}, model assumes {want_modes}")
    return cc, pat


def _default(cls, arg):
    fn = core.find_function(P, "__init__", cls=cls)
    names = [a.arg for a in fn.args.args]
    defaults = fn.args.defaults
    off = len(names) - len(defaults)
    if arg not in names or names.index(arg) < off:
        raise TranslatorError(f"{cls}.__init__: no default for {arg}")
    return core.literal(defaults[names.index(arg) - off])


def _stmt_lists(fn):
    for n in ast.walk(fn):
        for fld in ("body", "orelse", "finalbody"):
            v = getattr(n, fld, None)
            if isinstance(v, list) and v and isinstance(v[0], ast.stmt):
                yield v


def _tail_check(cls, attr, old_test, recognise):
    """The LineTooLong check on a buffered partial line in <cls>.feed_data: either `len(self.<attr>) > max_line_length`
    (every buffered byte counts) or `tail_len > max_line_length` where `recognise(statements before the check)` says
    that, when SEP == CRLF (strict parsing, the request parser), tail_len is len(tail) minus one trailing CR.
    Anything else is not understood."""
    fn = core.find_function(P, "feed_data", cls=cls)
    found = []
    for lst in _stmt_lists(fn):
        for i, st in enumerate(lst):
            if isinstance(st, ast.If) and len(st.body) == 1 and isinstance(st.body[0], ast.Raise) \
                    and ast.unparse(st.body[0]).startswith(f"raise LineTooLong(self.{attr}"):
                found.append((lst, i, st))
    if len(found) != 1:
        raise TranslatorError(f"{cls}.feed_data: expected one LineTooLong check on self.{attr}, found {len(found)}")
    lst, i, st = found[0]
    test = ast.unparse(st.test)
    if test == old_test:
        return False
    if test == "tail_len > max_line_length":
        stores = [x for x in lst[:i] if any(isinstance(n, ast.Name) and n.id == "tail_len" and isinstance(n.ctx, ast.Store)
                                            for n in ast.walk(x))]
        if recognise(stores):
            return True
        raise TranslatorError(f"{cls}.feed_data: unrecognised computation of tail_len: {[ast.unparse(x) for x in stores]}")
    raise TranslatorError(f"{cls}.feed_data: unrecognised length check on self.{attr}: {test}")


def _strict_first(test: ast.expr) -> bool:
    """test is `SEP == b'\r\n'` or `SEP == b'\r\n' or ...`: true whenever parsing is strict"""
    want = "SEP == b'\\r\\n'"
    if ast.unparse(test) == want:
        return True
    return isinstance(test, ast.BoolOp) and isinstance(test.op, ast.Or) and ast.unparse(test.values[0]) == want


def _head_rule(stores) -> bool:
    # tail_len = len(self._tail) - self._tail.endswith(b'\r')      (both modes)
    return [ast.unparse(x) for x in stores] == ["tail_len = len(self._tail) - self._tail.endswith(b'\\r')"]


def _chunk_rule(stores) -> bool:
    # tail_len = len(self._chunk_tail); if SEP == CRLF [or ...]: tail_len -= self._chunk_tail.endswith(CR)
    if len(stores) != 2 or ast.unparse(stores[0]) != "tail_len = len(self._chunk_tail)":
        return False
    iff = stores[1]
    return (isinstance(iff, ast.If) and _strict_first(iff.test)
            and [ast.unparse(x) for x in iff.body] == ["tail_len -= self._chunk_tail.endswith(b'\\r')"])


def _tail_checks() -> str:
    head = _tail_check("HttpParser", "_tail", "len(self._tail) > max_line_length", _head_rule)
    chunk = _tail_check("HttpPayloadParser", "_chunk_tail", "len(self._chunk_tail) > max_line_length", _chunk_rule)
    b = lambda x: "true" if x else "false"
    return ("(* strict parsing (SEP = CRLF): the length check on a buffered partial line does not count one trailing CR\n"
            "   (HttpParser._tail: len(tail) - tail.endswith(CR); HttpPayloadParser._chunk_tail likewise); false = every\n"
            "   buffered byte counts (len(tail) > max_line_length) *)\n"
            f"Definition tail_check_discounts_cr : bool := {b(head)}.\n"
            f"Definition chunk_tail_check_discounts_cr : bool := {b(chunk)}.\n")


def generate() -> str:
    out = []
    cc, pat = _cls("TOKENRE", "plus", ["fullmatch"])
    out.append(core.charclass_coq("tchar", cc, f"TOKENRE = {pat!r}+ used with fullmatch (method, field names)"))
    cc, pat = _cls("_FIELD_VALUE_FORBIDDEN_CTL_RE", "one", ["search"])
    out.append(core.charclass_coq("field_forbidden_ctl", cc, f"_FIELD_VALUE_FORBIDDEN_CTL_RE = {pat!r} used with search"))
    pat, flags, _ = core.regex_source(core.find_assign(P, "VERSRE"), P)
    if pat != r"HTTP/(\d)\.(\d)" or flags != re.ASCII or core.call_modes(P, "VERSRE") != ["fullmatch"]:
        raise TranslatorError(f"VERSRE changed: {pat!r} flags={flags}")
    out.append("(* VERSRE = HTTP/(\\d)\\.(\\d), re.ASCII, fullmatch: transcribed structurally in Model/Http.v (parse_version) *)\nDefinition versre_is_http_d_dot_d : bool := true.\n")
    cc, pat = _cls("DIGITS", "plus", ["fullmatch"])
    out.append(core.charclass_coq("dec_digit", cc, f"DIGITS = {pat!r} re.ASCII, fullmatch (Content-Length, status)"))
    cc, pat = _cls("HEXDIGITS", "plus")
    # HEXDIGITS is used as re.fullmatch(HEXDIGITS, size_b)
    uses = [n for n in ast.walk(core.module(P)) if isinstance(n, ast.Call) and isinstance(n.func, ast.Attribute)
            and isinstance(n.func.value, ast.Name) and n.func.value.id == "re"
            and any(isinstance(a, ast.Name) and a.id == "HEXDIGITS" for a in n.args)]
    if [u.func.attr for u in uses] != ["fullmatch"]:
        raise TranslatorError("HEXDIGITS must be used exactly once, via re.fullmatch")
    out.append(core.charclass_coq("hex_digit", cc, f"HEXDIGITS = {pat!r}, re.fullmatch (chunk size)"))
    sing = core.literal(core.find_assign(P, "SINGLETON_HEADERS"))
    out.append("Definition singleton_headers : list (list N) := [" + "; ".join(core.coq_bytes(h) for h in sorted(sing)) + "].\n")
    # helpers.EMPTY_BODY_METHODS = frozenset({hdrs.METH_HEAD})
    v = core.find_assign("aiohttp/helpers.py", "EMPTY_BODY_METHODS")
    names = [n.attr for n in ast.walk(v) if isinstance(n, ast.Attribute) and isinstance(n.value, ast.Name) and n.value.id == "hdrs"]
    meths = []
    for nm in names:
        meths.append(core.literal(core.find_assign("aiohttp/hdrs.py", nm)))
    if not meths:
        raise TranslatorError("EMPTY_BODY_METHODS: no hdrs.METH_* members found")
    out.append("Definition empty_body_methods : list (list N) := [" + "; ".join(core.coq_bytes(m) for m in sorted(meths)) + "].\n")
    # optional: request-target forbidden class
    try:
        node = core.find_assign(P, "_REQUEST_TARGET_FORBIDDEN_RE")
    except TranslatorError:
        node = None
    if node is None:
        out.append("(* no _REQUEST_TARGET_FORBIDDEN_RE in the source: the request target is not screened *)\nDefinition target_forbidden (c : N) : bool := false.\n")
    else:
        pat, flags, _ = core.regex_source(node, P)
        cc = core.charclass(pat, flags)
        if cc["quant"] != "one" or core.call_modes(P, "_REQUEST_TARGET_FORBIDDEN_RE") != ["search"]:
            raise TranslatorError("_REQUEST_TARGET_FORBIDDEN_RE: expected one class used with search")
        out.append(core.charclass_coq("target_forbidden", cc, f"_REQUEST_TARGET_FORBIDDEN_RE = {pat!r} used with search on the request target"))
    # HttpParser.feed_data: which requests have no body whatever their headers say, and which
    # payload-parser exceptions leave feed_data (the others only poison the payload)
    fd = core.find_function(P, "feed_data", cls="HttpParser")
    eb = [n for n in ast.walk(fd) if isinstance(n, ast.Assign) and len(n.targets) == 1
          and isinstance(n.targets[0], ast.Name) and n.targets[0].id == "empty_body"]
    if len(eb) != 1:
        raise TranslatorError("feed_data: expected one assignment to empty_body")
    txt = ast.unparse(eb[0].value)
    if txt == "code in EMPTY_BODY_STATUS_CODES or bool(method and method in EMPTY_BODY_METHODS)":
        head = "true"
    elif txt == "code in EMPTY_BODY_STATUS_CODES or bool(code and method and (method in EMPTY_BODY_METHODS))":
        head = "false"
    else:
        raise TranslatorError(f"feed_data: unrecognised empty_body rule: {txt}")
    out.append(f"(* empty_body = {txt}; for a request code = 0 *)\nDefinition request_head_has_no_body : bool := {head}.\n")
    handlers = [h for n in ast.walk(fd) if isinstance(n, ast.Try) for h in n.handlers
                if h.name == "underlying_exc"]
    if len(handlers) != 1:
        raise TranslatorError("feed_data: expected one `except Exception as underlying_exc`")
    ifs = [n for n in handlers[0].body if isinstance(n, ast.If) and len(n.body) == 1 and isinstance(n.body[0], ast.Raise)]
    if len(ifs) != 1:
        raise TranslatorError("feed_data: expected one conditional re-raise in the payload except block")
    t = ast.unparse(ifs[0].test)
    if t == "isinstance(underlying_exc, (InvalidHeader, TransferEncodingError))":
        fatal_all = "false"
    elif t == "isinstance(underlying_exc, BadHttpMessage) and (not isinstance(underlying_exc, ContentEncodingError))":
        fatal_all = "true"
    else:
        raise TranslatorError(f"feed_data: unrecognised re-raise condition: {t}")
    out.append(f"(* payload parser exceptions re-raised by feed_data: {t} *)\n"
               f"Definition payload_framing_errors_all_fatal : bool := {fatal_all}.\n")
    # the recognised Content-Encoding token: handed on as written, or lower-cased
    encs = [n for n in ast.walk(core.module(P)) if isinstance(n, ast.If)
            and ast.unparse(n.test).startswith("enc.isascii() and enc.lower() in ")]
    if len(encs) != 1 or len(encs[0].body) != 1 or not isinstance(encs[0].body[0], ast.Assign) \
            or ast.unparse(encs[0].body[0].targets[0]) != "encoding" or encs[0].orelse:
        raise TranslatorError("parse_headers: unrecognised Content-Encoding rule")
    toks = sorted(core.literal(encs[0].test.values[1].comparators[0]))
    if toks != ["br", "deflate", "gzip", "zstd"]:
        raise TranslatorError(f"parse_headers: supported content codings changed: {toks}")
    rhs = ast.unparse(encs[0].body[0].value)
    if rhs not in ("enc", "enc.lower()"):
        raise TranslatorError(f"parse_headers: unrecognised Content-Encoding value: {rhs}")
    out.append(f"(* if {ast.unparse(encs[0].test)}: encoding = {rhs} *)\n"
               f"Definition content_encoding_lowered : bool := {'true' if rhs == 'enc.lower()' else 'false'}.\n")
    out.append(_tail_checks())
    for arg, nm in (("max_line_size", "default_max_line"), ("max_headers", "default_max_headers"), ("max_field_size", "default_max_field")):
        out.append(f"Definition {nm} : N := {int(_default('HttpParser', arg))}.")
    v = core.literal(core.find_assign("aiohttp/web_protocol.py", "MAX_MSG_QUEUE_SIZE"))
    out.append(f"Definition MAX_MSG_QUEUE_SIZE : N := {int(v)}.\n")
    return "\n".join(out)
