"""aiohttp/multipart.py (+ payload.py) -> Generated/MultipartGen.v

Data-like parts of the multipart codec: the size formula of MultipartWriter.size, the framing byte strings of
MultipartWriter.write / as_bytes, the reader's constants and integer formulas (chunk size, boundary window,
EOF-count guard, search start), the base64 alphabet, the limits' comparison operators.  Everything is read from
the source text; any unexpected shape raises TranslatorError.
"""
import ast

from . import core
from .core import TranslatorError

OUTPUT = "MultipartGen.v"
ITEMS = ["part_size_formula", "closing_size_formula", "size None guard", "write framing", "as_bytes framing",
         "_binary_headers shape", "chunk_size", "boundary_len_formula", "content_eof_exceeded",
         "window_search_start", "delimiter prefix", "first_chunk_strip", "fill loop test", "overflow test",
         "base64_char", "max_boundary_len", "reader boundary prefix", "default_max_field_size",
         "default_max_headers", "too_many_headers", "over_client_max", "read loop shape",
         "base64 token test (case-insensitive)", "nested reader inherits limits", "read_chunk re-read after a partial quartet",
         "align: short read carries the lot", "readline EOF guard", "readline delimiter only after CRLF",
         "closing boundary tail shared"]

MP = "aiohttp/multipart.py"


def _u(node) -> str:
    return ast.unparse(node)


def _expect(node, text: str, what: str):
    got = _u(node)
    want = _u(ast.parse(text, mode="eval").body) if not text.startswith("stmt:") else _u(ast.parse(text[5:]).body[0])
    if got != want:
        raise TranslatorError(f"{what}: expected `{want}`, found `{got}`")


class _LenSubst(ast.NodeTransformer):
    """len(<expr>) -> Name, by the unparsed text of <expr>."""

    def __init__(self, table):
        self.table = table

    def visit_Call(self, node):
        if isinstance(node.func, ast.Name) and node.func.id == "len" and len(node.args) == 1 and not node.keywords:
            key = _u(node.args[0])
            if key not in self.table:
                raise TranslatorError(f"formula: len({key}) is not a known quantity")
            return ast.copy_location(ast.Name(id=self.table[key], ctx=ast.Load()), node)
        return self.generic_visit(node)


def _formula(node, lens: dict, env: dict) -> str:
    node = _LenSubst(lens).visit(ast.parse(_u(node), mode="eval").body)
    e = dict(env)
    for v in lens.values():
        e[v] = v
    return core.formula(node, e)


def _bytes_concat(node, name="self._boundary"):
    """b"..." + self._boundary + b"..."  ->  (prefix, suffix)"""
    if not (isinstance(node, ast.BinOp) and isinstance(node.op, ast.Add) and isinstance(node.left, ast.BinOp)
            and isinstance(node.left.op, ast.Add)):
        raise TranslatorError(f"framing: not `bytes + {name} + bytes`: {_u(node)}")
    a, b, c = node.left.left, node.left.right, node.right
    if not (isinstance(a, ast.Constant) and isinstance(a.value, bytes) and isinstance(c, ast.Constant)
            and isinstance(c.value, bytes) and _u(b) == name):
        raise TranslatorError(f"framing: not `bytes + {name} + bytes`: {_u(node)}")
    return a.value, c.value


def _awaited_write(stmt, target="writer"):
    """`await <target>.write(X)` -> X, else None"""
    if (isinstance(stmt, ast.Expr) and isinstance(stmt.value, ast.Await) and isinstance(stmt.value.value, ast.Call)):
        c = stmt.value.value
        if _u(c.func) == f"{target}.write" and len(c.args) == 1 and not c.keywords:
            return c.args[0]
    return None


def _size():
    fn = core.find_function(MP, "size", cls="MultipartWriter")
    body = [s for s in fn.body if not (isinstance(s, ast.Expr) and isinstance(s.value, ast.Constant))]
    if len(body) != 4:
        raise TranslatorError("MultipartWriter.size: expected `total = 0; for ...; total += ...; return total`")
    _expect(body[0], "stmt:total = 0", "size: initial value")
    loop = body[1]
    if not isinstance(loop, ast.For) or _u(loop.target) != "(part, encoding, te_encoding)" or _u(loop.iter) != "self._parts" or loop.orelse:
        raise TranslatorError("size: loop header changed: " + _u(loop).split("\n")[0])
    if len(loop.body) != 3:
        raise TranslatorError("size: loop body must be `part_size = part.size; if ...: return None; total += int(...)`")
    _expect(loop.body[0], "stmt:part_size = part.size", "size: part_size")
    g = loop.body[1]
    if not (isinstance(g, ast.If) and not g.orelse and len(g.body) == 1 and _u(g.body[0]) == "return None"):
        raise TranslatorError("size: the None guard changed")
    _expect(g.test, "encoding or te_encoding or part_size is None", "size: None guard")
    acc = loop.body[2]
    if not (isinstance(acc, ast.AugAssign) and isinstance(acc.op, ast.Add) and _u(acc.target) == "total"
            and isinstance(acc.value, ast.Call) and _u(acc.value.func) == "int" and len(acc.value.args) == 1):
        raise TranslatorError("size: accumulation is not `total += int(<formula>)`")
    lens = {"self._boundary": "blen", "part._binary_headers": "hlen"}
    per_part = _formula(acc.value.args[0], lens, {"part_size": "psize"})
    close = body[2]
    if not (isinstance(close, ast.AugAssign) and isinstance(close.op, ast.Add) and _u(close.target) == "total"):
        raise TranslatorError("size: closing accumulation changed")
    closing = _formula(close.value, lens, {})
    _expect(body[3], "stmt:return total", "size: return")
    return per_part, closing


def _write_framing():
    fn = core.find_function(MP, "write", cls="MultipartWriter")
    body = [s for s in fn.body if not (isinstance(s, ast.Expr) and isinstance(s.value, ast.Constant))]
    if len(body) != 2 or not isinstance(body[0], ast.For) or not isinstance(body[1], ast.If):
        raise TranslatorError("MultipartWriter.write: expected `for part...: ...` then `if close_boundary: ...`")
    loop = body[0]
    if _u(loop.target) != "(part, encoding, te_encoding)" or _u(loop.iter) != "self._parts":
        raise TranslatorError("write: loop header changed")
    stmts = list(loop.body)
    if isinstance(stmts[0], ast.If) and _u(stmts[0].test) == "self._is_form_data":
        if not all(isinstance(s, ast.Assert) for s in stmts[0].body) or stmts[0].orelse:
            raise TranslatorError("write: the form-data block must only assert")
        stmts = stmts[1:]
    if len(stmts) != 4:
        raise TranslatorError("write: loop body must be open-boundary, headers, content, CRLF")
    x1, x2 = _awaited_write(stmts[0]), _awaited_write(stmts[1])
    if x1 is None or x2 is None:
        raise TranslatorError("write: first two statements must be awaited writer.write(...)")
    open_pre, open_suf = _bytes_concat(x1)
    if _u(x2) != "part._binary_headers":
        raise TranslatorError("write: headers statement changed")
    br = stmts[2]
    if not (isinstance(br, ast.If) and _u(br.test) == "encoding or te_encoding" and len(br.orelse) == 1
            and _u(br.orelse[0]) == "await part.write(writer)"):
        raise TranslatorError("write: content branch changed")
    want_enc = ["w = MultipartPayloadWriter(writer)", "if encoding:\n    w.enable_compression(encoding)",
                "if te_encoding:\n    w.enable_encoding(te_encoding)", "await part.write(w)", "await w.write_eof()"]
    if [_u(s) for s in br.body] != want_enc:
        raise TranslatorError("write: encoded-content branch changed")
    x3 = _awaited_write(stmts[3])
    if not (isinstance(x3, ast.Constant) and isinstance(x3.value, bytes)):
        raise TranslatorError("write: part terminator changed")
    cl = body[1]
    if _u(cl.test) != "close_boundary" or cl.orelse or len(cl.body) != 1:
        raise TranslatorError("write: close block changed")
    x4 = _awaited_write(cl.body[0])
    if x4 is None:
        raise TranslatorError("write: close block changed")
    close_pre, close_suf = _bytes_concat(x4)
    return open_pre, open_suf, x3.value, close_pre, close_suf


def _as_bytes_framing():
    fn = core.find_function(MP, "as_bytes", cls="MultipartWriter")
    apps = []
    for n in ast.walk(fn):
        if isinstance(n, ast.Call) and _u(n.func) == "parts.append" and len(n.args) == 1:
            apps.append(n.args[0])
    apps.sort(key=lambda n: (n.lineno, n.col_offset))
    if len(apps) != 5:
        raise TranslatorError(f"as_bytes: expected 5 parts.append calls, found {len(apps)}")
    o = _bytes_concat(apps[0])
    if _u(apps[1]) != "part._binary_headers" or _u(apps[2]) != "part_bytes":
        raise TranslatorError("as_bytes: headers/content appends changed")
    if not (isinstance(apps[3], ast.Constant) and isinstance(apps[3].value, bytes)):
        raise TranslatorError("as_bytes: part terminator changed")
    c = _bytes_concat(apps[4])
    return o[0], o[1], apps[3].value, c[0], c[1]


_EXPECTED_BINARY_HEADERS = "return ''.join((_safe_header(k) + ': ' + _safe_header(v) + '\\r\\n' for k, v in self.headers.items())).encode('utf-8') + b'\\r\\n'"


def _binary_headers():
    fn = core.find_function("aiohttp/payload.py", "_binary_headers", cls="Payload")
    body = [s for s in fn.body if not (isinstance(s, ast.Expr) and isinstance(s.value, ast.Constant))]
    if len(body) != 1 or _u(body[0]) != _u(ast.parse(_EXPECTED_BINARY_HEADERS).body[0]):
        raise TranslatorError("Payload._binary_headers changed: " + _u(fn))


def _find_stmts(fn, pred):
    return [n for n in ast.walk(fn) if pred(n)]


def _reader_items():
    out = {}
    out["chunk_size"] = int(core.literal(core.find_assign(MP, "chunk_size", cls="BodyPartReader")))
    bl = core.find_assign(MP, "_boundary_len", cls="BodyPartReader", func="__init__")
    out["boundary_len"] = _formula(bl, {"boundary": "blen"}, {})
    fn = core.find_function(MP, "_read_chunk_from_stream", cls="BodyPartReader")
    # assert size >= self._boundary_len
    asserts = [n for n in fn.body if isinstance(n, ast.Assert)]
    if not asserts or _u(asserts[0].test) != "size >= self._boundary_len":
        raise TranslatorError("_read_chunk_from_stream: the size assertion changed")
    # the fill loop
    loops = [n for n in fn.body if isinstance(n, ast.While)]
    if len(loops) != 1:
        raise TranslatorError("_read_chunk_from_stream: expected exactly one while loop")
    lp = loops[0]
    _expect(lp.test, "len(chunk) < self._boundary_len", "fill loop test")
    want = ["chunk += await self._content.read(size)", "self._content_eof += int(self._content.at_eof())",
            None, "if self._content_eof:\n    break"]
    got = [_u(s) for s in lp.body]
    if len(got) != 4 or got[0] != want[0] or got[1] != want[1] or got[3] != want[3]:
        raise TranslatorError("_read_chunk_from_stream: fill loop body changed:\n" + "\n".join(got))
    guard = lp.body[2]
    if not (isinstance(guard, ast.If) and not guard.orelse and len(guard.body) == 1 and isinstance(guard.body[0], ast.Raise)
            and _u(guard.body[0].exc.func) == "ValueError"):
        raise TranslatorError("_read_chunk_from_stream: the EOF-count guard must raise ValueError")
    out["content_eof_exceeded"] = core.comparison(guard.test, {"_content_eof": "n"})
    # first chunk
    first = [n for n in fn.body if isinstance(n, ast.If) and _u(n.test) == "first_chunk"]
    if len(first) != 2:
        raise TranslatorError("_read_chunk_from_stream: expected two `if first_chunk` statements")
    if [_u(s) for s in first[0].body] != ["self._prev_chunk = b'\\r\\n' + await self._content.read(size)"] or first[0].orelse:
        raise TranslatorError("_read_chunk_from_stream: first-chunk read changed")
    if [_u(s) for s in first[1].body] != ["idx = window.find(sub)"] or len(first[1].orelse) != 1:
        raise TranslatorError("_read_chunk_from_stream: first-chunk search changed")
    other = first[1].orelse[0]
    if not (isinstance(other, ast.Assign) and _u(other.targets[0]) == "idx" and isinstance(other.value, ast.Call)
            and _u(other.value.func) == "window.find" and len(other.value.args) == 2 and _u(other.value.args[0]) == "sub"):
        raise TranslatorError("_read_chunk_from_stream: windowed search changed")
    out["window_search_start"] = _formula(other.value.args[1], {"self._prev_chunk": "prevlen", "sub": "sublen"}, {})
    # overflow push-back
    of = [n for n in fn.body if isinstance(n, ast.If) and _u(n.test) == "len(chunk) > size"]
    if len(of) != 1 or [_u(s) for s in of[0].body] != ["self._content.unread_data(chunk[size:])", "chunk = chunk[:size]"]:
        raise TranslatorError("_read_chunk_from_stream: overflow push-back changed")
    # window / sub / result
    src = {(_u(n.targets[0]) if isinstance(n, ast.Assign) else None): n for n in fn.body if isinstance(n, ast.Assign)}
    if _u(src["window"].value) != "self._prev_chunk + chunk":
        raise TranslatorError("window changed")
    sub = src["sub"].value
    if not (isinstance(sub, ast.BinOp) and isinstance(sub.left, ast.Constant) and _u(sub.right) == "self._boundary"):
        raise TranslatorError("sub changed")
    out["delim_prefix"] = sub.left.value
    res = src["result"].value
    if not (isinstance(res, ast.Subscript) and _u(res.value) == "self._prev_chunk" and isinstance(res.slice, ast.Slice)
            and res.slice.upper is None and isinstance(res.slice.lower, ast.IfExp) and _u(res.slice.lower.test) == "first_chunk"
            and _u(res.slice.lower.orelse) == "0"):
        raise TranslatorError("result slice changed")
    out["first_chunk_strip"] = int(core.literal(res.slice.lower.body))
    found = [n for n in fn.body if isinstance(n, ast.If) and _u(n.test) == "idx >= 0"]
    if len(found) != 1:
        raise TranslatorError("found-branch changed")
    fb = [s for s in found[0].body if not isinstance(s, ast.Expr) or not isinstance(s.value, ast.Constant)]
    txt = [_u(s) for s in fb]
    want_fb = ["self._prev_chunk = self._prev_chunk[:idx]", "chunk = window[len(self._prev_chunk):idx]",
               "if not chunk:\n    self._at_eof = True"]
    if len(txt) != 4 or not txt[0].startswith("with warnings.catch_warnings():") or "self._content.unread_data(window[idx:])" not in txt[0] or txt[1:] != want_fb:
        raise TranslatorError("found-branch body changed:\n" + "\n".join(txt))
    if _u(fn.body[-2]) != "self._prev_chunk = chunk" or _u(fn.body[-1]) != "return result":
        raise TranslatorError("_read_chunk_from_stream: tail changed")
    # base64 alphabet
    b64 = core.find_assign(MP, "_BASE64_CHARS")
    if not (isinstance(b64, ast.Call) and _u(b64.func) == "frozenset" and len(b64.args) == 1 and isinstance(b64.args[0], ast.Constant)
            and isinstance(b64.args[0].value, bytes)):
        raise TranslatorError("_BASE64_CHARS is not frozenset(b'...')")
    out["base64"] = sorted(set(b64.args[0].value))
    _expect(core.find_assign(MP, "_NON_BASE64_BYTES"), "bytes((b for b in range(256) if b not in _BASE64_CHARS))", "_NON_BASE64_BYTES")
    # boundary length limit (writer and reader)
    lims = []
    for cls, f, var in (("MultipartWriter", "__init__", "boundary"), ("MultipartReader", "_get_boundary", "boundary")):
        fnn = core.find_function(MP, f, cls=cls)
        for n in ast.walk(fnn):
            if isinstance(n, ast.If) and isinstance(n.test, ast.Compare) and _u(n.test.left) == f"len({var})" and isinstance(n.test.ops[0], ast.Gt):
                lims.append(int(core.literal(n.test.comparators[0])))
    if len(lims) != 2 or lims[0] != lims[1]:
        raise TranslatorError(f"boundary length limits: {lims}")
    out["max_boundary_len"] = lims[0]
    _expect(core.find_assign(MP, "_boundary", cls="MultipartReader", func="__init__"), "('--' + self._get_boundary()).encode()", "reader boundary")
    init = core.find_function(MP, "__init__", cls="MultipartReader")
    kw = {a.arg: d for a, d in zip(init.args.kwonlyargs, init.args.kw_defaults)}
    out["max_field_size"] = int(core.literal(kw["max_field_size"]))
    out["max_headers"] = int(core.literal(kw["max_headers"]))
    # _read_headers
    rh = core.find_function(MP, "_read_headers", cls="MultipartReader")
    want_rh = ["lines = []",
               "while True:\n    chunk = await self._content.readline(max_line_length=self._max_field_size)\n"
               "    chunk = chunk.rstrip(b'\\r\\n')\n    lines.append(chunk)\n    if not chunk:\n        break\n"
               "    if len(lines) > self._max_headers:\n        raise BadHttpMessage('Too many headers received')",
               "parser = HeadersParser(max_field_size=self._max_field_size)",
               "headers, _ = parser.parse_headers(lines)", "return headers"]
    if [_u(s) for s in rh.body] != want_rh:
        raise TranslatorError("_read_headers changed:\n" + _u(rh))
    # BodyPartReader.read loop
    rd = core.find_function(MP, "read", cls="BodyPartReader")
    loops = [n for n in rd.body if isinstance(n, ast.While)]
    if len(loops) != 1 or _u(loops[0].test) != "not self._at_eof":
        raise TranslatorError("BodyPartReader.read: loop changed")
    want_rd = ["data.extend(await self.read_chunk(self.chunk_size))",
               "if len(data) > self._client_max_size:\n    raise self._max_size_error_cls(self._client_max_size)"]
    if [_u(s) for s in loops[0].body] != want_rd:
        raise TranslatorError("BodyPartReader.read: loop body changed (limit must be tested inside the loop)")
    # read_chunk: quartet alignment is switched on by the Content-Transfer-Encoding token, case-insensitively
    rc = core.find_function(MP, "read_chunk", cls="BodyPartReader")
    txt = [_u(n) for n in rc.body]
    if "encoding = self.headers.get(CONTENT_TRANSFER_ENCODING)" not in txt:
        raise TranslatorError("read_chunk: the Content-Transfer-Encoding lookup changed")
    want_al = "if encoding and encoding.lower() == 'base64':\n    chunk = self._align_base64_chunk(chunk, len(carry) + want)"
    if want_al not in txt:
        raise TranslatorError("read_chunk: the base64 test must be `encoding and encoding.lower() == 'base64'` guarding _align_base64_chunk")
    want_retry = "if not chunk and self._b64_carry and (not self._at_eof):\n    return await self.read_chunk(size)"
    if want_retry not in txt:
        raise TranslatorError("read_chunk: the re-read after a partial base64 quartet changed")
    al = core.find_function(MP, "_align_base64_chunk", cls="BodyPartReader")
    nocut = [n for n in al.body if isinstance(n, ast.If) and _u(n.test) == "not cut"]
    if len(nocut) != 1 or [_u(x) for x in nocut[0].body if not (isinstance(x, ast.Expr) and isinstance(x.value, ast.Constant))] != [
            "if len(chunk) < size:\n    self._b64_carry = chunk + self._b64_carry\n    return b''", "return chunk"]:
        raise TranslatorError("_align_base64_chunk: the `not cut` branch changed")
    rl = core.find_function(MP, "readline", cls="BodyPartReader")
    rtxt = [_u(n) for n in rl.body]
    for need in ("if not line and self._content.at_eof():\n    self._content_eof += 1\n    if self._content_eof > 2:\n        raise ValueError('Reading after EOF')",
                 "after_crlf = self._prev_line_crlf", "self._prev_line_crlf = line.endswith(b'\\r\\n')"):
        if need not in rtxt:
            raise TranslatorError("BodyPartReader.readline: expected statement missing: " + need.split("\n")[0])
    branch = [n for n in rl.body if isinstance(n, ast.If) and _u(n.test) == "after_crlf and line.startswith(self._boundary)"]
    if len(branch) != 1 or "if self._prev_line_crlf and next_line.startswith(self._boundary):\n    line = line[:-2]" not in [_u(x) for x in branch[0].orelse]:
        raise TranslatorError("BodyPartReader.readline: delimiter tests changed")
    for fnm in ("_read_until_first_boundary", "_read_boundary"):
        if "await self._read_closing_boundary_tail()" not in _u(core.find_function(MP, fnm, cls="MultipartReader")):
            raise TranslatorError(fnm + ": the closing boundary must be followed by _read_closing_boundary_tail()")
    # _get_part_reader: a nested multipart reader is built with all four settings of its parent
    gp = core.find_function(MP, "_get_part_reader", cls="MultipartReader")
    calls = [n for n in ast.walk(gp) if isinstance(n, ast.Call) and any(k.arg == "client_max_size" for k in n.keywords)]
    nested = [c for c in calls if _u(c.func) != "self.part_reader_cls"]
    if not nested:
        raise TranslatorError("_get_part_reader: no nested reader construction found")
    for c in nested:
        kws = {k.arg: _u(k.value) for k in c.keywords}
        if [_u(a) for a in c.args] != ["headers", "self._content"] or kws != {
                "client_max_size": "self._client_max_size", "max_field_size": "self._max_field_size",
                "max_headers": "self._max_headers", "max_size_error_cls": "self._max_size_error_cls"}:
            raise TranslatorError("_get_part_reader: the nested reader must be built with (headers, self._content) and the parent's "
                                  "client_max_size, max_field_size, max_headers, max_size_error_cls: " + _u(c))
    leaf = [c for c in calls if _u(c.func) == "self.part_reader_cls"]
    if len(leaf) != 1 or {k.arg: _u(k.value) for k in leaf[0].keywords} != {
            "subtype": "self._mimetype.subtype", "default_charset": "self._default_charset",
            "client_max_size": "self._client_max_size", "max_size_error_cls": "self._max_size_error_cls"} \
            or [_u(a) for a in leaf[0].args] != ["self._boundary", "headers", "self._content"]:
        raise TranslatorError("_get_part_reader: the body part reader construction changed")
    return out


def generate() -> str:
    per_part, closing = _size()
    w = _write_framing()
    a = _as_bytes_framing()
    if w != a:
        raise TranslatorError(f"write and as_bytes frame parts differently: {w} vs {a}")
    _binary_headers()
    r = _reader_items()
    o = []
    o.append("(* MultipartWriter.size: per part `total += int(...)`, then the closing delimiter; None as soon as a part\n"
             "   is encoded (Content-Encoding / Content-Transfer-Encoding) or has no size *)")
    o.append(f"Definition part_size_formula (blen psize hlen : N) : N := {per_part}.")
    o.append(f"Definition closing_size_formula (blen : N) : N := {closing}.")
    o.append("Definition size_none_when_encoded : bool := true.\n")
    o.append("(* MultipartWriter.write / as_bytes: open ++ boundary ++ open_end, headers, content, part_end; close ++ boundary ++ close_end *)")
    o.append(f"Definition frame_open : list N := {core.coq_bytes(w[0])}.")
    o.append(f"Definition frame_open_end : list N := {core.coq_bytes(w[1])}.")
    o.append(f"Definition frame_part_end : list N := {core.coq_bytes(w[2])}.")
    o.append(f"Definition frame_close : list N := {core.coq_bytes(w[3])}.")
    o.append(f"Definition frame_close_end : list N := {core.coq_bytes(w[4])}.\n")
    o.append("(* BodyPartReader *)")
    o.append(f"Definition chunk_size : N := {r['chunk_size']}.")
    o.append(f"Definition boundary_len_formula (blen : N) : N := {r['boundary_len']}.")
    o.append(f"Definition content_eof_exceeded (n : N) : bool := {r['content_eof_exceeded']}.")
    o.append(f"Definition window_search_start (prevlen sublen : N) : N := {r['window_search_start']}.")
    o.append(f"Definition delim_prefix : list N := {core.coq_bytes(r['delim_prefix'])}.")
    o.append(f"Definition first_chunk_strip : N := {r['first_chunk_strip']}.")
    o.append("(* fill loop: `while len(chunk) < self._boundary_len`; overflow: `if len(chunk) > size` *)")
    o.append("Definition fill_more (chunklen blen : N) : bool := (chunklen <? blen).")
    o.append("Definition overflow (chunklen size : N) : bool := (size <? chunklen).")
    rngs = []
    for c in r["base64"]:
        if rngs and rngs[-1][1] + 1 == c:
            rngs[-1] = (rngs[-1][0], c)
        else:
            rngs.append((c, c))
    cc = {"neg": False, "ranges": rngs, "quant": "one"}
    o.append(core.charclass_coq("base64_char", cc, "multipart._BASE64_CHARS").rstrip())
    o.append(f"Definition max_boundary_len : N := {r['max_boundary_len']}.")
    o.append("Definition reader_boundary_prefix : list N := [45; 45].")
    o.append(f"Definition default_max_field_size : N := {r['max_field_size']}.")
    o.append(f"Definition default_max_headers : N := {r['max_headers']}.")
    o.append("(* _read_headers: `if len(lines) > self._max_headers`; read: `if len(data) > self._client_max_size` inside the loop *)")
    o.append("Definition too_many_headers (nlines maxh : N) : bool := (maxh <? nlines).")
    o.append("Definition over_client_max (datalen maxsize : N) : bool := (maxsize <? datalen).")
    o.append("(* read_chunk: `encoding and encoding.lower() == 'base64'`; _get_part_reader passes the parent's limits to a nested reader *)")
    o.append("Definition base64_token_case_insensitive : bool := true.")
    o.append("Definition nested_reader_inherits_limits : bool := true.")
    return "\n".join(o) + "\n"
