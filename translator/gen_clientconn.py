"""aiohttp client connection reuse decisions -> Generated/ClientConnGen.v   (property C06)

Translated from the source text on every run (fail-closed; anything unrecognised raises):
  * client_proto.ResponseHandler.should_close      the disjunction deciding "do not pool this connection"
  * client_proto.ResponseHandler.is_connected      transport present and not closing
  * client_proto.ResponseHandler.data_received     "no parser yet / upgraded => keep raw bytes in _tail" test,
                                                   and the `message.should_close => self._should_close = True` latch
  * connector.BaseConnector._release               close-instead-of-pool test; pooled at the *right* end (append)
  * connector.BaseConnector._get                   reuse test; pooled connections taken from the *left* end (popleft)
  * client_reqrep.ClientResponse._response_eof     the two early returns (already closed / upgraded)
  * client_reqrep.ConnectionKey + ClientRequest.connection_key   the key is the 7-tuple of these request properties
  * client._connect_and_send_request               failure paths call resp.close() / conn.close() (never release)
  * client_reqrep.ClientResponse.close / release   close -> Connection.close(); release -> _release_connection()
  * connector.Connection.close / release           close passes should_close=True, release does not
Boolean expressions are translated structurally (and/or/not over a fixed table of recognised atoms).
"""
import ast

from . import core
from .core import TranslatorError

OUTPUT = "ClientConnGen.v"
ITEMS = ["should_close_gen", "is_connected_gen", "stash_gen", "msg_close_latches_gen", "release_closes_gen",
         "get_reuses_gen", "response_eof_releases_gen", "key_of_req", "error_paths_close_gen",
         "response_close_release_gen", "connection_close_release_gen"]

PROTO = "aiohttp/client_proto.py"
CONN = "aiohttp/connector.py"
RR = "aiohttp/client_reqrep.py"
CLIENT = "aiohttp/client.py"


def bexpr(n: ast.expr, atoms: dict[str, str], what: str) -> str:
    """and/or/not over recognised atoms (matched on their unparsed text) -> Coq bool text."""
    if isinstance(n, ast.BoolOp):
        op = " && " if isinstance(n.op, ast.And) else " || "
        return "(" + op.join(bexpr(v, atoms, what) for v in n.values) + ")"
    if isinstance(n, ast.UnaryOp) and isinstance(n.op, ast.Not):
        return f"(negb {bexpr(n.operand, atoms, what)})"
    txt = ast.unparse(n)
    if txt in atoms:
        return atoms[txt]
    raise TranslatorError(f"{what}: unrecognised condition `{txt}`")


def _single_return(fn, what):
    body = [s for s in fn.body if not (isinstance(s, ast.Expr) and isinstance(s.value, ast.Constant))]
    if len(body) != 1 or not isinstance(body[0], ast.Return) or body[0].value is None:
        raise TranslatorError(f"{what}: expected a single return statement")
    return body[0].value


def gen_should_close() -> str:
    fn = core.find_function(PROTO, "should_close", cls="ResponseHandler")
    v = _single_return(fn, "should_close")
    if isinstance(v, ast.Call) and isinstance(v.func, ast.Name) and v.func.id == "bool" and len(v.args) == 1 and not v.keywords:
        v = v.args[0]
    atoms = {
        "self._should_close": "sc",
        "self._payload is not None": "true_if_payload",      # only valid under the conjunction below
        "self._upgraded": "upg",
        "self._exception is not None": "exc",
        "self._payload_parser is not None": "pparser",
        "self._buffer": "buf",
        "self._tail": "tail",
    }
    # the payload operand is a conjunction translated as one atom `pay_open`
    def tr(n):
        if isinstance(n, ast.BoolOp) and isinstance(n.op, ast.And):
            if [ast.unparse(x) for x in n.values] == ["self._payload is not None", "not self._payload.is_eof()"]:
                return "pay_open"
            if [ast.unparse(x) for x in n.values] == ["self._parser is not None", "self._parser.has_unparsed_data()"]:
                # http_parser.HttpParser.has_unparsed_data must be exactly `bool(self._tail or self._lines)`
                hf = core.find_function("aiohttp/http_parser.py", "has_unparsed_data", cls="HttpParser")
                hb = [st for st in hf.body if not (isinstance(st, ast.Expr) and isinstance(st.value, ast.Constant))]
                if len(hb) != 1 or not isinstance(hb[0], ast.Return) or ast.unparse(hb[0].value) != "bool(self._tail or self._lines)":
                    raise TranslatorError("has_unparsed_data: expected `return bool(self._tail or self._lines)`")
                return "pleft"
            raise TranslatorError(f"should_close: unrecognised conjunction `{ast.unparse(n)}`")
        if isinstance(n, ast.BoolOp) and isinstance(n.op, ast.Or):
            return "(" + " || ".join(tr(x) for x in n.values) + ")"
        t = ast.unparse(n)
        if t in atoms and t != "self._payload is not None":
            return atoms[t]
        raise TranslatorError(f"should_close: unrecognised operand `{t}`")
    return ("(* client_proto.ResponseHandler.should_close; pay_open = _payload is not None and not _payload.is_eof();\n"
            "   pparser = a WebSocket payload parser is installed; buf/tail = _buffer/_tail non-empty;\n"
            "   pleft = the HTTP parser exists and buffers an incomplete line / head block (_tail or _lines) *)\n"
            f"Definition should_close_gen (sc pay_open upg exc pparser buf tail pleft : bool) : bool :=\n  {tr(v)}.\n")


def gen_is_connected() -> str:
    fn = core.find_function(PROTO, "is_connected", cls="ResponseHandler")
    v = _single_return(fn, "is_connected")
    e = bexpr(v, {"self.transport is not None": "has_transport", "self.transport.is_closing()": "closing"}, "is_connected")
    return f"Definition is_connected_gen (has_transport closing : bool) : bool :=\n  {e}.\n"


def gen_data_received() -> str:
    fn = core.find_function(PROTO, "data_received", cls="ResponseHandler")
    stash = None
    latch = False
    for n in ast.walk(fn):
        if isinstance(n, ast.If):
            body = [ast.unparse(s) for s in n.body]
            if body[:1] == ["self._tail += data"]:
                if body != ["self._tail += data", "return"] or n.orelse:
                    raise TranslatorError("data_received: raw-tail branch has an unexpected body")
                if stash is not None:
                    raise TranslatorError("data_received: two raw-tail branches")
                stash = bexpr(n.test, {"self._upgraded": "upg", "self._parser is None": "noparser"}, "data_received")
            if ast.unparse(n.test) == "message.should_close":
                if body != ["self._should_close = True"] or n.orelse:
                    raise TranslatorError("data_received: message.should_close branch has an unexpected body")
                latch = True
    if stash is None:
        raise TranslatorError("data_received: raw-tail branch not found")
    if not latch:
        raise TranslatorError("data_received: `if message.should_close: self._should_close = True` not found")
    return ("(* data_received: bytes are kept raw in _tail when there is no parser yet or after an upgrade *)\n"
            f"Definition stash_gen (upg noparser : bool) : bool :=\n  {stash}.\n\n"
            "(* data_received: a message announcing `Connection: close` latches _should_close *)\n"
            "Definition msg_close_latches_gen : bool := true.\n")


def gen_release() -> str:
    fn = core.find_function(CONN, "_release", cls="BaseConnector")
    args = [a.arg for a in fn.args.args] + [a.arg for a in fn.args.kwonlyargs]
    if args != ["self", "key", "protocol", "should_close"]:
        raise TranslatorError(f"_release arguments {args}")
    stmts = [s for s in fn.body if not (isinstance(s, ast.Expr) and isinstance(s.value, ast.Constant))]
    texts = [ast.unparse(s).split("\n")[0] for s in stmts]
    if len(stmts) < 4 or texts[0] != "if self._closed:" or texts[1] != "self._release_acquired(key, protocol)" \
            or not isinstance(stmts[2], ast.If):
        raise TranslatorError(f"_release: unexpected statement sequence {texts}")
    iff = stmts[2]
    cond = bexpr(iff.test, {"self._force_close": "force", "should_close": "arg", "protocol.should_close": "psc"}, "_release")
    body = [ast.unparse(s) for s in iff.body]
    if "protocol.close()" not in body or body[-1] != "return" or iff.orelse:
        raise TranslatorError("_release: closing branch must call protocol.close() and return")
    if ast.unparse(stmts[3]) != "self._conns[key].append((protocol, monotonic()))":
        raise TranslatorError(f"_release: pooling statement is `{ast.unparse(stmts[3])}`")
    return ("(* connector.BaseConnector._release: close instead of pooling; pooled at the right end of _conns[key] *)\n"
            f"Definition release_closes_gen (force arg psc : bool) : bool :=\n  {cond}.\n")


def gen_get() -> str:
    fn = core.find_function(CONN, "_get", cls="BaseConnector")
    loops = [n for n in ast.walk(fn) if isinstance(n, ast.While)]
    if len(loops) != 1 or ast.unparse(loops[0].test) != "conns":
        raise TranslatorError("_get: expected one `while conns:` loop")
    body = loops[0].body
    if ast.unparse(body[0]).replace("(proto, t0)", "proto, t0") != "proto, t0 = conns.popleft()":
        raise TranslatorError(f"_get: first loop statement is `{ast.unparse(body[0])}`")
    if not isinstance(body[1], ast.If) or body[1].orelse:
        raise TranslatorError("_get: reuse test not found")
    t = body[1].test
    if not (isinstance(t, ast.BoolOp) and isinstance(t.op, ast.And)):
        raise TranslatorError(f"_get: reuse test is `{ast.unparse(t)}`")
    parts = []
    for v in t.values:
        txt = ast.unparse(v)
        if txt == "proto.is_connected()":
            parts.append("connected")
        elif txt == "not proto.should_close":
            parts.append("(negb psc)")
        elif txt == "proto.is_reusable()":
            # ResponseHandler.is_reusable must be exactly `self.is_connected() and not self.should_close`
            rf = core.find_function(PROTO, "is_reusable", cls="ResponseHandler")
            rbody = [st for st in rf.body if not (isinstance(st, ast.Expr) and isinstance(st.value, ast.Constant))]
            if len(rbody) != 1 or not isinstance(rbody[0], ast.Return) or \
                    ast.unparse(rbody[0].value).replace("(", "").replace(")", "") != "self.is_connected and not self.should_close":
                raise TranslatorError("is_reusable: expected `return self.is_connected() and not self.should_close`")
            parts.append("(negb psc)")
        elif isinstance(v, ast.Compare) and len(v.ops) == 1 and ast.unparse(v.left) == "t1 - t0" \
                and ast.unparse(v.comparators[0]) == "self._keepalive_timeout":
            op = {ast.LtE: "(age <=? keepalive)%Z", ast.Lt: "(age <? keepalive)%Z"}.get(type(v.ops[0]))
            if op is None:
                raise TranslatorError(f"_get: age comparison `{txt}`")
            parts.append(op)
        else:
            raise TranslatorError(f"_get: unrecognised reuse condition `{txt}`")
    rest = [ast.unparse(s) for s in body[2:]]
    if "proto.close()" not in rest:
        raise TranslatorError("_get: a connection that is not reused must be closed")
    t1 = [ast.unparse(s) for s in fn.body if isinstance(s, ast.Assign)]
    if "t1 = monotonic()" not in t1:
        raise TranslatorError("_get: t1 = monotonic() not found")
    return ("(* connector.BaseConnector._get: the pooled connection taken from the left end is reused iff ...;\n"
            "   psc = protocol.should_close (absent from the unchanged code) *)\n"
            f"Definition get_reuses_gen (connected psc : bool) (age keepalive : Z) : bool :=\n  {' && '.join(parts)}.\n")


def gen_response_eof() -> str:
    fn = core.find_function(RR, "_response_eof", cls="ClientResponse")
    stmts = [s for s in fn.body if not (isinstance(s, ast.Expr) and isinstance(s.value, ast.Constant))]
    texts = [ast.unparse(s) for s in stmts]
    want = ["if self._closed:\n    return",
            "protocol = self._connection and self._connection.protocol",
            "if protocol is not None and protocol.upgraded:\n    return",
            "self._closed = True", "self._cleanup_writer()", "self._release_connection()"]
    if texts != want:
        raise TranslatorError(f"_response_eof: unexpected body {texts}")
    rc = core.find_function(RR, "_release_connection", cls="ClientResponse")
    rtxt = ast.unparse(rc)
    if "self._connection.release()" not in rtxt or "self._connection.close()" in rtxt:
        raise TranslatorError("_release_connection must release (not close) the connection")
    return ("(* client_reqrep.ClientResponse._response_eof: releases unless already closed or the protocol is upgraded *)\n"
            "Definition response_eof_releases_gen (closed upgraded : bool) : bool :=\n  (negb closed) && (negb upgraded).\n")


KEY_FIELDS = ["host", "port", "is_ssl", "ssl", "proxy", "proxy_headers_hash", "server_hostname"]
KEY_SOURCES = {
    "url.raw_host or ''": "rq_host",
    "url.port": "rq_port",
    "url.scheme in _SSL_SCHEMES": "rq_is_ssl",
    "self._ssl": "rq_ssl",
    "self.proxy": "rq_proxy",
    "h": "rq_phh",
    "self.server_hostname": "rq_sni",
}


def gen_key() -> str:
    mod = core.module(RR)
    cls = [n for n in mod.body if isinstance(n, ast.ClassDef) and n.name == "ConnectionKey"]
    if len(cls) != 1:
        raise TranslatorError("ConnectionKey not found")
    fields = [s.target.id for s in cls[0].body if isinstance(s, ast.AnnAssign) and isinstance(s.target, ast.Name)]
    if fields != KEY_FIELDS:
        raise TranslatorError(f"ConnectionKey fields are {fields}")
    bases = [ast.unparse(b) for b in cls[0].bases]
    if bases != ["NamedTuple"]:
        raise TranslatorError(f"ConnectionKey bases {bases}")
    for s in cls[0].body:
        if isinstance(s, ast.FunctionDef):
            raise TranslatorError(f"ConnectionKey defines method {s.name} (equality/hash may be overridden)")
    fn = core.find_function(RR, "connection_key", cls="ClientRequest")
    stmts = [s for s in fn.body if not (isinstance(s, ast.Expr) and isinstance(s.value, ast.Constant))]
    texts = [ast.unparse(s) for s in stmts]
    if texts[:2] != ["if (proxy_headers := self.proxy_headers):\n    h: int | None = hash(tuple(proxy_headers.items()))\nelse:\n    h = None",
                     "url = self.url"]:
        raise TranslatorError(f"ClientRequest.connection_key: unexpected prologue {texts[:2]}")
    ret = stmts[2] if len(stmts) == 3 else None
    if not isinstance(ret, ast.Return) or not isinstance(ret.value, ast.Call) or ast.unparse(ret.value.func) != "tuple.__new__" \
            or len(ret.value.args) != 2 or ast.unparse(ret.value.args[0]) != "ConnectionKey" or not isinstance(ret.value.args[1], ast.Tuple):
        raise TranslatorError("ClientRequest.connection_key: expected `return tuple.__new__(ConnectionKey, (...))`")
    elems = [ast.unparse(e) for e in ret.value.args[1].elts]
    comps = []
    for i, e in enumerate(elems):
        if e not in KEY_SOURCES:
            raise TranslatorError(f"connection_key: element {i} is `{e}`")
        comps.append(KEY_SOURCES[e])
    if len(comps) != len(KEY_FIELDS):
        raise TranslatorError(f"connection_key builds {len(comps)} elements for {len(KEY_FIELDS)} fields")
    # _conns must be keyed by the whole key
    cfn = core.find_function(CONN, "connect", cls="BaseConnector")
    if "key = req.connection_key" not in [ast.unparse(s) for s in cfn.body]:
        raise TranslatorError("connect(): key = req.connection_key not found")
    gfn = core.find_function(CONN, "_get", cls="BaseConnector")
    if "self._conns.get(key)" not in ast.unparse(gfn):
        raise TranslatorError("_get(): pool lookup is not self._conns.get(key)")
    return ("(* the seven request properties a connection is pooled under (client_reqrep.ConnectionKey), each abstracted\n"
            "   to a code chosen by the harness from the request's own parameters *)\n"
            "Record reqp := { rq_host : N; rq_port : N; rq_is_ssl : N; rq_ssl : N; rq_proxy : N; rq_phh : N; rq_sni : N }.\n\n"
            "(* client_reqrep.ClientRequest.connection_key, in tuple order *)\n"
            f"Definition key_of_req (r : reqp) : list N :=\n  [{'; '.join(c + ' r' for c in comps)}].\n")


def gen_error_paths() -> str:
    fn = core.find_function(CLIENT, "_connect_and_send_request")
    txt = ast.unparse(fn)
    want_tail = ("conn.protocol.set_response_params(**req._response_params)\n"
                 "    try:\n        resp = await req._send(conn)\n        try:\n            await resp.start(conn)\n"
                 "        except BaseException:\n            resp.close()\n            raise\n"
                 "    except BaseException:\n        conn.close()\n        raise\n    return resp")
    if want_tail not in txt:
        raise TranslatorError("_connect_and_send_request: failure paths are not `resp.close()` / `conn.close()`")
    out = ("(* client._connect_and_send_request: set_response_params, send, start; any failure closes response and connection *)\n"
           "Definition error_paths_close_gen : bool := true.\n\n")
    cl = ast.unparse(core.find_function(RR, "close", cls="ClientResponse"))
    rl = ast.unparse(core.find_function(RR, "release", cls="ClientResponse"))
    if "self._connection.close()" not in cl or "_release_connection" in cl or ".release()" in cl:
        raise TranslatorError("ClientResponse.close must close its connection")
    if "self._release_connection()" not in rl or "self._connection.close()" in rl:
        raise TranslatorError("ClientResponse.release must call _release_connection")
    rd = ast.unparse(core.find_function(RR, "read", cls="ClientResponse"))
    if "except BaseException:\n            self.close()\n            raise" not in rd:
        raise TranslatorError("ClientResponse.read: a failed body read must close the response")
    out += ("(* ClientResponse.close -> Connection.close(); ClientResponse.release -> _release_connection(); a failed read() closes *)\n"
            "Definition response_close_release_gen : bool := true.\n\n")
    cc = ast.unparse(core.find_function(CONN, "close", cls="Connection"))
    cr = ast.unparse(core.find_function(CONN, "release", cls="Connection"))
    if "self._connector._release(self._key, self._protocol, should_close=True)" not in cc:
        raise TranslatorError("Connection.close must pass should_close=True")
    if "self._connector._release(self._key, self._protocol)" not in cr or "should_close" in cr:
        raise TranslatorError("Connection.release must call _release without should_close")
    out += ("(* connector.Connection.close passes should_close=True to _release, Connection.release does not *)\n"
            "Definition connection_close_release_gen : bool := true.\n")
    return out


def generate() -> str:
    return "\n".join([gen_should_close(), gen_is_connected(), gen_data_received(), gen_release(), gen_get(),
                      gen_response_eof(), gen_key(), gen_error_paths()])
