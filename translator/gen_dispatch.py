"""aiohttp/web_urldispatcher.py, web_middlewares.py -> Generated/DispatchGen.v  (property C14)

Data-like parts only: the default hole class (DynamicResource.GOOD), the identifier classes of
DynamicResource.DYN, the replacement table of _unquote_path_safe, the characters used by
UrlDispatcher._get_resource_index_key (with an ast shape check of the formula), the requote
post-processing of _requote_path, and the slash-merging regexes of normalize_path_middleware.
Fail-closed: any unrecognised shape raises TranslatorError.
"""
import ast
import re
import re._parser as sre_parse  # type: ignore
import re._constants as sre_c  # type: ignore

from . import core
from .core import TranslatorError

OUTPUT = "DispatchGen.v"
ITEMS = ["good_char (DynamicResource.GOOD)", "dyn_name_start/dyn_name_char (DynamicResource.DYN)",
         "DYN_WITH_RE / ROUTE_RE text", "unquote_table (_unquote_path_safe)", "requote fixup (_requote_path)",
         "index key formula (_get_resource_index_key)", "ancestor walk step (UrlDispatcher.resolve)",
         "slash merging regexes (normalize_path_middleware)",
         "repaired shapes (_path_safe, _set_match_prefix, _add_prefix_to_resources, _merge_allowed and its call, pattern literal)"]

F = "aiohttp/web_urldispatcher.py"


def _strip_doc(fn):
    fn = ast.parse(ast.unparse(fn)).body[0]
    fn.returns = None
    fn.decorator_list = []
    for a in fn.args.args:
        a.annotation = None
    if fn.body and isinstance(fn.body[0], ast.Expr) and isinstance(fn.body[0].value, ast.Constant) and isinstance(fn.body[0].value.value, str):
        fn.body = fn.body[1:]
    return fn


def _dump(fn):
    return ast.dump(_strip_doc(fn), annotate_fields=False)


def _same_shape(relpath, name, cls, expected_src):
    fn = core.find_function(relpath, name, cls=cls)
    exp = ast.parse(expected_src).body[0]
    if _dump(fn) != _dump(exp):
        raise TranslatorError(f"{cls or ''}.{name} differs from the shape the model transcribes:\n" + ast.unparse(fn))


def _class_of(items, what):
    neg, rngs = core._class_items(items, re.ASCII, False)
    if neg:
        raise TranslatorError(f"{what}: negated class not expected")
    return {"neg": False, "ranges": sorted(set(rngs)), "quant": "one"}


def _dyn_classes():
    node = core.find_assign(F, "DYN", cls="DynamicResource")
    pat, flags, _ = core.regex_source(node)
    p = list(sre_parse.parse(pat, flags))
    # LITERAL '{', SUBPATTERN(var: IN, MAX_REPEAT(0..inf, IN)), LITERAL '}'
    ok = (len(p) == 3 and p[0] == (sre_c.LITERAL, 123) and p[2] == (sre_c.LITERAL, 125) and p[1][0] is sre_c.SUBPATTERN)
    if not ok:
        raise TranslatorError(f"DynamicResource.DYN: unexpected structure {p}")
    sub = list(p[1][1][3])
    if not (len(sub) == 2 and sub[0][0] is sre_c.IN and sub[1][0] is sre_c.MAX_REPEAT):
        raise TranslatorError(f"DynamicResource.DYN: unexpected group body {sub}")
    lo, hi, body = sub[1][1]
    body = list(body)
    if not (lo == 0 and hi is sre_c.MAXREPEAT and len(body) == 1 and body[0][0] is sre_c.IN):
        raise TranslatorError("DynamicResource.DYN: identifier tail must be CLASS*")
    modes = core.call_modes(F, "DYN")
    if modes != ["fullmatch"]:
        raise TranslatorError(f"DynamicResource.DYN used with {modes}, expected fullmatch")
    return _class_of(sub[0][1], "DYN start"), _class_of(body[0][1], "DYN tail"), pat


def _unquote_table():
    fn = core.find_function(F, "_unquote_path_safe")
    body = [s for s in fn.body if not (isinstance(s, ast.Expr) and isinstance(s.value, ast.Constant))]
    arg = fn.args.args[0].arg
    # if "%" not in value: return value ; return value.replace(a, b).replace(c, d)...
    if len(body) != 2 or not isinstance(body[0], ast.If) or not isinstance(body[1], ast.Return):
        raise TranslatorError("_unquote_path_safe: unexpected statement shape")
    t = body[0].test
    if not (isinstance(t, ast.Compare) and isinstance(t.ops[0], ast.NotIn) and isinstance(t.left, ast.Constant)
            and isinstance(t.comparators[0], ast.Name) and t.comparators[0].id == arg
            and len(body[0].body) == 1 and isinstance(body[0].body[0], ast.Return)
            and isinstance(body[0].body[0].value, ast.Name) and body[0].body[0].value.id == arg):
        raise TranslatorError("_unquote_path_safe: guard is not `if <c> not in value: return value`")
    guard = t.left.value
    table = []
    e = body[1].value
    while isinstance(e, ast.Call):
        if not (isinstance(e.func, ast.Attribute) and e.func.attr == "replace" and len(e.args) == 2 and not e.keywords):
            raise TranslatorError("_unquote_path_safe: expected a chain of .replace(a, b)")
        a, b = core.literal(e.args[0]), core.literal(e.args[1])
        if not (isinstance(a, str) and isinstance(b, str) and a):
            raise TranslatorError("_unquote_path_safe: replace arguments must be non-empty string literals")
        table.append((a, b))
        e = e.func.value
    if not (isinstance(e, ast.Name) and e.id == arg):
        raise TranslatorError("_unquote_path_safe: replace chain must start at the argument")
    table.reverse()
    for a, _b in table:
        if guard not in a:
            raise TranslatorError("_unquote_path_safe: guard character does not occur in every pattern (the early return would change behaviour)")
    return table


_EXPECTED_REQUOTE = '''
def _requote_path(value):
    result = _quote_path(value)
    if "%" in value:
        result = result.replace("%25", "%")
    return result
'''

_EXPECTED_QUOTE = '''
def _quote_path(value):
    return URL.build(path=value, encoded=False).raw_path
'''

_EXPECTED_KEY = '''
def _get_resource_index_key(self, resource):
    if "{" in (index_key := resource.canonical):
        index_key = index_key.partition("{")[0].rpartition("/")[0]
    index_key = index_key.rstrip("/")
    if not isinstance(resource, PlainResource):
        index_key = _path_safe(index_key)
    return index_key or "/"
'''

_EXPECTED_PATH_SAFE = '''
def _path_safe(value):
    return URL.build(path=value, encoded=True).path_safe
'''

_EXPECTED_SET_MATCH_PREFIX = '''
def _set_match_prefix(self):
    self._prefix_safe = _path_safe(self._prefix)
    self._prefix2 = self._prefix_safe + "/"
'''

_EXPECTED_ADD_PREFIX_TO_RESOURCES = '''
def _add_prefix_to_resources(self, prefix):
    router = self._app.router
    for resource in router.resources():
        indexed = not isinstance(resource, MatchedSubAppResource)
        if indexed:
            router.unindex_resource(resource)
        resource.add_prefix(prefix)
        if indexed:
            router.index_resource(resource)
'''

_EXPECTED_MERGE = '''
def _merge_allowed(request, match_info, allowed_methods):
    exc = match_info.http_exception
    if isinstance(exc, HTTPMethodNotAllowed):
        allowed_methods = allowed_methods | exc.allowed_methods
        if allowed_methods == exc.allowed_methods:
            return match_info
    elif not isinstance(exc, HTTPNotFound):
        return match_info
    merged = MatchInfoError(HTTPMethodNotAllowed(request.method, allowed_methods))
    for app in reversed(match_info.apps):
        merged.add_app(app)
    return merged
'''

_EXPECTED_INDEX = '''
def index_resource(self, resource):
    resource_key = self._get_resource_index_key(resource)
    self._resource_index.setdefault(resource_key, []).append(resource)
'''

_EXPECTED_UNINDEX = '''
def unindex_resource(self, resource):
    resource_key = self._get_resource_index_key(resource)
    self._resource_index[resource_key].remove(resource)
'''


def _walk_step():
    """In UrlDispatcher.resolve: `url_part = url_part.rpartition("/")[0] or "/"` and `if url_part == "/": break`."""
    fn = core.find_function(F, "resolve", cls="UrlDispatcher")
    want = ast.dump(ast.parse('url_part = url_part.rpartition("/")[0] or "/"').body[0], annotate_fields=False)
    hits = [n for n in ast.walk(fn) if isinstance(n, ast.Assign) and ast.dump(ast.parse(ast.unparse(n)).body[0], annotate_fields=False) == want]
    if len(hits) != 1:
        raise TranslatorError("UrlDispatcher.resolve: the step `url_part = url_part.rpartition(\"/\")[0] or \"/\"` was not found exactly once")
    start = [n for n in ast.walk(fn) if isinstance(n, ast.Assign) and len(n.targets) == 1 and isinstance(n.targets[0], ast.Name)
             and n.targets[0].id == "url_part" and n not in hits]
    if len(start) != 1 or ast.unparse(start[0].value) != "request.rel_url.path_safe":
        raise TranslatorError("UrlDispatcher.resolve: the walk must start at request.rel_url.path_safe")


def _count_stmt(fn, src):
    want = ast.dump(ast.parse(src).body[0], annotate_fields=False)
    return sum(1 for n in ast.walk(fn) if isinstance(n, ast.stmt)
               and ast.dump(ast.parse(ast.unparse(n)).body[0], annotate_fields=False) == want)


def _repaired_shapes():
    """Shapes introduced by the repairs 94230c1 / 2ef822d / 70456c5 that the model transcribes."""
    _same_shape(F, "_path_safe", None, _EXPECTED_PATH_SAFE)
    _same_shape(F, "_set_match_prefix", "PrefixResource", _EXPECTED_SET_MATCH_PREFIX)
    _same_shape(F, "_add_prefix_to_resources", "PrefixedSubAppResource", _EXPECTED_ADD_PREFIX_TO_RESOURCES)
    _same_shape(F, "_merge_allowed", "UrlDispatcher", _EXPECTED_MERGE)
    init = core.find_function(F, "__init__", cls="DynamicResource")
    if _count_stmt(init, "pattern += re.escape(_path_safe(part))") != 1 or _count_stmt(init, "formatter += part") != 1 \
            or _count_stmt(init, "part = _requote_path(part)") != 1:
        raise TranslatorError("DynamicResource.__init__: literal parts must be requoted for the formatter and matched in their path_safe form")
    res = core.find_function(F, "resolve", cls="UrlDispatcher")
    call = """
if allowed_methods and match_dict.http_exception is not None:
    return self._merge_allowed(request, match_dict, allowed_methods)
"""
    if _count_stmt(res, call) != 1:
        raise TranslatorError("UrlDispatcher.resolve: the merge of collected allowed methods into a sub-application's 404/405 was not found exactly once")
    st = core.find_function(F, "resolve", cls="StaticResource")
    if _count_stmt(st, "if not norm_path.startswith(self._prefix2) and norm_path != self._prefix_safe:\n    return None, set()") != 1:
        raise TranslatorError("StaticResource.resolve: prefix test is not on the path_safe form")
    if "path[len(self._prefix_safe) + 1:]" not in ast.unparse(st):
        raise TranslatorError("StaticResource.resolve: filename is not cut after the path_safe prefix")
    ap = core.find_function(F, "add_prefix", cls="DynamicResource")
    if _count_stmt(ap, "self._pattern = re.compile(re.escape(prefix) + self._pattern.pattern)") != 1 \
            or _count_stmt(ap, "self._formatter = prefix + self._formatter") != 1:
        raise TranslatorError("DynamicResource.add_prefix: unexpected shape")


def _middleware_regexes():
    fn = core.find_function("aiohttp/web_middlewares.py", "normalize_path_middleware")
    subs = []
    for n in ast.walk(fn):
        if isinstance(n, ast.Call) and isinstance(n.func, ast.Attribute) and n.func.attr == "sub" and isinstance(n.func.value, ast.Name) and n.func.value.id == "re":
            if len(n.args) != 3:
                raise TranslatorError("normalize_path_middleware: re.sub with unexpected arity")
            subs.append((core.literal(n.args[0]), core.literal(n.args[1])))
    pats = sorted(set(subs))
    if pats != [("//+", "/"), ("^//+", "/")]:
        raise TranslatorError(f"normalize_path_middleware: re.sub patterns are {pats}, expected '//+' and '^//+' replaced by '/'")
    if subs.count(("^//+", "/")) != 1:
        raise TranslatorError("normalize_path_middleware: the leading-slash sanitiser must occur exactly once")
    # `//+`: LITERAL '/', MAX_REPEAT(1, inf, LITERAL '/')
    p = list(sre_parse.parse("//+"))
    if not (len(p) == 2 and p[0] == (sre_c.LITERAL, 47) and p[1][0] is sre_c.MAX_REPEAT and p[1][1][0] == 1):
        raise TranslatorError("unexpected parse of '//+'")
    # the sanitiser must be applied to the candidate right before it is resolved
    src = ast.unparse(fn)
    i = src.find("re.sub('^//+', '/', path)")
    j = src.find("_check_request_resolves(request, path)")
    if i < 0 or j < 0 or j < i:
        raise TranslatorError("normalize_path_middleware: sanitiser is not applied before _check_request_resolves")
    return len(subs)


def generate() -> str:
    out = []
    good = core.literal(core.find_assign(F, "GOOD", cls="DynamicResource"))
    cc = core.charclass(good, 0)
    if cc["quant"] != "plus":
        raise TranslatorError("DynamicResource.GOOD: expected CLASS+")
    out.append(core.charclass_coq("good_char", cc, "DynamicResource.GOOD (one or more of this class)"))
    c1, c2, pat = _dyn_classes()
    out.append(core.charclass_coq("dyn_name_start", c1, "DynamicResource.DYN: first character of a variable name"))
    out.append(core.charclass_coq("dyn_name_char", c2, "following characters of a variable name"))
    pat2, fl2, _ = core.regex_source(core.find_assign(F, "DYN_WITH_RE", cls="DynamicResource"))
    if pat2 != r"\{(?P<var>[_a-zA-Z][_a-zA-Z0-9]*):(?P<re>.+)\}" or fl2:
        raise TranslatorError(f"DynamicResource.DYN_WITH_RE changed: {pat2!r}")
    if core.call_modes(F, "DYN_WITH_RE") != ["fullmatch"]:
        raise TranslatorError("DYN_WITH_RE must be used with fullmatch")
    node = core.find_assign(F, "ROUTE_RE")
    pat3, fl3, _ = core.regex_source(node)
    if pat3 != r"(\{[_a-zA-Z][^{}]*(?:\{[^{}]*\}[^{}]*)*\})" or fl3:
        raise TranslatorError(f"ROUTE_RE changed: {pat3!r}")
    table = _unquote_table()
    rows = "; ".join(f"({core.coq_bytes(a)}, {core.coq_bytes(b)})" for a, b in table)
    out.append(f"(* _unquote_path_safe: successive str.replace calls, in this order *)\nDefinition unquote_table : list (list N * list N) := [{rows}].\n")
    _same_shape(F, "_requote_path", None, _EXPECTED_REQUOTE)
    _same_shape(F, "_quote_path", None, _EXPECTED_QUOTE)
    out.append("(* _requote_path: after quoting, \"%25\" is turned back into \"%\" when the input contained \"%\" *)\n"
               "Definition requote_fix : list N * list N := ([37; 50; 53], [37]).\n")
    _same_shape(F, "_get_resource_index_key", "UrlDispatcher", _EXPECTED_KEY)
    _same_shape(F, "index_resource", "UrlDispatcher", _EXPECTED_INDEX)
    _same_shape(F, "unindex_resource", "UrlDispatcher", _EXPECTED_UNINDEX)
    out.append("(* _get_resource_index_key: canonical.partition(ik_brace)[0].rpartition(ik_sep)[0] when ik_brace occurs;\n"
               "   then .rstrip(ik_sep), its _path_safe form unless the resource is a PlainResource, or ik_sep *)\n"
               "Definition ik_brace : N := 123.\nDefinition ik_sep : N := 47.\n")
    _walk_step()
    _repaired_shapes()
    n = _middleware_regexes()
    out.append(f"(* normalize_path_middleware: {n} re.sub calls; runs of merge_min_run or more '/' become one '/' *)\n"
               "Definition merge_min_run : N := 2.\n")
    return "\n".join(out)
