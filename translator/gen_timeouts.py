"""Client timeout arithmetic and wiring -> Generated/TimeoutsGen.v

Read from the source text on every run (fail-closed; anything outside the recognised fragment raises
TranslatorError).  Times are integers counted in ticks of 1/u second (u > 0 is a parameter of every
formula), so `math.ceil(when)` becomes `ceil_to u when` (the least multiple of u that is >= when).

  helpers.TimeoutHandle.start         total_enabled (guard)  total_when (now + t, ceiled when t >= thr)
  helpers.TimeoutHandle.timer         same guard as start (a TimerContext exists iff a handle is armed)
  helpers.ceil_timeout                ctx_enabled (guard)    ctx_when  (now + t, ceiled when t > thr)
  helpers.TimerContext.timeout/__enter__/__exit__   shape: cancel every task inside, latch `_cancelled`,
                                      raise TimeoutError on entry when latched, turn the CancelledError into
                                      TimeoutError on exit when latched
  client_proto.ResponseHandler._reschedule_timeout   read_enabled (truthiness) read_when (call_later: now + t)
  client_proto.ResponseHandler: pause_reading drops the timer, resume_reading re-arms it only when it was
                                      paused, data_received re-arms only for non-empty data, _on_read_timeout
                                      sets the exception on protocol and payload            (shape checks)
  client_reqrep.ClientTimeout.__post_init__          effective_total (raised to the largest specific timeout)
  wiring: which ClientTimeout field feeds which timer: client.ClientSession._request (TimeoutHandle(total),
          read_timeout=sock_read), connector.BaseConnector.connect (ceil_timeout(connect) around waiting for a
          slot and creating the connection, but not around the first pool lookup),
          connector.TCPConnector._wrap_create_connection (ceil_timeout(sock_connect)),
          client._connect_and_send_request (close-not-release on failure).
  connector.BaseConnector._available_connections and its three call-site comparisons (the statement translator
          of translator/gen_pool.py is reused, so that the C18 closure does not depend on Generated/PoolGen.v)
"""
import ast

from . import core
from . import gen_pool
from .core import TranslatorError

OUTPUT = "TimeoutsGen.v"
ITEMS = ["ceil_to", "total_enabled", "total_when", "timer_guard_same_as_start", "TimerContext shape",
         "ctx_enabled", "ctx_when", "read_enabled", "read_when", "read timer pause/resume/data shape",
         "effective_total", "wiring:_request", "wiring:connect", "wiring:_wrap_create_connection",
         "wiring:_connect_and_send_request", "available_connections", "connect_must_wait", "wait_slot_found",
         "release_skips_key"]

H = "aiohttp/helpers.py"
P = "aiohttp/client_proto.py"
R = "aiohttp/client_reqrep.py"
C = "aiohttp/client.py"
K = "aiohttp/connector.py"


def _body(fn):
    """Statements of a function without its docstring."""
    b = list(fn.body)
    if b and isinstance(b[0], ast.Expr) and isinstance(b[0].value, ast.Constant) and isinstance(b[0].value.value, str):
        b = b[1:]
    return b


def _u(n):
    return ast.unparse(n)


# ---- guards over one optional number --------------------------------------------------------------

class _Err:
    pass


def _guard(node, var: str):
    """Evaluate a guard over the optional number `var`.
    Returns (value when var is None : bool, Coq bool text over t when var is Some t)."""
    def ev(n, none):
        # -> python bool / _Err (none branch) or Coq text (some branch)
        if isinstance(n, ast.BoolOp):
            vals = [ev(v, none) for v in n.values]
            if none:
                acc = None
                for v in vals:
                    if isinstance(v, _Err):
                        if acc is None:
                            return v
                        # short-circuit decides whether the erroring operand is reached
                        return v
                    if isinstance(n.op, ast.And) and v is False:
                        return False
                    if isinstance(n.op, ast.Or) and v is True:
                        return True
                    acc = v
                return acc
            op = " && " if isinstance(n.op, ast.And) else " || "
            return "(" + op.join(vals) + ")"
        if isinstance(n, ast.UnaryOp) and isinstance(n.op, ast.Not):
            v = ev(n.operand, none)
            if none:
                return v if isinstance(v, _Err) else (not v)
            return f"(negb {v})"
        if isinstance(n, ast.Compare) and len(n.ops) == 1 and _u(n.left) == var:
            op, rhs = n.ops[0], n.comparators[0]
            if isinstance(rhs, ast.Constant) and rhs.value is None:
                if isinstance(op, ast.Is):
                    return True if none else "false"
                if isinstance(op, ast.IsNot):
                    return False if none else "true"
            if isinstance(rhs, ast.Constant) and isinstance(rhs.value, int) and not isinstance(rhs.value, bool):
                if none:
                    return _Err()          # None <op> int raises TypeError
                c = rhs.value
                tbl = {ast.Gt: f"({c} <? t)", ast.GtE: f"({c} <=? t)", ast.Lt: f"(t <? {c})", ast.LtE: f"(t <=? {c})",
                       ast.Eq: f"(t =? {c})", ast.NotEq: f"(negb (t =? {c}))"}
                if type(op) in tbl:
                    return tbl[type(op)]
        if _u(n) == var:                   # truthiness of an optional number
            return False if none else "(negb (t =? 0))"
        raise TranslatorError(f"guard over {var}: unsupported {_u(n)}")

    none_v = ev(node, True)
    if isinstance(none_v, _Err):
        raise TranslatorError(f"guard {_u(node)} compares None with a number")
    return bool(none_v), ev(node, False)


def _enabled_def(name, none_v, some_txt, comment):
    return (f"(* {comment} *)\n"
            f"Definition {name} (o : option Z) : bool :=\n"
            f"  match o with None => {'true' if none_v else 'false'} | Some t => {some_txt} end.\n")


# ---- `when` computations ---------------------------------------------------------------------------

def _expr(n, env):
    """Expression over now/t/thr/when: names in env, a.time() -> now, ceil(x) -> ceil_to u x, +."""
    if isinstance(n, ast.Name) and n.id in env:
        return env[n.id]
    if isinstance(n, ast.Attribute) and _u(n) in env:
        return env[_u(n)]
    if isinstance(n, ast.Call) and isinstance(n.func, ast.Attribute) and n.func.attr == "time" and not n.args and not n.keywords:
        return "now"
    if isinstance(n, ast.Call) and isinstance(n.func, ast.Name) and n.func.id == "ceil" and len(n.args) == 1 and not n.keywords:
        return f"(ceil_to u {_expr(n.args[0], env)})"
    if isinstance(n, ast.BinOp) and isinstance(n.op, ast.Add):
        return f"({_expr(n.left, env)} + {_expr(n.right, env)})"
    raise TranslatorError(f"time expression: unsupported {_u(n)}")


def _cmp(n, env):
    if not (isinstance(n, ast.Compare) and len(n.ops) == 1):
        raise TranslatorError(f"comparison expected: {_u(n)}")
    a, b = _expr(n.left, env), _expr(n.comparators[0], env)
    tbl = {ast.Gt: f"({b} <? {a})", ast.GtE: f"({b} <=? {a})", ast.Lt: f"({a} <? {b})", ast.LtE: f"({a} <=? {b})"}
    if type(n.ops[0]) not in tbl:
        raise TranslatorError(f"comparison operator in {_u(n)}")
    return tbl[type(n.ops[0])]


def _when_block(stmts, env, sched_names):
    """Straight-line block: `x = e` | `if c: x = e` (x bound) | skipped `loop = asyncio.get_running_loop()` |
    final `return <recv>.<sched>(when, ...)`.  Returns Coq text of the scheduled time."""
    env = dict(env)
    lets = []
    k = 0
    for i, s in enumerate(stmts):
        last = i == len(stmts) - 1
        if isinstance(s, ast.Assign) and len(s.targets) == 1 and isinstance(s.targets[0], ast.Name):
            nm = s.targets[0].id
            if _u(s.value) == "asyncio.get_running_loop()":
                continue
            if isinstance(s.value, ast.Call) and isinstance(s.value.func, ast.Attribute) and s.value.func.attr == "time":
                env[nm] = "now"
                continue
            k += 1
            v = f"{nm}{k}"
            lets.append(f"let {v} := {_expr(s.value, env)} in")
            env[nm] = v
            continue
        if isinstance(s, ast.If) and not s.orelse and len(s.body) == 1 and isinstance(s.body[0], ast.Assign) \
                and len(s.body[0].targets) == 1 and isinstance(s.body[0].targets[0], ast.Name):
            nm = s.body[0].targets[0].id
            if nm not in env:
                raise TranslatorError(f"conditional assignment to unbound {nm}")
            k += 1
            v = f"{nm}{k}"
            lets.append(f"let {v} := if {_cmp(s.test, env)} then {_expr(s.body[0].value, env)} else {env[nm]} in")
            env[nm] = v
            continue
        if last and isinstance(s, ast.Return) and isinstance(s.value, ast.Call) and isinstance(s.value.func, ast.Attribute) \
                and s.value.func.attr in sched_names and s.value.args:
            return "\n  ".join(lets + [_expr(s.value.args[0], env)])
        raise TranslatorError(f"schedule block: unsupported statement {_u(s)[:100]}")
    raise TranslatorError("schedule block: no scheduling return")


# ---- items -------------------------------------------------------------------------------------------

def _gen_total():
    fn = core.find_function(H, "start", cls="TimeoutHandle")
    b = _body(fn)
    if not (len(b) == 2 and _u(b[0]) == "timeout = self._timeout" and isinstance(b[1], ast.If)
            and len(b[1].orelse) == 1 and _u(b[1].orelse[0]) == "return None"):
        raise TranslatorError("TimeoutHandle.start: unexpected shape")
    none_v, some = _guard(b[1].test, "timeout")
    when = _when_block(b[1].body, {"timeout": "t", "self._ceil_threshold": "thr"}, {"call_at"})
    # what is scheduled: self.__call__
    cb = b[1].body[-1].value.args[1]
    if _u(cb) != "self.__call__":
        raise TranslatorError("TimeoutHandle.start schedules " + _u(cb))
    # __call__ runs every registered callback and clears the list
    call = core.find_function(H, "__call__", cls="TimeoutHandle")
    cb_ = _body(call)
    if not (len(cb_) == 2 and isinstance(cb_[0], ast.For) and _u(cb_[0].iter) == "self._callbacks"
            and "cb(*args, **kwargs)" in _u(cb_[0]) and _u(cb_[1]) == "self._callbacks.clear()"):
        raise TranslatorError("TimeoutHandle.__call__: unexpected shape")
    # timer(): same guard; registers timer.timeout
    tm = core.find_function(H, "timer", cls="TimeoutHandle")
    tb = _body(tm)
    if not (len(tb) == 1 and isinstance(tb[0], ast.If)):
        raise TranslatorError("TimeoutHandle.timer: unexpected shape")
    g2 = _guard(tb[0].test, "self._timeout")
    if g2 != (none_v, some):
        raise TranslatorError("TimeoutHandle.timer guard differs from TimeoutHandle.start guard")
    tbody = [_u(s) for s in tb[0].body]
    if tbody != ["timer = TimerContext(self._loop)", "self.register(timer.timeout)", "return timer"] \
            or [_u(s) for s in tb[0].orelse] != ["return TimerNoop()"]:
        raise TranslatorError("TimeoutHandle.timer: body changed")
    return (_enabled_def("total_enabled", none_v, some, "helpers.TimeoutHandle.start / .timer guard")
            + "(* helpers.TimeoutHandle.start: loop.call_at(<this>, self.__call__) *)\n"
            f"Definition total_when (u now t thr : Z) : Z :=\n  {when}.\n")


def _gen_timer_context():
    """Shape of TimerContext: emits nothing but comments; raises when the shape changes."""
    to = [_u(s) for s in _body(core.find_function(H, "timeout", cls="TimerContext"))]
    if to != ["if not self._cancelled:\n    for task in set(self._tasks):\n        task.cancel()\n    self._cancelled = True"]:
        raise TranslatorError("TimerContext.timeout: unexpected shape")
    en = _u(core.find_function(H, "__enter__", cls="TimerContext"))
    if "if self._cancelled:\n        raise asyncio.TimeoutError from None\n    self._tasks.append(task)" not in en:
        raise TranslatorError("TimerContext.__enter__: latched-timeout check or task registration changed")
    ex = _u(core.find_function(H, "__exit__", cls="TimerContext"))
    need = ["enter_task = self._tasks.pop()", "if exc_type is asyncio.CancelledError and self._cancelled:",
            "if enter_task.uncancel() > self._cancelling:\n                return None",
            "raise asyncio.TimeoutError from exc_val"]
    for s in need:
        if s not in ex:
            raise TranslatorError(f"TimerContext.__exit__: expected `{s}`")
    at = _u(core.find_function(H, "assert_timeout", cls="TimerContext"))
    if "if self._cancelled:\n        raise asyncio.TimeoutError from None" not in at:
        raise TranslatorError("TimerContext.assert_timeout changed")
    return "(* helpers.TimerContext: timeout() cancels every task inside and latches; __enter__ raises when latched;\n   __exit__ turns the CancelledError into TimeoutError unless the task was cancelled from outside too *)\n"


def _gen_ctx():
    fn = core.find_function(H, "ceil_timeout")
    args = [a.arg for a in fn.args.args]
    if args != ["delay", "ceil_threshold"]:
        raise TranslatorError(f"ceil_timeout arguments {args}")
    b = _body(fn)
    if not (isinstance(b[0], ast.If) and not b[0].orelse and [_u(s) for s in b[0].body] == ["return async_timeout.timeout(None)"]):
        raise TranslatorError("ceil_timeout: unexpected disabled branch")
    none_d, some_d = _guard(b[0].test, "delay")      # disabled-guard
    when = _when_block(b[1:], {"delay": "t", "ceil_threshold": "thr"}, {"timeout_at"})
    return (_enabled_def("ctx_enabled", not none_d, f"(negb {some_d})", "helpers.ceil_timeout: negation of its `return timeout(None)` guard")
            + "(* helpers.ceil_timeout: async_timeout.timeout_at(<this>) *)\n"
            f"Definition ctx_when (u now t thr : Z) : Z :=\n  {when}.\n")


def _gen_read():
    fn = core.find_function(P, "_reschedule_timeout", cls="ResponseHandler")
    b = _body(fn)
    ok = (len(b) == 3 and _u(b[0]) == "timeout = self._read_timeout"
          and _u(b[1]) == "if self._read_timeout_handle is not None:\n    self._read_timeout_handle.cancel()"
          and isinstance(b[2], ast.If) and len(b[2].body) == 1 and [_u(s) for s in b[2].orelse] == ["self._read_timeout_handle = None"])
    if not ok:
        raise TranslatorError("ResponseHandler._reschedule_timeout: unexpected shape")
    none_v, some = _guard(b[2].test, "timeout")
    s = b[2].body[0]
    if not (isinstance(s, ast.Assign) and _u(s.targets[0]) == "self._read_timeout_handle" and isinstance(s.value, ast.Call)
            and _u(s.value.func) == "self._loop.call_later" and len(s.value.args) == 2
            and _u(s.value.args[0]) == "timeout" and _u(s.value.args[1]) == "self._on_read_timeout"):
        raise TranslatorError("ResponseHandler._reschedule_timeout: scheduling call changed")
    # the surrounding protocol methods
    def src(name):
        return [_u(x) for x in _body(core.find_function(P, name, cls="ResponseHandler"))]
    if src("_drop_timeout") != ["if self._read_timeout_handle is not None:\n    self._read_timeout_handle.cancel()\n    self._read_timeout_handle = None"]:
        raise TranslatorError("ResponseHandler._drop_timeout changed")
    if src("pause_reading") != ["super().pause_reading()", "self._drop_timeout()"]:
        raise TranslatorError("ResponseHandler.pause_reading changed")
    if src("resume_reading") != ["was_paused = self._reading_paused", "super().resume_reading(resume_parser)",
                                 "if was_paused:\n    self._reschedule_timeout()"]:
        raise TranslatorError("ResponseHandler.resume_reading changed")
    if src("start_timeout") != ["self._reschedule_timeout()"]:
        raise TranslatorError("ResponseHandler.start_timeout changed")
    if src("_on_read_timeout") != ["exc = SocketTimeoutError('Timeout on reading data from socket')", "self.set_exception(exc)",
                                   "if self._payload is not None:\n    set_exception(self._payload, exc)"]:
        raise TranslatorError("ResponseHandler._on_read_timeout changed")
    dr = src("data_received")
    if not dr or dr[0] != "if data:\n    self._reschedule_timeout()":
        raise TranslatorError("ResponseHandler.data_received: the reschedule-on-data prologue changed")
    se = src("set_exception")
    if se[:2] != ["self._should_close = True", "self._drop_timeout()"]:
        raise TranslatorError("ResponseHandler.set_exception changed")
    cl = src("close")
    if "self._drop_timeout()" not in cl[-1] or "transport.close()" not in cl[-1]:
        raise TranslatorError("ResponseHandler.close changed")
    return (_enabled_def("read_enabled", none_v, some, "client_proto.ResponseHandler._reschedule_timeout: `if timeout:`")
            + "(* loop.call_later(timeout, self._on_read_timeout): no rounding *)\n"
            "Definition read_when (now t : Z) : Z := now + t.\n")


def _gen_effective_total():
    fn = core.find_function(R, "__post_init__", cls="ClientTimeout")
    b = _body(fn)
    if not (len(b) == 3 and _u(b[0]) == "if self.total is None:\n    return" and isinstance(b[1], ast.Expr)
            and isinstance(b[2], ast.If) and _u(b[2].test) == "self.total == 0" and isinstance(b[2].body[0], ast.Raise)):
        raise TranslatorError("ClientTimeout.__post_init__: unexpected shape")
    call = b[1].value
    if not (isinstance(call, ast.Call) and _u(call.func) == "object.__setattr__" and len(call.args) == 3
            and _u(call.args[0]) == "self" and _u(call.args[1]) == "'total'"):
        raise TranslatorError("ClientTimeout.__post_init__: total is not set through object.__setattr__")
    mx = call.args[2]
    if not (isinstance(mx, ast.Call) and _u(mx.func) == "max" and not mx.keywords and len(mx.args) >= 1):
        raise TranslatorError("ClientTimeout.__post_init__: total is not a max(...)")
    terms = []
    for a in mx.args:
        if _u(a) == "self.total":
            terms.append("t")
        elif isinstance(a, ast.BoolOp) and isinstance(a.op, ast.Or) and len(a.values) == 2 and _u(a.values[1]) == "0" \
                and _u(a.values[0]) in ("self.connect", "self.sock_read", "self.sock_connect"):
            terms.append(f"(orz {_u(a.values[0])[5:]})")
        else:
            raise TranslatorError(f"ClientTimeout.__post_init__: max() operand {_u(a)}")
    if terms[0] != "t":
        raise TranslatorError("ClientTimeout.__post_init__: max() does not start with self.total")
    txt = terms[0]
    for t in terms[1:]:
        txt = f"(Z.max {txt} {t})"
    # field defaults
    cls = [n for n in core.module(R).body if isinstance(n, ast.ClassDef) and n.name == "ClientTimeout"][0]
    defaults = {}
    for n in cls.body:
        if isinstance(n, ast.AnnAssign) and isinstance(n.target, ast.Name):
            defaults[n.target.id] = _u(n.value)
    want = {"total": "5 * 60", "connect": "None", "sock_read": "None", "sock_connect": "None", "ceil_threshold": "5"}
    if defaults != want:
        raise TranslatorError(f"ClientTimeout defaults changed: {defaults}")
    return ("Definition orz (o : option Z) : Z := match o with Some x => x | None => 0 end.\n"
            "(* client_reqrep.ClientTimeout.__post_init__: total is raised to the largest specific timeout (CHANGES/7274) *)\n"
            "Definition effective_total (total connect sock_read sock_connect : option Z) : option Z :=\n"
            f"  match total with None => None | Some t => Some {txt} end.\n"
            "(* defaults: total = 5*60 s, connect = sock_read = sock_connect = None, ceil_threshold = 5 s *)\n"
            "Definition default_total_s : Z := 300.\nDefinition default_ceil_threshold_s : Z := 5.\n")


def _gen_wiring():
    out = []
    # ---- ClientSession._request
    rq = _u(core.find_function(C, "_request", cls="ClientSession"))
    need = [
        "tm = TimeoutHandle(self._loop, real_timeout.total, ceil_threshold=real_timeout.ceil_threshold)",
        "handle = tm.start()",
        "timer = tm.timer()",
        "with timer:",
        "'read_timeout': real_timeout.sock_read",
        "'timer': timer",
        "timeout=real_timeout",
        "resp.connection.add_callback(handle.cancel)",
        "except BaseException as e:\n        tm.close()\n        if handle:\n            handle.cancel()\n            handle = None",
    ]
    for s in need:
        if s not in rq:
            raise TranslatorError(f"ClientSession._request: expected `{s}`")
    out.append("(* client.ClientSession._request: TimeoutHandle(total) started before the first await, its TimerContext wraps the\n"
               "   whole exchange and is handed to the response; read_timeout = sock_read; the handle is cancelled when the\n"
               "   connection is released or on any failure *)")
    # ---- _connect_and_send_request
    cs = _u(core.find_function(C, "_connect_and_send_request"))
    want = ("    try:\n        conn = await connector.connect(req, traces=req._traces, timeout=req._timeout)\n"
            "    except asyncio.TimeoutError as exc:\n        raise ConnectionTimeoutError(f'Connection timeout to host {req.url}') from exc\n")
    if want not in cs:
        raise TranslatorError("_connect_and_send_request: connect()/ConnectionTimeoutError mapping changed")
    want2 = ("    try:\n        resp = await req._send(conn)\n        try:\n            await resp.start(conn)\n"
             "        except BaseException:\n            resp.close()\n            raise\n"
             "    except BaseException:\n        conn.close()\n        raise\n    return resp")
    if want2 not in cs:
        raise TranslatorError("_connect_and_send_request: close-on-failure structure changed")
    out.append("(* client._connect_and_send_request: TimeoutError from connect() -> ConnectionTimeoutError; any failure while\n"
               "   sending / awaiting the head: resp.close() then conn.close() (never release) *)")
    # ---- BaseConnector.connect
    cn = core.find_function(K, "connect", cls="BaseConnector")
    b = _body(cn)
    withs = [n for n in ast.walk(cn) if isinstance(n, ast.AsyncWith)]
    if len(withs) != 1 or _u(withs[0].items[0].context_expr) != "ceil_timeout(timeout.connect, timeout.ceil_threshold)":
        raise TranslatorError("BaseConnector.connect: the ceil_timeout(timeout.connect, ...) block changed")
    w = withs[0]
    inside = _u(w)
    for s in ["await self._wait_for_available_connection(key, traces)", "proto = await self._create_connection(req, traces, timeout)",
              "except BaseException:\n        self._release_acquired(key, placeholder)\n        raise"]:
        if s not in inside:
            raise TranslatorError(f"BaseConnector.connect: `{s}` is not inside the connect timeout block")
    idx = b.index(w)
    before = "\n".join(_u(s) for s in b[:idx])
    if "await self._get(key, traces)" not in before or "return conn" not in before:
        raise TranslatorError("BaseConnector.connect: the first pool lookup is no longer in front of the timeout block")
    after = [s for s in b[idx + 1:]]
    if any(isinstance(n, (ast.Await, ast.AsyncWith, ast.AsyncFor)) for s in after for n in ast.walk(s)):
        raise TranslatorError("BaseConnector.connect: an await follows the placeholder swap")
    out.append("(* connector.BaseConnector.connect: idle reuse happens before (outside) ceil_timeout(connect); waiting for a slot and\n"
               "   creating the connection happen inside it; the placeholder is released on any failure; no await after the swap *)")
    # ---- TCPConnector._wrap_create_connection
    wc = core.find_function(K, "_wrap_create_connection", cls="TCPConnector")
    withs = [n for n in ast.walk(wc) if isinstance(n, ast.AsyncWith)]
    if len(withs) != 1 or _u(withs[0].items[0].context_expr) != "ceil_timeout(timeout.sock_connect, ceil_threshold=timeout.ceil_threshold)":
        raise TranslatorError("TCPConnector._wrap_create_connection: the ceil_timeout(timeout.sock_connect, ...) block changed")
    inside = _u(withs[0])
    if "await aiohappyeyeballs.start_connection(" not in inside or "return await create_connection(self._loop, *args, **kwargs, sock=sock)" not in inside:
        raise TranslatorError("TCPConnector._wrap_create_connection: socket connect / transport creation left the timeout block")
    out.append("(* connector.TCPConnector._wrap_create_connection: ceil_timeout(sock_connect) around start_connection + create_connection *)")
    return "\n".join(out) + "\n"


def _gen_capacity():
    out = [gen_pool._gen_available()]
    # since 755fa27 connect() computes the capacity once (`available = ...`) and compares it twice; gen_pool reads both
    out.append("(* connect(): `if <capacity> <= 0: await self._wait_for_available_connection` *)\n"
               f"Definition connect_must_wait (a : Z) : bool := {gen_pool._connect_sites()[1]}.\n")
    out.append("(* _wait_for_available_connection(): `if self._available_connections(key) > 0: break` *)\n"
               f"Definition wait_slot_found (a : Z) : bool := {gen_pool._call_site('_wait_for_available_connection', 'if')}.\n")
    out.append("(* _release_waiter(): `if self._available_connections(key) < 1: continue` *)\n"
               f"Definition release_skips_key (a : Z) : bool := {gen_pool._call_site('_release_waiter', 'if')}.\n")
    return "\n".join(out)


def generate() -> str:
    out = ["Open Scope Z_scope.\n",
           "(* math.ceil of a time counted in ticks of 1/u second: the least multiple of u that is >= x *)\n"
           "Definition ceil_to (u x : Z) : Z := ((x + (u - 1)) / u) * u.\n",
           _gen_total(), _gen_timer_context(), _gen_ctx(), _gen_read(), _gen_effective_total(), _gen_wiring(),
           _gen_capacity()]
    return "\n".join(out)
