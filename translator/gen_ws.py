"""aiohttp/_websocket/{reader_py,models}.py -> Generated/WsGen.v   (property C12)

What is regenerated from the source text on every run (fail-closed):
  * WSMsgType wire opcodes, WSCloseCode members (ALLOWED_CLOSE_CODES is `{int(i) for i in WSCloseCode}`),
    WS_DEFLATE_TRAILING, MAX_PAYLOAD_LEN (= sys.maxsize, 64-bit), the `_max_fragments` formula;
  * the *tests* guarding every `raise WebSocketError(...)` of `_feed_data` / `_handle_frame`, located by
    their close code + message text, translated as boolean expressions over N / Z:
    reserved bits, known opcodes, fragmented control frame, control length, 64-bit length cap, the
    pre-buffering size test (Z arithmetic, subtraction as written), the inflate cap expression and the
    post-inflate size test, the close-code test.
A dropped / weakened / reordered check therefore changes (or fails to produce) a Generated definition the
model and the proofs are built on.
"""
from __future__ import annotations

import ast

from . import core
from .core import TranslatorError

OUTPUT = "WsGen.v"
ITEMS = ["WSMsgType opcodes", "WSCloseCode members / ALLOWED_CLOSE_CODES shape", "WS_DEFLATE_TRAILING",
         "MAX_PAYLOAD_LEN", "_max_fragments formula", "reserved-bits test", "opcode set", "fragmented-control test",
         "control-length test", "control rsv1 test", "continuation rsv1 test", "64-bit length cap test",
         "pre-buffering size test", "inflate cap expression", "post-inflate size test", "close-code test",
         "interleaved data frame test (and its position)", "check order in READ_HEADER", "had_fragments shape", "feed_data latch shape", "WebSocketDataQueue read order / FIFO shapes"]

READER = "aiohttp/_websocket/reader_py.py"
MODELS = "aiohttp/_websocket/models.py"


# ---------------------------------------------------------------------------------------------
# enums / constants

def _enum_members(cls_name: str) -> dict[str, int]:
    mod = core.module(MODELS)
    cands = [n for n in mod.body if isinstance(n, ast.ClassDef) and n.name == cls_name]
    if len(cands) != 1:
        raise TranslatorError(f"{MODELS}: class {cls_name} not found uniquely")
    cls = cands[0]
    if not (len(cls.bases) == 1 and isinstance(cls.bases[0], ast.Name) and cls.bases[0].id == "IntEnum"):
        raise TranslatorError(f"{cls_name} is not a plain IntEnum")
    out: dict[str, int] = {}
    for st in cls.body:
        if isinstance(st, ast.Assign) and len(st.targets) == 1 and isinstance(st.targets[0], ast.Name):
            v = core.literal(st.value)
            if not isinstance(v, int) or isinstance(v, bool):
                raise TranslatorError(f"{cls_name}.{st.targets[0].id}: non-integer member")
            out[st.targets[0].id] = v
        elif isinstance(st, ast.Expr) and isinstance(st.value, ast.Constant):
            continue
        elif isinstance(st, ast.Pass):
            continue
        else:
            raise TranslatorError(f"{cls_name}: unexpected class-body statement {ast.dump(st)[:120]}")
    return out


def _opcode_env() -> dict[str, int]:
    """OP_CODE_X = WSMsgType.X.value assignments of the reader -> {OP_CODE_X: int}."""
    members = _enum_members("WSMsgType")
    env: dict[str, int] = {}
    for name in ("CONTINUATION", "TEXT", "BINARY", "CLOSE", "PING", "PONG"):
        v = core.find_assign(READER, f"OP_CODE_{name}")
        ok = (isinstance(v, ast.Attribute) and v.attr == "value" and isinstance(v.value, ast.Attribute)
              and v.value.attr == name and isinstance(v.value.value, ast.Name) and v.value.value.id == "WSMsgType")
        if not ok:
            raise TranslatorError(f"OP_CODE_{name} is not WSMsgType.{name}.value")
        env[f"OP_CODE_{name}"] = members[name]
    v = core.literal(core.find_assign(READER, "OP_CODE_NOT_SET"))
    if v != -1:
        raise TranslatorError("OP_CODE_NOT_SET is not -1")
    for nm, want in (("COMPRESSED_NOT_SET", -1), ("COMPRESSED_FALSE", 0), ("COMPRESSED_TRUE", 1)):
        if core.literal(core.find_assign(READER, nm)) != want:
            raise TranslatorError(f"{nm} is not {want}")
    return env


# ---------------------------------------------------------------------------------------------
# boolean expressions

class BoolTr:
    """Python test expression -> Coq bool text.  `ints`: python name -> Coq N/Z variable, `bools`: python
    name (used for its truth value) -> Coq bool variable, `consts`: name -> int, `sets`: name -> Coq list."""

    def __init__(self, ints, bools, consts, sets=None, scope="N", truthy_ints=()):
        self.ints, self.bools, self.consts, self.sets, self.scope = ints, bools, consts, sets or {}, scope
        self.truthy_ints = set(truthy_ints)

    def key(self, node):
        if isinstance(node, ast.Name):
            return node.id
        if isinstance(node, ast.Attribute) and isinstance(node.value, ast.Name) and node.value.id == "self":
            return "self." + node.attr
        if (isinstance(node, ast.Call) and isinstance(node.func, ast.Name) and node.func.id == "len"
                and len(node.args) == 1 and not node.keywords):
            k = self.key(node.args[0])
            return None if k is None else f"len({k})"
        return None

    def num(self, node) -> str:
        if isinstance(node, ast.Constant) and isinstance(node.value, int) and not isinstance(node.value, bool):
            return str(node.value)
        k = self.key(node)
        if k is not None and k in self.ints:
            return self.ints[k]
        if k is not None and k in self.consts:
            return str(self.consts[k])
        if isinstance(node, ast.BinOp) and isinstance(node.op, (ast.Add, ast.Sub)):
            if isinstance(node.op, ast.Sub) and self.scope != "Z":
                raise TranslatorError("subtraction is only translated in Z scope")
            op = "+" if isinstance(node.op, ast.Add) else "-"
            return f"({self.num(node.left)} {op} {self.num(node.right)})"
        raise TranslatorError(f"numeric expression not recognised: {ast.unparse(node)}")

    def set_of(self, node) -> str:
        if isinstance(node, ast.Set):
            return "[" + "; ".join(self.num(e) for e in node.elts) + "]"
        k = self.key(node)
        if k is not None and k in self.sets:
            return self.sets[k]
        raise TranslatorError(f"set expression not recognised: {ast.unparse(node)}")

    def test(self, node) -> str:
        if isinstance(node, ast.BoolOp):
            op = " && " if isinstance(node.op, ast.And) else " || "
            return "(" + op.join(self.test(v) for v in node.values) + ")"
        if isinstance(node, ast.UnaryOp) and isinstance(node.op, ast.Not):
            return f"(negb {self.test(node.operand)})"
        if isinstance(node, ast.Compare) and len(node.ops) == 1:
            op, a, b = node.ops[0], node.left, node.comparators[0]
            if isinstance(op, (ast.In, ast.NotIn)):
                if self.scope != "N":
                    raise TranslatorError("membership only in N scope")
                t = f"(ws_mem {self.num(a)} {self.set_of(b)})"
                return t if isinstance(op, ast.In) else f"(negb {t})"
            # `fin == 0` on a 0/1 flag carried as bool
            ka = self.key(a)
            if ka in self.bools and isinstance(op, ast.Eq) and isinstance(b, ast.Constant) and b.value == 0:
                return f"(negb {self.bools[ka]})"
            x, y = self.num(a), self.num(b)
            sfx = "%Z" if self.scope == "Z" else ""
            if isinstance(op, ast.Gt):
                return f"({y} <? {x}){sfx}"
            if isinstance(op, ast.GtE):
                return f"({y} <=? {x}){sfx}"
            if isinstance(op, ast.Lt):
                return f"({x} <? {y}){sfx}"
            if isinstance(op, ast.LtE):
                return f"({x} <=? {y}){sfx}"
            if isinstance(op, ast.Eq):
                return f"({x} =? {y}){sfx}"
            if isinstance(op, ast.NotEq):
                return f"(negb ({x} =? {y}){sfx})"
            raise TranslatorError(f"comparison operator {type(op).__name__}")
        k = self.key(node)
        if k is not None and k in self.bools:
            return self.bools[k]
        if k is not None and k in self.truthy_ints and k in self.ints:
            return f"(negb ({self.ints[k]} =? 0))"
        raise TranslatorError(f"test not recognised: {ast.unparse(node)}")


# ---------------------------------------------------------------------------------------------
# locating the guarded raises

def _raise_info(stmt):
    """(close-code name, message prefix) of `raise WebSocketError(WSCloseCode.X, <msg>) [from e]`, else None."""
    if not (isinstance(stmt, ast.Raise) and isinstance(stmt.exc, ast.Call) and isinstance(stmt.exc.func, ast.Name)
            and stmt.exc.func.id == "WebSocketError" and len(stmt.exc.args) == 2):
        return None
    c, m = stmt.exc.args
    if not (isinstance(c, ast.Attribute) and isinstance(c.value, ast.Name) and c.value.id == "WSCloseCode"):
        raise TranslatorError(f"WebSocketError with a non-literal close code: {ast.unparse(stmt)[:120]}")
    if isinstance(m, ast.Constant) and isinstance(m.value, str):
        text = m.value
    elif isinstance(m, ast.JoinedStr):
        text = ""
        for v in m.values:
            if isinstance(v, ast.Constant):
                text += v.value
            else:
                break
    else:
        raise TranslatorError(f"WebSocketError message is not a string literal: {ast.unparse(stmt)[:120]}")
    return c.attr, text


def _guarded_raises(fn):
    """[(if-node, test, code, msg, lineno)] for every `if`/`elif` whose body is exactly one WebSocketError raise;
    also raises under `except X:` are returned with test None."""
    out = []
    for n in ast.walk(fn):
        if isinstance(n, ast.If) and len(n.body) == 1:
            info = _raise_info(n.body[0])
            if info:
                out.append((n, n.test, info[0], info[1], n.lineno))
        if isinstance(n, ast.ExceptHandler) and len(n.body) == 1:
            info = _raise_info(n.body[0])
            if info:
                out.append((n, None, info[0], info[1], n.lineno))
    # every raise of the function must be accounted for (nothing un-guarded / multi-statement)
    all_raises = [n for n in ast.walk(fn) if isinstance(n, ast.Raise)]
    plain = [r for r in all_raises if _raise_info(r)]
    accounted = {id(t[0].body[0]) for t in out}
    # the final `else: raise ... Unexpected opcode` of _handle_frame is the only unguarded one allowed
    rest = [r for r in plain if id(r) not in accounted]
    return out, rest


def _one(items, code, prefix, what):
    hit = [t for t in items if t[2] == code and t[3].startswith(prefix)]
    if len(hit) != 1:
        raise TranslatorError(f"{what}: expected exactly one guarded `raise WebSocketError({code}, {prefix!r}...)`, found {len(hit)}")
    return hit[0]


def generate() -> str:
    out: list[str] = []
    out.append("Fixpoint ws_mem (x : N) (l : list N) : bool :=\n  match l with [] => false | y :: l' => (x =? y) || ws_mem x l' end.\n")
    ops = _opcode_env()
    closes = _enum_members("WSCloseCode")
    for nm in ("PROTOCOL_ERROR", "INVALID_TEXT", "MESSAGE_TOO_BIG"):
        if nm not in closes:
            raise TranslatorError(f"WSCloseCode.{nm} missing")
    out.append("(* aiohttp/_websocket/models.py WSMsgType (wire opcodes) *)")
    for nm in ("CONTINUATION", "TEXT", "BINARY", "CLOSE", "PING", "PONG"):
        out.append(f"Definition OP_{nm} : N := {ops['OP_CODE_' + nm]}.")
    out.append("\n(* WSCloseCode members; reader_py.ALLOWED_CLOSE_CODES = {int(i) for i in WSCloseCode if i is not WSCloseCode.<excluded>} *)")
    v = core.find_assign(READER, "ALLOWED_CLOSE_CODES")
    # accepted shape: {int(i) for i in WSCloseCode if i is not WSCloseCode.<MEMBER>}  (exactly one exclusion)
    excluded = None
    ok = (isinstance(v, ast.SetComp) and len(v.generators) == 1 and len(v.generators[0].ifs) <= 1)
    if ok and not v.generators[0].ifs:
        g = v.generators[0]
        ok = (ast.dump(v.elt) == ast.dump(ast.parse("int(i)", mode="eval").body) and isinstance(g.target, ast.Name)
              and g.target.id == "i" and isinstance(g.iter, ast.Name) and g.iter.id == "WSCloseCode" and not g.is_async)
        excluded = ""
    elif ok:
        g = v.generators[0]
        t = g.ifs[0]
        ok = (ast.dump(v.elt) == ast.dump(ast.parse("int(i)", mode="eval").body)
              and isinstance(g.target, ast.Name) and g.target.id == "i"
              and isinstance(g.iter, ast.Name) and g.iter.id == "WSCloseCode" and not g.is_async
              and isinstance(t, ast.Compare) and len(t.ops) == 1 and isinstance(t.ops[0], ast.IsNot)
              and isinstance(t.left, ast.Name) and t.left.id == "i"
              and isinstance(t.comparators[0], ast.Attribute) and isinstance(t.comparators[0].value, ast.Name)
              and t.comparators[0].value.id == "WSCloseCode")
        if ok:
            excluded = t.comparators[0].attr
    if not ok or (excluded != "" and excluded not in closes):
        raise TranslatorError("ALLOWED_CLOSE_CODES is neither `{int(i) for i in WSCloseCode}` nor "
                              "`{int(i) for i in WSCloseCode if i is not WSCloseCode.<member>}`")
    allowed = sorted(val for nm, val in closes.items() if nm != excluded)
    out.append(f"(* excluded member: {('WSCloseCode.' + excluded + ' = ' + str(closes[excluded])) if excluded else 'none'} *)")
    out.append(f"Definition ALLOWED_CLOSE_CODES : list N := {core.coq_N_list(allowed)}.")
    out.append(f"Definition CODE_PROTOCOL_ERROR : N := {closes['PROTOCOL_ERROR']}.")
    out.append(f"Definition CODE_INVALID_TEXT : N := {closes['INVALID_TEXT']}.")
    out.append(f"Definition CODE_MESSAGE_TOO_BIG : N := {closes['MESSAGE_TOO_BIG']}.")

    tr = core.find_assign(MODELS, "WS_DEFLATE_TRAILING")
    if not (isinstance(tr, ast.Call) and isinstance(tr.func, ast.Name) and tr.func.id == "bytes" and len(tr.args) == 1):
        raise TranslatorError("WS_DEFLATE_TRAILING is not bytes([...])")
    out.append(f"Definition WS_DEFLATE_TRAILING : list N := {core.coq_N_list(core.literal(tr.args[0]))}.")

    mp = core.find_assign(READER, "MAX_PAYLOAD_LEN")
    if not (isinstance(mp, ast.Attribute) and mp.attr == "maxsize" and isinstance(mp.value, ast.Name) and mp.value.id == "sys"):
        raise TranslatorError("MAX_PAYLOAD_LEN is not sys.maxsize")
    out.append("(* MAX_PAYLOAD_LEN = sys.maxsize on the 64-bit CPython the check runs under *)")
    out.append(f"Definition MAX_PAYLOAD_LEN : N := {2**63 - 1}.")

    # _max_fragments = max(1024, max_msg_size // 256) if max_msg_size else 0
    mf = core.find_assign(READER, "_max_fragments", cls="WebSocketReader", func="__init__")
    if not (isinstance(mf, ast.IfExp) and isinstance(mf.test, ast.Name) and mf.test.id == "max_msg_size"):
        raise TranslatorError("_max_fragments: expected `<formula> if max_msg_size else <formula>`")
    env = {"max_msg_size": "max_msg_size"}
    out.append("Definition max_fragments (max_msg_size : N) : N :=\n"
               f"  if max_msg_size =? 0 then {core.formula(mf.orelse, env)} else {core.formula(mf.body, env)}.")

    # ---- _feed_data --------------------------------------------------------------------------
    fd = core.find_function(READER, "_feed_data", cls="WebSocketReader")
    items, rest = _guarded_raises(fd)
    if rest:
        raise TranslatorError(f"_feed_data: unguarded WebSocketError raise at line {rest[0].lineno}")
    consts = dict(ops)
    consts["MAX_PAYLOAD_LEN"] = 2**63 - 1
    hb = BoolTr(ints={"opcode": "opcode", "length": "length", "frame_len": "frame_len"},
                bools={"rsv1": "rsv1", "rsv2": "rsv2", "rsv3": "rsv3", "fin": "fin", "self._compress": "compress"},
                consts=consts)
    rsv = [t for t in items if t[2] == "PROTOCOL_ERROR" and t[3].startswith("Received frame with non-zero reserved bits")]
    if len(rsv) != 3:
        raise TranslatorError(f"expected 3 reserved-bits raises in _feed_data, found {len(rsv)}")
    rsv.sort(key=lambda t: t[4])
    out.append("\n(* READ_HEADER tests, in source order *)")
    out.append(f"Definition hdr_rsv_bad (rsv1 rsv2 rsv3 compress : bool) : bool := {hb.test(rsv[0][1])}.")
    t_op = _one(items, "PROTOCOL_ERROR", "Unexpected opcode=", "opcode test")
    out.append(f"Definition hdr_opcode_bad (opcode : N) : bool := {hb.test(t_op[1])}.")
    t_fc = _one(items, "PROTOCOL_ERROR", "Received fragmented control frame", "fragmented control test")
    out.append(f"Definition hdr_ctl_fragmented (opcode : N) (fin : bool) : bool := {hb.test(t_fc[1])}.")
    t_cl = _one(items, "PROTOCOL_ERROR", "Control frame payload cannot be larger than 125 bytes", "control length test")
    out.append(f"Definition hdr_ctl_too_long (opcode length : N) : bool := {hb.test(t_cl[1])}.")
    # the control / data split and the two remaining rsv1 tests:
    #   if opcode > 0x7: if rsv1: raise      else: if self._frame_fin or self._compressed == NOT_SET: ... elif rsv1: raise
    split = [n for n in ast.walk(fd) if isinstance(n, ast.If) and n.body and n.body[0] is rsv[1][0]]
    if len(split) != 1:
        raise TranslatorError("control/data split `if opcode > 0x7: if rsv1: raise ... else: ...` not found")
    split = split[0]
    out.append(f"Definition hdr_is_control (opcode : N) : bool := {hb.test(split.test)}.")
    if hb.test(rsv[1][1]) != "rsv1" or hb.test(rsv[2][1]) != "rsv1":
        raise TranslatorError("control/continuation rsv1 tests are not plain `rsv1`")
    if not (len(split.orelse) == 2 and isinstance(split.orelse[0], ast.If) and split.orelse[0].orelse
            and split.orelse[0].orelse[0] is rsv[2][0]):
        raise TranslatorError("data-frame branch: expected `if <first fragment>: self._compressed = ... elif rsv1: raise` then `self._frame_fin = bool(fin)`")
    first = split.orelse[0]
    fb = BoolTr(ints={"self._compressed": "compressed"}, bools={"self._frame_fin": "frame_fin"},
                consts={"COMPRESSED_NOT_SET": 2})
    out.append("(* `self._frame_fin or self._compressed == COMPRESSED_NOT_SET` with NOT_SET encoded as 2 *)")
    out.append(f"Definition hdr_first_fragment (frame_fin : bool) (compressed : N) : bool := {fb.test(first.test)}.")
    exp_set = ast.parse("self._compressed = COMPRESSED_TRUE if rsv1 else COMPRESSED_FALSE").body[0]
    if not (len(first.body) == 1 and ast.dump(first.body[0]) == ast.dump(exp_set)):
        raise TranslatorError("first-fragment branch is not `self._compressed = COMPRESSED_TRUE if rsv1 else COMPRESSED_FALSE`")
    exp_fin = ast.parse("self._frame_fin = bool(fin)").body[0]
    if ast.dump(split.orelse[1]) != ast.dump(exp_fin):
        raise TranslatorError("data-frame branch does not end with `self._frame_fin = bool(fin)`")
    order = [rsv[0][4], t_op[4], t_fc[4], t_cl[4], split.lineno]
    if order != sorted(order):
        raise TranslatorError("READ_HEADER checks are no longer in the order rsv, opcode, fragmented control, control length, split")

    big = [t for t in items if t[2] == "MESSAGE_TOO_BIG" and t[3].startswith("Message size ")]
    if len(big) != 2:
        raise TranslatorError(f"expected 2 `Message size ... exceeds limit` raises in _feed_data, found {len(big)}")
    big.sort(key=lambda t: t[4])
    out.append("\n(* READ_PAYLOAD_LENGTH tests *)")
    out.append(f"Definition len64_too_big (frame_len : N) : bool := {hb.test(big[0][1])}.")
    zb = BoolTr(ints={"self._payload_bytes_to_read": "to_read", "self._max_msg_size": "max_msg_size", "partial_len": "partial_len"},
                bools={}, consts={}, scope="Z")
    out.append("(* Python integers: the subtraction is kept as written, in Z *)")
    out.append(f"Definition size_reject (to_read max_msg_size partial_len : Z) : bool := {zb.test(big[1][1])}.")
    # the enclosing guard: `if self._max_msg_size and self._frame_opcode in {...}:`
    encl = [n for n in ast.walk(fd) if isinstance(n, ast.If) and any(s is big[1][0] for s in n.body)]
    if len(encl) != 1:
        raise TranslatorError("size test: enclosing `if self._max_msg_size and self._frame_opcode in {...}` not found")
    gb = BoolTr(ints={"self._max_msg_size": "max_msg_size", "self._frame_opcode": "opcode"}, bools={}, consts=consts,
                truthy_ints={"self._max_msg_size"})
    out.append(f"Definition size_check_applies (max_msg_size opcode : N) : bool := {gb.test(encl[0].test)}.")
    pl = [s for s in encl[0].body if isinstance(s, ast.Assign)]
    exp_pl = ast.parse("partial_len = len(self._partial)").body[0]
    if not (len(pl) == 1 and ast.dump(pl[0]) == ast.dump(exp_pl)):
        raise TranslatorError("size test: `partial_len = len(self._partial)` not found")
    # had_fragments = len(self._payload_fragments): the *list* decides whether fragments are joined and cleared
    hfs = [n for n in ast.walk(fd) if isinstance(n, ast.Assign) and len(n.targets) == 1
           and isinstance(n.targets[0], ast.Name) and n.targets[0].id == "had_fragments"]
    exp_hf = {ast.dump(ast.parse("had_fragments = len(self._payload_fragments)").body[0]): "nfrags",
              ast.dump(ast.parse("had_fragments = self._frame_payload_len").body[0]): "frame_payload_len"}
    if len(hfs) != 1 or ast.dump(hfs[0]) not in exp_hf:
        raise TranslatorError("`had_fragments = len(self._payload_fragments)` (or `= self._frame_payload_len`) not found")
    hf_var = exp_hf[ast.dump(hfs[0])]
    uses = [n for n in ast.walk(fd) if isinstance(n, ast.If) and isinstance(n.test, ast.Name) and n.test.id == "had_fragments"]
    if len(uses) != 1:
        raise TranslatorError("expected exactly one `if had_fragments:`")
    clears = [n for n in ast.walk(uses[0]) if isinstance(n, ast.Call) and isinstance(n.func, ast.Attribute)
              and n.func.attr == "clear" and ast.unparse(n.func.value) == "self._payload_fragments"]
    if len(clears) != 1 or any(c in list(ast.walk(ast.Module(body=uses[0].orelse, type_ignores=[]))) for c in clears):
        raise TranslatorError("`self._payload_fragments.clear()` must be in the `if had_fragments:` branch")
    out.append(f"\n(* {ast.unparse(hfs[0])}  (truthiness); the `if had_fragments:` branch appends, joins and clears the list *)")
    out.append(f"Definition had_fragments (nfrags frame_payload_len : N) : bool := negb ({hf_var} =? 0).")
    if len(items) != 8:
        raise TranslatorError(f"_feed_data: expected 8 guarded WebSocketError raises, found {len(items)}")

    # ---- _handle_frame -----------------------------------------------------------------------
    hf = core.find_function(READER, "_handle_frame", cls="WebSocketReader")
    hitems, hrest = _guarded_raises(hf)
    if len(hrest) != 1 or _raise_info(hrest[0])[1] != "Unexpected opcode=":
        raise TranslatorError("_handle_frame: the only unguarded raise must be the final `Unexpected opcode`")
    out.append("\n(* _handle_frame tests *)")
    mb = BoolTr(ints={"self._max_msg_size": "max_msg_size", "len(payload_merged)": "len", "close_code": "code",
                      "opcode": "opcode", "self._opcode": "msg_opcode"},
                bools={}, consts=dict(consts, OP_CODE_NOT_SET=16), sets={"ALLOWED_CLOSE_CODES": "ALLOWED_CLOSE_CODES"},
                truthy_ints={"self._max_msg_size"})
    t_cs = _one(hitems, "PROTOCOL_ERROR", "Continuation frame for non started message", "continuation test")
    out.append("(* OP_CODE_NOT_SET (-1) is encoded as 16 *)")
    out.append(f"Definition cont_not_started (opcode msg_opcode : N) : bool := {mb.test(t_cs[1])}.")
    t_in = _one(hitems, "MESSAGE_TOO_BIG", "Decompressed message exceeds size limit", "post-inflate size test")
    out.append(f"Definition inflated_too_big (max_msg_size len : N) : bool := {mb.test(t_in[1])}.")
    t_cc = _one(hitems, "PROTOCOL_ERROR", "Invalid close code", "close code test")
    out.append(f"Definition close_code_bad (code : N) : bool := {mb.test(t_cc[1])}.")
    _one(hitems, "MESSAGE_TOO_BIG", "Compressed message has too many deflate members", "too many members")
    t_im = _one(hitems, "PROTOCOL_ERROR", "The opcode in non-fin frame is expected", "in-progress test")
    out.append("(* a TEXT/BINARY frame while a fragmented message is open (RFC 6455 5.4); tested before anything is buffered *)")
    out.append(f"Definition data_in_message (opcode msg_opcode : N) : bool := {mb.test(t_im[1])}.")
    if not (t_cs[4] < t_im[4]):
        raise TranslatorError("_handle_frame: the interleaving test must follow the continuation-not-started test")
    nf = [n for n in ast.walk(hf) if isinstance(n, ast.If) and ast.unparse(n.test) == "not fin"]
    if len(nf) != 1 or not (t_im[4] < nf[0].lineno):
        raise TranslatorError("_handle_frame: the interleaving test must precede the `if not fin:` branch that buffers the payload")
    _one(hitems, "PROTOCOL_ERROR", "Invalid close frame", "close frame length test")
    utf = [t for t in hitems if t[2] == "INVALID_TEXT"]
    if len(utf) != 2 or any(t[1] is not None for t in utf):
        raise TranslatorError("expected two `except UnicodeDecodeError: raise WebSocketError(INVALID_TEXT ...)` handlers")
    for t in utf:
        ty = t[0].type
        if not (isinstance(ty, ast.Name) and ty.id == "UnicodeDecodeError"):
            raise TranslatorError("INVALID_TEXT raised from a handler that is not `except UnicodeDecodeError`")
    if len(hitems) != 8:
        raise TranslatorError(f"_handle_frame: expected 8 guarded WebSocketError raises, found {len(hitems)}")
    # inflate cap: second positional argument of decompress_sync
    calls = [n for n in ast.walk(hf) if isinstance(n, ast.Call) and isinstance(n.func, ast.Attribute) and n.func.attr == "decompress_sync"]
    if len(calls) != 1 or len(calls[0].args) != 2:
        raise TranslatorError("_handle_frame: expected one decompress_sync(data, max_length) call")
    data_arg, cap = calls[0].args
    exp_data = ast.parse("assembled_payload + WS_DEFLATE_TRAILING", mode="eval").body
    if ast.dump(data_arg) != ast.dump(exp_data):
        raise TranslatorError("decompress_sync input is not `assembled_payload + WS_DEFLATE_TRAILING`")
    if not (isinstance(cap, ast.IfExp) and mb.key(cap.test) == "self._max_msg_size"):
        raise TranslatorError("decompress_sync max_length is not `<a> if self._max_msg_size else <b>`")
    nb = BoolTr(ints={"self._max_msg_size": "max_msg_size"}, bools={}, consts={})
    out.append(f"Definition inflate_cap (max_msg_size : N) : N := if max_msg_size =? 0 then {nb.num(cap.orelse)} else {nb.num(cap.body)}.")

    # ---- feed_data: the latch ----------------------------------------------------------------
    fdd = core.find_function(READER, "feed_data", cls="WebSocketReader")
    exp = ast.parse('''
def feed_data(self, data):
    if type(data) is not bytes:
        data = bytes(data)
    if self._exc is not None:
        return True, data
    try:
        self._feed_data(data)
    except Exception as exc:
        self._exc = exc
        set_exception(self.queue, exc)
        return EMPTY_FRAME_ERROR
    return EMPTY_FRAME
''').body[0]

    def strip(fn):
        fn = ast.parse(ast.unparse(fn)).body[0]
        fn.returns = None
        for a in fn.args.args:
            a.annotation = None
        fn.body = [s for s in fn.body if not (isinstance(s, ast.Expr) and isinstance(s.value, ast.Constant))]
        return ast.dump(fn)
    if strip(fdd) != strip(exp):
        raise TranslatorError("WebSocketReader.feed_data no longer has the latch shape the model transcribes "
                              "(return (True, data) once _exc is set; any Exception from _feed_data is stored and set on the queue)")
    # ---- WebSocketDataQueue: read order (buffer before exception), put order -----------------------
    def strip_fn(fn):
        fn = ast.parse(ast.unparse(fn)).body[0]
        fn.returns = None
        for a in fn.args.args:
            a.annotation = None
        fn.body = [st for st in fn.body if not (isinstance(st, ast.Expr) and isinstance(st.value, ast.Constant))]
        return ast.dump(fn)
    rfb = core.find_function(READER, "_read_from_buffer", cls="WebSocketDataQueue")
    exp_rfb = ast.parse('''
def _read_from_buffer(self):
    if self._buffer:
        data = self._get_buffer()
        size = data.size
        self._size -= size
        if self._size < self._limit and self._protocol._reading_paused:
            self._protocol.resume_reading()
        return data
    if self._exception is not None:
        raise self._exception
    raise EofStream
''').body[0]
    if strip_fn(rfb) != strip_fn(exp_rfb):
        raise TranslatorError("WebSocketDataQueue._read_from_buffer no longer has the shape the queue model transcribes "
                              "(buffered messages are handed out first, the stored exception only once the buffer is empty)")
    qfd = core.find_function(READER, "feed_data", cls="WebSocketDataQueue")
    exp_qfd = ast.parse('''
def feed_data(self, data):
    size = data.size
    self._size += size
    self._put_buffer(data)
    self._release_waiter()
    if self._size > self._limit and not self._protocol._reading_paused:
        self._protocol.pause_reading()
''').body[0]
    if strip_fn(qfd) != strip_fn(exp_qfd):
        raise TranslatorError("WebSocketDataQueue.feed_data no longer appends to the buffer in the transcribed shape")
    qse = core.find_function(READER, "set_exception", cls="WebSocketDataQueue")
    if [ast.unparse(st) for st in qse.body[:2]] != ["self._eof = True", "self._exception = exc"]:
        raise TranslatorError("WebSocketDataQueue.set_exception must store the exception without touching the buffer")
    for nm, want in (("_get_buffer", "self._buffer.popleft"), ("_put_buffer", "self._buffer.append")):
        v = core.find_assign(READER, nm, cls="WebSocketDataQueue", func="__init__")
        if ast.unparse(v) != want:
            raise TranslatorError(f"WebSocketDataQueue.{nm} is not {want} (FIFO order)")
    out.append("\n(* WebSocketDataQueue shapes checked: FIFO append/popleft; _read_from_buffer hands out buffered messages before the stored exception *)")
    out.append("Definition queue_buffer_before_exception : bool := true.")
    out.append("\n(* feed_data latch shape checked: `if self._exc is not None: return True, data` / except Exception: self._exc = exc *)")
    out.append("Definition feed_data_latches : bool := true.")
    return "\n".join(out) + "\n"
