"""aiohttp/client_reqrep.py, helpers.py, web_response.py, http_parser.py -> Generated/WireGen.v

Data-like decisions of the two endpoints that Model/Wire.v and Model/WireResp.v transcribe:
  * which values of ClientRequest.chunked switch the StreamWriter to chunked framing
    (`if self.chunked is not None` vs truthiness) - the source of the chunked=False finding;
  * GET_METHODS / POST_METHODS, the default Accept header, the default Content-Type;
  * EMPTY_BODY_STATUS_CODES as a predicate;
  * ast shape checks of _update_transfer_encoding, _update_body_from_data, the Connection block of
    _send, the keep-alive/Connection part of StreamResponse._prepare_headers and the `close is None`
    default of HttpResponseParser.parse_message.
Fail-closed: anything unrecognised raises TranslatorError.
"""
import ast

from . import core
from .core import TranslatorError

OUTPUT = "WireGen.v"
ITEMS = ["writer_chunking_enabled (ClientRequest._create_writer test)", "client_get_methods", "client_post_methods",
         "default_accept", "default_content_type", "empty_body_status", "_update_transfer_encoding shape",
         "_update_body_from_data shape", "_send Connection block shape", "_prepare_headers keep-alive shape",
         "HttpResponseParser close default shape", "response empty_body rule",
         "write_eof_only_after_success (_write_bytes try/except/else)",
         "continue_waiter_created / server_sends_100 (_update_expect_continue, _default_expect_handler)",
         "client_counts_declared_length (_send writer.length, _write_bytes shortfall)",
         "should_write_on_declared_length (_should_write)"]

CR = "aiohttp/client_reqrep.py"


def _norm(node) -> str:
    """ast dump without annotations / docstrings, for shape comparison."""
    node = ast.parse(ast.unparse(node)).body[0]
    if isinstance(node, (ast.FunctionDef, ast.AsyncFunctionDef)):
        node.returns = None
        for a in node.args.args + node.args.kwonlyargs:
            a.annotation = None
        if node.body and isinstance(node.body[0], ast.Expr) and isinstance(node.body[0].value, ast.Constant) \
                and isinstance(node.body[0].value.value, str):
            node.body = node.body[1:]
        node.decorator_list = []
    return ast.dump(node, annotate_fields=False)


def _expect_fn(relpath, name, cls, expected_src, what):
    fn = core.find_function(relpath, name, cls=cls)
    exp = ast.parse(expected_src).body[0]
    if _norm(fn) != _norm(exp):
        raise TranslatorError(f"{cls}.{name} differs from the shape {what} transcribes:\n" + ast.unparse(fn)[:1500])


def _meth_set(cls, name):
    v = core.find_assign(CR, name, cls=cls)
    if not isinstance(v, ast.Set):
        raise TranslatorError(f"{cls}.{name}: expected a set display")
    out = []
    for e in v.elts:
        if not (isinstance(e, ast.Attribute) and isinstance(e.value, ast.Name) and e.value.id == "hdrs" and e.attr.startswith("METH_")):
            raise TranslatorError(f"{cls}.{name}: element is not hdrs.METH_*: {ast.dump(e)}")
        m = core.literal(core.find_assign("aiohttp/hdrs.py", e.attr))
        if not isinstance(m, str):
            raise TranslatorError(f"hdrs.{e.attr} is not a string literal")
        out.append(m)
    return sorted(out)


def _chunking_test():
    """ClientRequest._create_writer: `if <test>: writer.enable_chunking()`; recognised tests:
    `self.chunked is not None` and `self.chunked`."""
    fn = core.find_function(CR, "_create_writer", cls="ClientRequest")
    found = []
    for n in ast.walk(fn):
        if isinstance(n, ast.If) and len(n.body) == 1 and isinstance(n.body[0], ast.Expr) \
                and isinstance(n.body[0].value, ast.Call) and isinstance(n.body[0].value.func, ast.Attribute) \
                and n.body[0].value.func.attr == "enable_chunking" and not n.orelse:
            found.append(ast.unparse(n.test))
    if len(found) != 1:
        raise TranslatorError(f"_create_writer: expected one `if ...: writer.enable_chunking()`, found {found}")
    t = found[0]
    if t == "self.chunked is not None":
        return t, "match c with Some _ => true | None => false end"
    if t in ("self.chunked", "self.chunked is True"):
        return t, "match c with Some true => true | _ => false end"
    if t == "self.chunked and hdrs.TRANSFER_ENCODING in self.headers":
        return t, "match c with Some true => te | _ => false end"
    raise TranslatorError(f"_create_writer: unrecognised chunking test {t!r}")


_EXP_UTE = '''
def _update_transfer_encoding(self):
    te = self.headers.get(hdrs.TRANSFER_ENCODING, "").lower()
    if "chunked" in te:
        if self.chunked:
            raise ValueError('chunked can not be set if "Transfer-Encoding: chunked" header is set')
    elif self.chunked:
        if hdrs.CONTENT_LENGTH in self.headers:
            raise ValueError("chunked can not be set if Content-Length header is set")
        self.headers[hdrs.TRANSFER_ENCODING] = "chunked"
'''

_EXP_UBD = '''
def _update_body_from_data(self, body):
    if body is None:
        self._body = self._EMPTY_BODY
        if (self.method not in self.GET_METHODS and not self.chunked and hdrs.CONTENT_LENGTH not in self.headers):
            self.headers[hdrs.CONTENT_LENGTH] = "0"
        return
    if isinstance(body, FormData):
        body = body()
    else:
        try:
            body = payload.PAYLOAD_REGISTRY.get(body, disposition=None)
        except payload.LookupError:
            boundary = None
            if hdrs.CONTENT_TYPE in self.headers:
                boundary = parse_mimetype(self.headers[hdrs.CONTENT_TYPE]).parameters.get("boundary")
            body = FormData(body, boundary=boundary)()
    self._body = body
    if not self.chunked and hdrs.CONTENT_LENGTH not in self.headers:
        if (size := body.size) is not None:
            self.headers[hdrs.CONTENT_LENGTH] = str(size)
        else:
            self.chunked = True
    assert body.headers
    headers = self.headers
    skip_headers = self._skip_auto_headers
    for key, value in body.headers.items():
        if key in headers or (skip_headers is not None and key in skip_headers):
            continue
        headers[key] = value
'''

_EXP_CONN = '''
if hdrs.CONNECTION not in self.headers:
    if conn._connector.force_close:
        if v == HttpVersion11:
            self.headers[hdrs.CONNECTION] = "close"
    elif v == HttpVersion10:
        self.headers[hdrs.CONNECTION] = "keep-alive"
'''

_EXP_CT = '''
if (self.method in self.POST_METHODS and (self._skip_auto_headers is None or hdrs.CONTENT_TYPE not in self._skip_auto_headers) and hdrs.CONTENT_TYPE not in self.headers):
    self.headers[hdrs.CONTENT_TYPE] = "application/octet-stream"
'''

_EXP_RESP_CONN = '''
if hdrs.CONNECTION not in headers:
    if keep_alive:
        if version == HttpVersion10:
            headers[hdrs.CONNECTION] = "keep-alive"
    elif version == HttpVersion11:
        headers[hdrs.CONNECTION] = "close"
'''

_EXP_CLOSE_DEFAULT = '''
if close is None:
    if version_o <= HttpVersion10:
        close = True
    elif 100 <= status_i < 200 or status_i in {204, 304}:
        close = False
    elif hdrs.CONTENT_LENGTH in headers or hdrs.TRANSFER_ENCODING in headers:
        close = False
    else:
        close = True
'''


def _stmt_dump(src: str) -> str:
    return ast.dump(ast.parse(ast.unparse(ast.parse(src))).body[0], annotate_fields=False)


def _find_stmt(fn, expected_src, what):
    exp = _stmt_dump(expected_src)
    hits = [n for n in ast.walk(fn) if isinstance(n, ast.stmt)
            and ast.dump(ast.parse(ast.unparse(n)).body[0], annotate_fields=False) == exp]
    if len(hits) != 1:
        raise TranslatorError(f"{what}: the statement the model transcribes was found {len(hits)} times:\n{expected_src}")
    return hits[0]


def _empty_body_status():
    v = core.find_assign("aiohttp/helpers.py", "EMPTY_BODY_STATUS_CODES")
    if not (isinstance(v, ast.Call) and isinstance(v.func, ast.Name) and v.func.id == "frozenset" and len(v.args) == 1
            and isinstance(v.args[0], ast.Tuple)):
        raise TranslatorError("EMPTY_BODY_STATUS_CODES: expected frozenset((...))")
    terms = []
    for e in v.args[0].elts:
        if isinstance(e, ast.Constant) and isinstance(e.value, int):
            terms.append(f"(c =? {e.value})")
        elif isinstance(e, ast.Starred) and isinstance(e.value, ast.Call) and isinstance(e.value.func, ast.Name) \
                and e.value.func.id == "range" and len(e.value.args) == 2 \
                and all(isinstance(a, ast.Constant) and isinstance(a.value, int) for a in e.value.args):
            lo, hi = (a.value for a in e.value.args)
            terms.append(f"(({lo} <=? c) && (c <? {hi}))")
        else:
            raise TranslatorError(f"EMPTY_BODY_STATUS_CODES: unrecognised element {ast.dump(e)}")
    return " || ".join(terms)


def _write_eof_placement():
    """ClientRequest._write_bytes: `await writer.write_eof()` must occur exactly once; inside the `else:` of the
    try around the body write (only after success) -> true; after the try statement (also after a handled
    failure of the body source) -> false; anything else is not recognised."""
    fn = core.find_function(CR, "_write_bytes", cls="ClientRequest")
    def is_eof(n):
        return (isinstance(n, ast.Await) and isinstance(n.value, ast.Call) and isinstance(n.value.func, ast.Attribute)
                and n.value.func.attr == "write_eof")
    total = sum(1 for n in ast.walk(fn) if is_eof(n))
    tries = [n for n in fn.body if isinstance(n, ast.Try)]
    if total != 1 or len(tries) != 1:
        raise TranslatorError(f"_write_bytes: {total} write_eof() calls, {len(tries)} top-level try statements")
    t = tries[0]
    if not any("write_with_length" in ast.unparse(x) for x in t.body):
        raise TranslatorError("_write_bytes: the try does not guard the body write")
    if any(is_eof(n) for x in t.orelse for n in ast.walk(x)):
        return True
    after = fn.body[fn.body.index(t) + 1:]
    if any(is_eof(n) for x in after for n in ast.walk(x)):
        return False
    raise TranslatorError("_write_bytes: write_eof() is neither in the else: of the try nor after it")


def generate() -> str:
    out = []
    test, body = _chunking_test()
    out.append(f"(* ClientRequest._create_writer: `if {test}: writer.enable_chunking()`; c = self.chunked (None / Some bool),\n"
               "   te = a Transfer-Encoding header is in self.headers *)\n"
               f"Definition writer_chunking_enabled (c : option bool) (te : bool) : bool := {body}.\n")
    out.append("(* ClientRequest.GET_METHODS / ClientRequestBase.POST_METHODS *)\n"
               "Definition client_get_methods : list (list N) := [" + "; ".join(core.coq_bytes(m) for m in _meth_set("ClientRequest", "GET_METHODS")) + "].\n"
               "Definition client_post_methods : list (list N) := [" + "; ".join(core.coq_bytes(m) for m in _meth_set("ClientRequestBase", "POST_METHODS")) + "].\n")
    dh = core.find_assign(CR, "DEFAULT_HEADERS", cls="ClientRequest")
    if not (isinstance(dh, ast.Dict) and len(dh.keys) == 2 and ast.unparse(dh.keys[0]) == "hdrs.ACCEPT"
            and ast.unparse(dh.keys[1]) == "hdrs.ACCEPT_ENCODING" and isinstance(dh.values[0], ast.Constant)):
        raise TranslatorError("ClientRequest.DEFAULT_HEADERS: expected {hdrs.ACCEPT: <literal>, hdrs.ACCEPT_ENCODING: ...}")
    out.append(f"(* DEFAULT_HEADERS[hdrs.ACCEPT]; the Accept-Encoding and User-Agent defaults depend on the installation and are inputs *)\n"
               f"Definition default_accept : list N := {core.coq_bytes(dh.values[0].value)}.\n")
    _expect_fn(CR, "_update_transfer_encoding", "ClientRequest", _EXP_UTE, "Model/Wire.v (update_transfer_encoding)")
    _expect_fn(CR, "_update_body_from_data", "ClientRequest", _EXP_UBD, "Model/Wire.v (update_body)")
    send = core.find_function(CR, "_send", cls="ClientRequestBase")
    _find_stmt(send, _EXP_CONN, "ClientRequestBase._send Connection block")
    ct = _find_stmt(send, _EXP_CT, "ClientRequestBase._send default Content-Type")
    out.append(f"Definition default_content_type : list N := {core.coq_bytes(ct.body[0].value.value)}.\n")
    out.append(f"(* helpers.EMPTY_BODY_STATUS_CODES *)\nDefinition empty_body_status (c : N) : bool := {_empty_body_status()}.\n")
    ph = core.find_function("aiohttp/web_response.py", "_prepare_headers", cls="StreamResponse")
    _find_stmt(ph, _EXP_RESP_CONN, "StreamResponse._prepare_headers Connection block")
    locals_cleared = [ast.unparse(n) for n in ast.walk(ph) if isinstance(n, ast.Assign)
                      and any(isinstance(t, ast.Name) and t.id == "keep_alive" for t in n.targets)
                      and isinstance(n.value, ast.Constant) and n.value.value is False]
    if locals_cleared != ["keep_alive = False"]:
        raise TranslatorError(f"_prepare_headers: expected exactly one `keep_alive = False`, found {locals_cleared}")
    # does the HTTP/1.0-without-length branch also clear the STORED decision (what web_protocol reads)?
    #  - directly: `self._keep_alive = False` next to `keep_alive = False`;
    #  - at the end of the body: the branch sets `self._close_delimited = True` and write_eof() does
    #    `if self._close_delimited: self._keep_alive = False`;
    #  - not at all (the local only selects the Connection header).
    def _branch_of_local_clear():
        for n in ast.walk(ph):
            if isinstance(n, ast.If):
                for blk in (n.body, n.orelse):
                    if any(isinstance(x, ast.Assign) and ast.unparse(x) == "keep_alive = False" for x in blk):
                        return [ast.unparse(x) for x in blk]
        raise TranslatorError("_prepare_headers: branch of `keep_alive = False` not found")
    branch = _branch_of_local_clear()
    stores = [ast.unparse(n) for n in ast.walk(ph) if isinstance(n, ast.Assign)
              and any(ast.unparse(t) == "self._keep_alive" for t in n.targets)]
    weof = core.find_function("aiohttp/web_response.py", "write_eof", cls="StreamResponse")
    eof_clear = [ast.unparse(n) for n in ast.walk(weof) if isinstance(n, ast.If)
                 and ast.unparse(n.test) == "self._close_delimited" and not n.orelse
                 and [ast.unparse(x) for x in n.body] == ["self._keep_alive = False"]]
    marks = [ast.unparse(n) for n in ast.walk(ph) if isinstance(n, ast.Assign)
             and any(ast.unparse(t) == "self._close_delimited" for t in n.targets)]
    if stores == ["self._keep_alive = keep_alive"] and not marks and not eof_clear:
        cleared, how = False, "not cleared: `keep_alive = False` only changes the local that selects the Connection header"
    elif stores == ["self._keep_alive = keep_alive"] and marks == ["self._close_delimited = True"] \
            and "self._close_delimited = True" in branch and len(eof_clear) == 1:
        cleared, how = True, "cleared by write_eof() at the end of the close-delimited body (self._close_delimited)"
    elif sorted(stores) == ["self._keep_alive = False", "self._keep_alive = keep_alive"] and "self._keep_alive = False" in branch:
        cleared, how = True, "cleared in _prepare_headers next to the local"
    else:
        raise TranslatorError(f"_prepare_headers/write_eof: unrecognised keep-alive stores {stores}, marks {marks}, write_eof {eof_clear}")
    out.append("(* StreamResponse, HTTP/1.0 response with a body and no length: the decision web_protocol reads (self._keep_alive) is\n"
               f"   {how} *)\n"
               f"Definition h10_nolength_clears_stored_keepalive : bool := {'true' if cleared else 'false'}.\n")
    # Expect: 100-continue: when does the client create the waiter, when does the server send the 100?
    ue = core.find_function(CR, "_update_expect_continue", cls="ClientRequest")
    conds = [ast.unparse(n.test) for n in ast.walk(ue) if isinstance(n, ast.If)
             and any("self._continue = " in ast.unparse(x) for x in n.body)]
    if conds == ["expect and self.version >= HttpVersion11"]:
        waiter = "expect && v11"
    elif conds == ["expect"]:
        waiter = "expect"
    else:
        raise TranslatorError(f"_update_expect_continue: unrecognised waiter condition {conds}")
    eh = core.find_function("aiohttp/web_urldispatcher.py", "_default_expect_handler")
    tests = [ast.unparse(n.test) for n in ast.walk(eh) if isinstance(n, ast.If)]
    if tests != ["request.version == HttpVersion11", "expect.lower() == '100-continue'"]:
        raise TranslatorError(f"_default_expect_handler: unrecognised tests {tests}")
    out.append("(* ClientRequest._update_expect_continue creates the 100-continue waiter under this condition; the server's default\n"
               "   expect handler writes `100 Continue` only for an HTTP/1.1 request *)\n"
               f"Definition continue_waiter_created (expect v11 : bool) : bool := {waiter}.\n"
               "Definition server_sends_100 (expect v11 : bool) : bool := expect && v11.\n")
    pm = core.find_function("aiohttp/http_parser.py", "parse_message", cls="HttpResponseParser")
    _find_stmt(pm, _EXP_CLOSE_DEFAULT, "HttpResponseParser.parse_message close default")
    fd = core.find_function("aiohttp/http_parser.py", "feed_data", cls="HttpParser")
    eb = [ast.unparse(n.value) for n in ast.walk(fd) if isinstance(n, ast.Assign) and len(n.targets) == 1
          and isinstance(n.targets[0], ast.Name) and n.targets[0].id == "empty_body"]
    if eb != ["code in EMPTY_BODY_STATUS_CODES or bool(code and method and (method in EMPTY_BODY_METHODS))"]:
        raise TranslatorError(f"feed_data: empty_body rule is {eb}")
    out.append("(* feed_data: empty_body = code in EMPTY_BODY_STATUS_CODES or bool(code and method and method in EMPTY_BODY_METHODS) *)\n"
               "Definition response_empty_body_rule_is_status_or_head : bool := true.\n")
    send_src = ast.unparse(send)
    sets_len = "writer.length = content_length" in send_src and "content_length = self._get_content_length()" in send_src
    wb = ast.unparse(core.find_function(CR, "_write_bytes", cls="ClientRequest"))
    short_raise = ("missing = writer.length if content_length is not None else None" in wb
                   and "if type(missing) is int and missing > 0:" in wb and "raise ClientPayloadError" in wb)
    if sets_len != short_raise:
        raise TranslatorError(f"_send sets writer.length: {sets_len}; _write_bytes raises on a shortfall: {short_raise}")
    out.append("(* ClientRequestBase._send: `writer.length = content_length` before the body is written, and _write_bytes raises\n"
               "   ClientPayloadError (no write_eof) when the body source ended short of the declared Content-Length *)\n"
               f"Definition client_counts_declared_length : bool := {'true' if sets_len else 'false'}.\n")
    sw = core.find_function(CR, "_should_write", cls="ClientRequest")
    rets = [ast.unparse(n.value) for n in ast.walk(sw) if isinstance(n, ast.Return)]
    old_sw = "self.body.size != 0 or self._continue is not None or protocol.writing_paused"
    new_sw = "self.body.size != 0 or self.headers.get(hdrs.CONTENT_LENGTH, '0') != '0' or self._continue is not None or protocol.writing_paused"
    if rets == [old_sw]:
        on_len = False
    elif rets == [new_sw]:
        on_len = True
    else:
        raise TranslatorError(f"ClientRequest._should_write: unrecognised return {rets}")
    out.append("(* ClientRequest._should_write: body.size != 0 [or the head carries a Content-Length other than \"0\"] (or Expect /\n"
               "   paused transport, not modelled) *)\n"
               f"Definition should_write_on_declared_length : bool := {'true' if on_len else 'false'}.\n")
    ok = _write_eof_placement()
    out.append("(* ClientRequest._write_bytes: writer.write_eof() runs only in the `else:` of the try around the body write,\n"
               "   i.e. not after a handled OSError / Exception of the body source *)\n"
               f"Definition write_eof_only_after_success : bool := {'true' if ok else 'false'}.\n")
    return "\n".join(out)
