"""aiohttp/client.py (ClientSession._request redirect loop), helpers.py -> Generated/RedirectGen.v

Data-like parts of the redirect loop are regenerated from the source text on every run:
  * the redirect status tuple and that it is and-ed with `allow_redirects`,
  * the `max_redirects and redirects >= max_redirects` test (comparison operator recorded),
  * the boolean formula that switches the method to GET and drops the body,
  * HTTP_AND_EMPTY_SCHEMA_SET (as a predicate over scheme codes),
  * ast shape checks (fail-closed) of: the origin comparison guarding exactly the three `popall`
    calls + `cookies = None`; what the GET branch clears; the consumed-body refusal;
    strip_auth_from_url; the first-hop Authorization conflict.
Control flow (order of the checks, what is released/closed where) is hand-modelled in
coq/Model/Redirect.v and tied by the correspondence harness.
"""
import ast

from . import core
from .core import TranslatorError

OUTPUT = "RedirectGen.v"
ITEMS = ["redirect_statuses", "follow_redirect (status tuple and allow_redirects)", "too_many_redirects formula",
         "switch_to_get formula", "scheme_allowed (HTTP_AND_EMPTY_SCHEMA_SET)", "origin-change block shape",
         "GET-branch assignments shape", "consumed-body refusal shape", "strip_auth_from_url shape",
         "first-hop Authorization conflict shape", "counter/history update order"]

CLIENT = "aiohttp/client.py"
HELPERS = "aiohttp/helpers.py"

# scheme codes shared with coq/Model/Redirect.v and harness/c17.py
SCHEME_CODES = {"http": 0, "https": 1, "ws": 2, "wss": 3, "ftp": 4, "mailto": 5, "file": 6}


def _request_fn():
    return core.find_function(CLIENT, "_request", cls="ClientSession")


def _unparse(n):
    return ast.unparse(n)


def _is_attr(n, base, attr):
    return isinstance(n, ast.Attribute) and n.attr == attr and isinstance(n.value, ast.Name) and n.value.id == base


def _bool_formula(node, atoms):
    """and/or/not over atoms; an atom is recognised by `atoms(node) -> coq text | None`."""
    a = atoms(node)
    if a is not None:
        return a
    if isinstance(node, ast.BoolOp):
        op = " && " if isinstance(node.op, ast.And) else " || "
        return "(" + op.join(_bool_formula(v, atoms) for v in node.values) + ")"
    if isinstance(node, ast.UnaryOp) and isinstance(node.op, ast.Not):
        return f"(negb {_bool_formula(node.operand, atoms)})"
    raise TranslatorError(f"boolean formula: unsupported {_unparse(node)[:200]}")


def _status_atom(node):
    """resp.status == K | resp.status in (K1, K2, ...)"""
    if isinstance(node, ast.Compare) and len(node.ops) == 1 and _is_attr(node.left, "resp", "status"):
        op, rhs = node.ops[0], node.comparators[0]
        if isinstance(op, ast.Eq):
            v = core.literal(rhs)
            if not isinstance(v, int):
                raise TranslatorError("status compared with a non-integer")
            return f"(status =? {v})"
        if isinstance(op, ast.NotEq):
            v = core.literal(rhs)
            return f"(negb (status =? {int(v)}))"
        if isinstance(op, ast.In):
            vs = core.literal(rhs)
            if not all(isinstance(x, int) for x in vs):
                raise TranslatorError("status tuple with non-integers")
            return f"(memN status {core.coq_N_list(vs)})"
        if isinstance(op, ast.NotIn):
            vs = core.literal(rhs)
            return f"(negb (memN status {core.coq_N_list(vs)}))"
    return None


_METH = {"METH_HEAD": "is_head", "METH_POST": "is_post", "METH_GET": "is_get"}


def _method_atom(node):
    """resp.method == hdrs.METH_X | resp.method != hdrs.METH_X"""
    if isinstance(node, ast.Compare) and len(node.ops) == 1 and _is_attr(node.left, "resp", "method"):
        rhs = node.comparators[0]
        if not (isinstance(rhs, ast.Attribute) and isinstance(rhs.value, ast.Name) and rhs.value.id == "hdrs" and rhs.attr in _METH):
            raise TranslatorError(f"method compared with {_unparse(rhs)}")
        v = _METH[rhs.attr]
        if isinstance(node.ops[0], ast.Eq):
            return v
        if isinstance(node.ops[0], ast.NotEq):
            return f"(negb {v})"
        raise TranslatorError("method comparison operator")
    return None


def _find_ifs(fn, pred):
    return [n for n in ast.walk(fn) if isinstance(n, ast.If) and pred(n)]


def _one(xs, what):
    if len(xs) != 1:
        raise TranslatorError(f"{what}: expected exactly one occurrence, found {len(xs)}")
    return xs[0]


def _redirect_if(fn):
    """`if resp.status in (...) and allow_redirects:`"""
    def pred(n):
        t = n.test
        return (isinstance(t, ast.BoolOp) and any(isinstance(v, ast.Name) and v.id == "allow_redirects" for v in t.values))
    return _one(_find_ifs(fn, pred), "redirect test")


def _gen_follow(fn):
    node = _redirect_if(fn)

    def atoms(n):
        if isinstance(n, ast.Name) and n.id == "allow_redirects":
            return "allow"
        return _status_atom(n)
    text = _bool_formula(node.test, atoms)
    # the status tuple itself
    tuples = [c for c in ast.walk(node.test) if isinstance(c, ast.Compare) and _is_attr(c.left, "resp", "status")]
    t = _one(tuples, "redirect status tuple")
    if not isinstance(t.ops[0], ast.In):
        raise TranslatorError("redirect status test is not `in (...)`")
    statuses = list(core.literal(t.comparators[0]))
    return node, statuses, text


def _gen_too_many(redirect_if):
    def pred(n):
        return "max_redirects" in _unparse(n.test)
    node = _one([n for n in ast.walk(redirect_if) if isinstance(n, ast.If) and pred(n)], "max_redirects test")

    def atoms(n):
        if isinstance(n, ast.Name) and n.id == "max_redirects":
            return "(negb (max_redirects =? 0))"
        if isinstance(n, ast.Compare):
            return core.comparison(n, {"redirects": "redirects", "max_redirects": "max_redirects", "__scope__": "Z"})
        return None
    text = _bool_formula(node.test, atoms)
    # the branch must raise TooManyRedirects after closing the response
    calls = [_unparse(s) for s in node.body]
    if not any(isinstance(s, ast.Raise) and "TooManyRedirects" in _unparse(s) for s in node.body):
        raise TranslatorError("max_redirects branch does not raise TooManyRedirects")
    if not any(c.strip() == "resp.close()" for c in calls):
        raise TranslatorError("max_redirects branch does not close the response")
    return node, text


def _check_counter_order(redirect_if, too_many_if):
    """redirects += 1 ; history.append(resp) ; if max_redirects ... — in this order, before the table."""
    body = redirect_if.body
    texts = [_unparse(s) for s in body]
    try:
        i_inc = texts.index("redirects += 1")
        i_hist = texts.index("history.append(resp)")
        i_tm = body.index(too_many_if)
    except ValueError as e:
        raise TranslatorError(f"redirect branch: counter/history statements not found: {e}")
    if not (i_inc < i_tm and i_hist < i_tm):
        raise TranslatorError("redirect branch: the counter / history update no longer precedes the max_redirects test")
    return i_tm


def _gen_table(redirect_if, i_tm):
    body = redirect_if.body
    node = None
    for s in body[i_tm + 1:]:
        if isinstance(s, ast.If):
            node = s
            break
    if node is None or "resp.method" not in _unparse(node.test):
        raise TranslatorError("method/body table: the `if` after the max_redirects test is not the table")

    def atoms(n):
        return _status_atom(n) or _method_atom(n)
    text = _bool_formula(node.test, atoms)
    # GET branch: method = hdrs.METH_GET ; data = None ; optional pop of Content-Length
    tb = [_unparse(s) for s in node.body]
    if "method = hdrs.METH_GET" not in tb or "data = None" not in tb:
        raise TranslatorError(f"method/body table: GET branch is {tb}")
    extra = [t for t in tb if t not in ("method = hdrs.METH_GET", "data = None")]
    if len(extra) != 1 or "CONTENT_LENGTH" not in extra[0] or "headers.pop" not in extra[0]:
        raise TranslatorError(f"method/body table: unexpected statements in GET branch: {extra}")
    # else branch: consumed refusal, then data = req._body; method untouched
    eb = node.orelse
    et = [_unparse(s) for s in eb]
    if len(eb) != 2 or not isinstance(eb[0], ast.If) or _unparse(eb[0].test) != "req._body.consumed" or et[1] != "data = req._body":
        raise TranslatorError(f"method/body table: else branch is {et}")
    ref = [_unparse(s) for s in eb[0].body]
    if not (len(ref) == 2 and ref[0] == "resp.close()" and ref[1].startswith("raise ClientPayloadError")) or eb[0].orelse:
        raise TranslatorError(f"consumed-body refusal is {ref}")
    if any(isinstance(x, (ast.Assign, ast.AugAssign)) and "method" in _unparse(x).split("=")[0] for x in ast.walk(ast.Module(body=eb, type_ignores=[]))):
        raise TranslatorError("else branch assigns the method")
    return text


def _gen_schemes(fn):
    # the test in _request
    tests = [n for n in ast.walk(fn) if isinstance(n, ast.If) and "HTTP_AND_EMPTY_SCHEMA_SET" in _unparse(n.test)]
    node = _one(tests, "redirect scheme test")
    if _unparse(node.test) != "scheme not in HTTP_AND_EMPTY_SCHEMA_SET":
        raise TranslatorError(f"redirect scheme test is `{_unparse(node.test)}`")
    if not any(isinstance(s, ast.Raise) and "NonHttpUrlRedirectClientError" in _unparse(s) for s in node.body):
        raise TranslatorError("redirect scheme test does not raise NonHttpUrlRedirectClientError")
    if len(node.orelse) != 1 or not isinstance(node.orelse[0], ast.If) or _unparse(node.orelse[0].test) != "not scheme" \
            or [_unparse(s) for s in node.orelse[0].body] != ["parsed_redirect_url = url.join(parsed_redirect_url)"]:
        raise TranslatorError("redirect scheme test: the empty-scheme branch is not `url.join(parsed_redirect_url)`")
    # the set itself: unions of frozenset literals in helpers.py
    def setval(name, seen=()):
        if name in seen:
            raise TranslatorError("cyclic scheme set")
        v = core.find_assign(HELPERS, name)
        return ev(v, seen + (name,))

    def ev(v, seen):
        if isinstance(v, ast.BinOp) and isinstance(v.op, ast.BitOr):
            return ev(v.left, seen) | ev(v.right, seen)
        if isinstance(v, ast.Name):
            return setval(v.id, seen)
        return frozenset(core.literal(v))
    s = setval("HTTP_AND_EMPTY_SCHEMA_SET")
    if "" not in s:
        raise TranslatorError("HTTP_AND_EMPTY_SCHEMA_SET no longer contains the empty scheme (relative redirects)")
    codes = []
    for name in sorted(s - {""}):
        if name not in SCHEME_CODES:
            raise TranslatorError(f"scheme {name!r} has no code in the model")
        codes.append(SCHEME_CODES[name])
    return sorted(codes)


def _check_origin_block(fn):
    def pred(n):
        return "origin()" in _unparse(n.test)
    node = _one(_find_ifs(fn, pred), "origin comparison")
    if _unparse(node.test) != "url.origin() != redirect_origin":
        raise TranslatorError(f"origin comparison is `{_unparse(node.test)}`")
    got = sorted(_unparse(s) for s in node.body)
    want = sorted(["cookies = None", "headers.popall(hdrs.AUTHORIZATION, None)", "headers.popall(hdrs.COOKIE, None)",
                   "headers.popall(hdrs.PROXY_AUTHORIZATION, None)"])
    if got != want or node.orelse:
        raise TranslatorError(f"origin-change block is {got}")
    # redirect_origin = parsed_redirect_url.origin() inside a try
    assigns = [n for n in ast.walk(fn) if isinstance(n, ast.Assign) and _unparse(n.targets[0]) == "redirect_origin"]
    a = _one(assigns, "redirect_origin assignment")
    if _unparse(a.value) != "parsed_redirect_url.origin()":
        raise TranslatorError(f"redirect_origin = {_unparse(a.value)}")


def _check_strip_auth(fn):
    f = core.find_function(HELPERS, "strip_auth_from_url")
    body = [s for s in f.body if not (isinstance(s, ast.Expr) and isinstance(s.value, ast.Constant))]
    texts = [_unparse(s) for s in body]
    want = ["if url.raw_user is None and url.raw_password is None:\n    return (url, None)",
            "return (url.with_user(None), encode_basic_auth(url.user or '', url.password or ''))"]
    if texts != want:
        raise TranslatorError("strip_auth_from_url changed:\n" + "\n".join(texts))
    # use in the loop: first statement of the while body
    loops = [n for n in ast.walk(fn) if isinstance(n, ast.While)]
    w = _one(loops, "request loop")
    if _unparse(w.body[0]) != "url, auth_from_url = strip_auth_from_url(url)":
        raise TranslatorError("the loop no longer starts with strip_auth_from_url(url)")
    ifs = [n for n in w.body if isinstance(n, ast.If) and _unparse(n.test) == "auth_from_url is not None"]
    node = _one(ifs, "auth_from_url test")
    tb = node.body
    if len(tb) != 2 or not isinstance(tb[0], ast.If) or _unparse(tb[0].test) != "not history and hdrs.AUTHORIZATION in headers" \
            or not isinstance(tb[0].body[0], ast.Raise) or "ValueError" not in _unparse(tb[0].body[0]) \
            or _unparse(tb[1]) != "headers[hdrs.AUTHORIZATION] = auth_from_url":
        raise TranslatorError("URL-credential block changed: " + _unparse(node)[:400])


def generate() -> str:
    fn = _request_fn()
    out = []
    redirect_if, statuses, follow = _gen_follow(fn)
    out.append(f"(* client.py ClientSession._request: `{_unparse(redirect_if.test)}` *)\n"
               f"Definition redirect_statuses : list N := {core.coq_N_list(statuses)}.\n"
               f"Definition follow_redirect (status : N) (allow : bool) : bool := {follow}.\n")
    tm_if, tm = _gen_too_many(redirect_if)
    out.append(f"(* `{_unparse(tm_if.test)}` (evaluated after `redirects += 1`) *)\n"
               f"Definition too_many_redirects (redirects max_redirects : Z) : bool := ({tm})%Z.\n")
    i_tm = _check_counter_order(redirect_if, tm_if)
    table = _gen_table(redirect_if, i_tm)
    out.append("(* the test that switches the method to GET, drops the body and a caller Content-Length *)\n"
               f"Definition switch_to_get (status : N) (is_head is_post is_get : bool) : bool := {table}.\n")
    codes = _gen_schemes(fn)
    out.append("(* helpers.HTTP_AND_EMPTY_SCHEMA_SET minus the empty scheme, as scheme codes "
               + ", ".join(f"{k}={v}" for k, v in SCHEME_CODES.items()) + " *)\n"
               f"Definition scheme_allowed (s : N) : bool := memN s {core.coq_N_list(codes)}.\n")
    _check_origin_block(fn)
    _check_strip_auth(fn)
    return "From AV Require Import Lib.Base.\n" + "\n".join(out)
