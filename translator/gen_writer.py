"""aiohttp/http_writer.py, client_reqrep.py, web_response.py -> Generated/WriterGen.v"""
import ast

from . import core
from .core import TranslatorError

OUTPUT = "WriterGen.v"
ITEMS = ["forbidden_header_char", "safe_header shape", "serialize_headers shape",
         "method_nontoken_char", "reason check shape", "MIN_PAYLOAD_FOR_WRITELINES"]


def _check_safe_header():
    """_safe_header must be: if RE.search(string) is not None: raise ValueError ; return string"""
    fn = core.find_function("aiohttp/http_writer.py", "_safe_header")
    body = [s for s in fn.body if not (isinstance(s, ast.Expr) and isinstance(s.value, ast.Constant))]
    if len(body) != 2 or not isinstance(body[0], ast.If) or not isinstance(body[1], ast.Return):
        raise TranslatorError("_safe_header: unexpected statement shape")
    t = body[0].test
    ok = (isinstance(t, ast.Compare) and len(t.ops) == 1 and isinstance(t.ops[0], ast.IsNot)
          and isinstance(t.comparators[0], ast.Constant) and t.comparators[0].value is None
          and isinstance(t.left, ast.Call) and isinstance(t.left.func, ast.Attribute)
          and t.left.func.attr == "search" and isinstance(t.left.func.value, ast.Name)
          and t.left.func.value.id == "_FORBIDDEN_HEADER_CHARS_RE"
          and len(t.left.args) == 1 and isinstance(t.left.args[0], ast.Name) and t.left.args[0].id == fn.args.args[0].arg)
    if not ok:
        raise TranslatorError("_safe_header: test is not `_FORBIDDEN_HEADER_CHARS_RE.search(string) is not None`")
    if not (len(body[0].body) == 1 and isinstance(body[0].body[0], ast.Raise) and not body[0].orelse):
        raise TranslatorError("_safe_header: the if-branch must only raise")
    r = body[1].value
    if not (isinstance(r, ast.Name) and r.id == fn.args.args[0].arg):
        raise TranslatorError("_safe_header: must return its argument")


_EXPECTED_SERIALIZE = '''
def _py_serialize_headers(status_line, headers):
    _safe_header(status_line)
    headers_gen = (_safe_header(k) + ": " + _safe_header(v) for k, v in headers.items())
    line = status_line + "\\r\\n" + "\\r\\n".join(headers_gen) + "\\r\\n\\r\\n"
    return line.encode("utf-8")
'''


def _strip_ann(fn: ast.FunctionDef) -> str:
    fn = ast.parse(ast.unparse(fn)).body[0]
    fn.returns = None
    for a in fn.args.args:
        a.annotation = None
    return ast.dump(fn, annotate_fields=False)


def _check_serialize():
    fn = core.find_function("aiohttp/http_writer.py", "_py_serialize_headers")
    exp = ast.parse(_EXPECTED_SERIALIZE).body[0]
    if _strip_ann(fn) != _strip_ann(exp):
        raise TranslatorError("_py_serialize_headers differs from the shape the model Writer.serialize_headers transcribes:\n" + ast.unparse(fn))
    # the name bound to _serialize_headers by default must be the python one
    v = core.find_assign("aiohttp/http_writer.py", "_serialize_headers")
    if not (isinstance(v, ast.Name) and v.id == "_py_serialize_headers"):
        raise TranslatorError("_serialize_headers is not bound to _py_serialize_headers")


def _check_reason():
    """StreamResponse._set_status: elif "\\r" in reason or "\\n" in reason: raise ValueError"""
    fn = core.find_function("aiohttp/web_response.py", "_set_status", cls="StreamResponse")
    found = []
    for n in ast.walk(fn):
        if isinstance(n, ast.If) and isinstance(n.test, ast.BoolOp) and isinstance(n.test.op, ast.Or):
            chars = []
            for v in n.test.values:
                if (isinstance(v, ast.Compare) and len(v.ops) == 1 and isinstance(v.ops[0], ast.In)
                        and isinstance(v.left, ast.Constant) and isinstance(v.left.value, str) and len(v.left.value) == 1
                        and isinstance(v.comparators[0], ast.Name) and v.comparators[0].id == "reason"):
                    chars.append(ord(v.left.value))
                else:
                    raise TranslatorError("_set_status: unexpected disjunct in reason test")
            if not (len(n.body) == 1 and isinstance(n.body[0], ast.Raise)):
                raise TranslatorError("_set_status: reason test must raise")
            found.append(sorted(chars))
    if len(found) != 1:
        raise TranslatorError(f"_set_status: expected exactly one `c in reason or ...` test, found {len(found)}")
    return found[0]


def generate() -> str:
    out = []
    pat, flags, _ = core.regex_source(core.find_assign("aiohttp/http_writer.py", "_FORBIDDEN_HEADER_CHARS_RE"))
    cc = core.charclass(pat, flags)
    if cc["quant"] != "one":
        raise TranslatorError("_FORBIDDEN_HEADER_CHARS_RE: expected a single class")
    out.append(core.charclass_coq("forbidden_header_char", cc, f"http_writer._FORBIDDEN_HEADER_CHARS_RE = {pat!r}, used with .search"))
    _check_safe_header()
    _check_serialize()
    pat, flags, _ = core.regex_source(core.find_assign("aiohttp/client_reqrep.py", "_CONTAINS_CONTROL_CHAR_RE"))
    cc = core.charclass(pat, flags)
    if cc["quant"] != "one":
        raise TranslatorError("_CONTAINS_CONTROL_CHAR_RE: expected a single class")
    modes = core.call_modes("aiohttp/client_reqrep.py", "_CONTAINS_CONTROL_CHAR_RE")
    if modes != ["search"]:
        raise TranslatorError(f"_CONTAINS_CONTROL_CHAR_RE used with {modes}, expected only search")
    out.append(core.charclass_coq("method_nontoken_char", cc, f"client_reqrep._CONTAINS_CONTROL_CHAR_RE = {pat!r}, used with .search on the method"))
    chars = _check_reason()
    out.append(f"(* web_response.StreamResponse._set_status rejects a reason containing any of these *)\nDefinition reason_forbidden_chars : list N := {core.coq_N_list(chars)}.\n")
    v = core.literal(core.find_assign("aiohttp/http_writer.py", "MIN_PAYLOAD_FOR_WRITELINES"))
    out.append(f"Definition MIN_PAYLOAD_FOR_WRITELINES : N := {int(v)}.\n")
    return "\n".join(out)
