"""aiohttp/http_parser.py (HttpResponseParser, lax mode) + helpers.py -> Generated/HttpRespGen.v

Constants and decision rules the response-parser model (coq/Model/HttpResp.v) takes from the source:
status codes without a body, the lax field-value check, the status-code syntax, the defaults of the
`close` flag, the lax line ending conventions.  Value-bearing pieces are extracted; everything else is
an ast shape check.  Anything unrecognised raises TranslatorError (fail closed).
"""
import ast

from . import core
from .core import TranslatorError

OUTPUT = "HttpRespGen.v"
ITEMS = ["EMPTY_BODY_STATUS_CODES", "lax field-value check", "status code syntax", "close defaults",
         "lax = not DEBUG / SEP", "rstrip(CR) of lax lines and their measured length (last CR not counted)", "lax chunk-size strip", "optional CR skipping",
         "response _is_chunked_te", "obs-fold accounting", "feed_eof rules", "response_with_body / read_until_eof"]
P = "aiohttp/http_parser.py"


def _int(node):
    if isinstance(node, ast.Constant) and type(node.value) is int:
        return node.value
    raise TranslatorError(f"integer literal expected: {ast.unparse(node)}")


def _int_set(node):
    if not isinstance(node, ast.Set):
        raise TranslatorError(f"set display expected: {ast.unparse(node)}")
    return sorted(_int(e) for e in node.elts)


def _membership(codes, ranges, var="c"):
    parts = [f"({var} =? {c})" for c in codes] + [f"(({lo} <=? {var}) && ({var} <? {hi}))" for lo, hi in ranges]
    return " || ".join(parts) if parts else "false"


def _flat(txt):
    """the text with every line's indentation removed (so that multi-line expectations do not depend on nesting)"""
    return "\n".join(l.strip() for l in txt.splitlines())


def _only(nodes, what):
    if len(nodes) != 1:
        raise TranslatorError(f"{what}: found {len(nodes)} times")
    return nodes[0]


def _expect(txt, want, what):
    if txt != want:
        raise TranslatorError(f"{what}: unrecognised shape: {txt!r} (model assumes {want!r})")


def _empty_body_status_codes():
    v = core.find_assign("aiohttp/helpers.py", "EMPTY_BODY_STATUS_CODES")
    if not (isinstance(v, ast.Call) and isinstance(v.func, ast.Name) and v.func.id == "frozenset" and len(v.args) == 1
            and isinstance(v.args[0], (ast.Tuple, ast.List, ast.Set))):
        raise TranslatorError("EMPTY_BODY_STATUS_CODES: frozenset((...)) expected")
    codes, ranges = [], []
    for e in v.args[0].elts:
        if isinstance(e, ast.Starred):
            c = e.value
            if not (isinstance(c, ast.Call) and isinstance(c.func, ast.Name) and c.func.id == "range" and len(c.args) == 2):
                raise TranslatorError("EMPTY_BODY_STATUS_CODES: *range(lo, hi) expected")
            ranges.append((_int(c.args[0]), _int(c.args[1])))
        else:
            codes.append(_int(e))
    return sorted(codes), sorted(ranges)


def _lax_value_check():
    fn = core.find_function(P, "parse_headers", cls="HeadersParser")
    ifs = [n for n in ast.walk(fn) if isinstance(n, ast.If) and ast.unparse(n.test) == "self._lax"
           and len(n.body) == 1 and isinstance(n.body[0], ast.If)]
    top = _only(ifs, "HeadersParser.parse_headers: `if self._lax:` guarding the value check")
    inner = top.body[0]
    if not (len(inner.body) == 1 and isinstance(inner.body[0], ast.Raise)
            and ast.unparse(inner.body[0]) == "raise InvalidHeader(bvalue)"):
        raise TranslatorError("lax value check must raise InvalidHeader(bvalue)")
    test = inner.test
    terms = test.values if isinstance(test, ast.BoolOp) and isinstance(test.op, ast.Or) else [test]
    chars = []
    for t in terms:
        if not (isinstance(t, ast.Compare) and len(t.ops) == 1 and isinstance(t.ops[0], ast.In)
                and isinstance(t.left, ast.Constant) and isinstance(t.left.value, str) and len(t.left.value) == 1
                and ast.unparse(t.comparators[0]) == "value"):
            raise TranslatorError(f"lax value check: unrecognised term {ast.unparse(t)}")
        chars.append(ord(t.left.value))
    if any(c >= 128 for c in chars):
        raise TranslatorError("lax value check: non-ASCII character (the model checks bytes)")
    # the strict branch must still be the CTL regex (so that `lax` is what selects this check)
    if not (len(top.orelse) == 1 and isinstance(top.orelse[0], ast.If)
            and ast.unparse(top.orelse[0].test) == "_FIELD_VALUE_FORBIDDEN_CTL_RE.search(value)"):
        raise TranslatorError("value check: strict branch is not the CTL regex search")
    # value = bvalue.strip(b' \t') decoded with surrogateescape
    if "bvalue = bvalue.strip(b' \\t')" not in ast.unparse(fn) or \
            "value = bvalue.decode('utf-8', 'surrogateescape')" not in ast.unparse(fn):
        raise TranslatorError("parse_headers: value is not bvalue.strip(b' \\t') decoded utf-8/surrogateescape")
    # singleton duplicates are only rejected in strict mode
    if "if not self._lax and name in headers and (name.lower() in SINGLETON_HEADERS):" not in ast.unparse(fn):
        raise TranslatorError("parse_headers: the duplicate-singleton check is no longer `not self._lax and ...`")
    return sorted(chars)


def _fold_accounting():
    fn = core.find_function(P, "parse_headers", cls="HeadersParser")
    txt = ast.unparse(fn)
    for want in ("continuation = self._lax and line and (line[0] in (32, 9))",
                 "header_length = len(bvalue)",
                 "header_length += len(line)",
                 "if header_length > self.max_field_size:",
                 "bvalue_lst.append(line)",
                 "bvalue = b''.join(bvalue_lst)",
                 "bvalue = bvalue.lstrip(b' \\t')",
                 "if {bname[0], bname[-1]} & {32, 9}:",
                 "bname, bvalue = line.split(b':', 1)"):
        if want not in txt:
            raise TranslatorError(f"HeadersParser.parse_headers: expected statement missing: {want}")
    w = _only([n for n in ast.walk(fn) if isinstance(n, ast.While) and ast.unparse(n.test) == "continuation"],
              "parse_headers: `while continuation:`")
    body = [ast.unparse(s).split("\n")[0] for s in w.body]
    _expect(body, ["header_length += len(line)", "if header_length > self.max_field_size:", "bvalue_lst.append(line)",
                   "lines_idx += 1", "if lines_idx < line_count:"], "continuation loop")
    chk = w.body[1]
    if not any(isinstance(s, ast.Raise) and ast.unparse(s).startswith("raise LineTooLong(") for s in chk.body):
        raise TranslatorError("continuation loop: the length check does not raise LineTooLong")


def _status_syntax():
    fn = core.find_function(P, "parse_message", cls="HttpResponseParser")
    txt = ast.unparse(fn)
    for want in ("line = lines[0].decode('utf-8', 'surrogateescape')",
                 "version, status = line.split(maxsplit=1)",
                 "status, reason = status.split(maxsplit=1)",
                 "status = status.strip()",
                 "reason = ''",
                 "match = VERSRE.fullmatch(version)",
                 "status_i = int(status)",
                 "version_o = HttpVersion(int(match.group(1)), int(match.group(2)))",
                 "headers, raw_headers, close, compression, upgrade, chunked = self.parse_headers(lines[1:])",
                 "return RawResponseMessage(version_o, status_i, reason.strip(), headers, raw_headers, close, compression, upgrade, chunked)"):
        if want not in txt:
            raise TranslatorError(f"HttpResponseParser.parse_message: expected statement missing: {want}")
    ifs = [n for n in ast.walk(fn) if isinstance(n, ast.If) and "DIGITS.fullmatch(status)" in ast.unparse(n.test)]
    t = _only(ifs, "status code check").test
    if not (isinstance(t, ast.BoolOp) and isinstance(t.op, ast.Or) and len(t.values) == 2
            and isinstance(t.values[0], ast.Compare) and ast.unparse(t.values[0].left) == "len(status)"
            and isinstance(t.values[0].ops[0], ast.NotEq)
            and ast.unparse(t.values[1]) == "not DIGITS.fullmatch(status)"):
        raise TranslatorError(f"status code check: unrecognised {ast.unparse(t)}")
    if ast.unparse(_only(ifs, "status code check").body[0]) != "raise BadStatusLine(line)":
        raise TranslatorError("status code check must raise BadStatusLine(line)")
    return _int(t.values[0].comparators[0])


def _close_defaults():
    fn = core.find_function(P, "parse_message", cls="HttpResponseParser")
    top = _only([n for n in ast.walk(fn) if isinstance(n, ast.If) and ast.unparse(n.test) == "close is None"],
                "`if close is None:`")
    if len(top.body) != 1 or not isinstance(top.body[0], ast.If) or top.orelse:
        raise TranslatorError("close defaults: one if/elif chain expected")
    n1 = top.body[0]
    _expect(ast.unparse(n1.test), "version_o <= HttpVersion10", "close defaults, first test")
    _expect(ast.unparse(n1.body[0]), "close = True", "close defaults, HTTP/1.0")
    n2 = _only(n1.orelse, "close defaults, second branch")
    t = n2.test
    if not (isinstance(t, ast.BoolOp) and isinstance(t.op, ast.Or) and len(t.values) == 2):
        raise TranslatorError(f"close defaults: unrecognised {ast.unparse(t)}")
    rng, mem = t.values
    if not (isinstance(rng, ast.Compare) and len(rng.ops) == 2 and isinstance(rng.ops[0], ast.LtE) and isinstance(rng.ops[1], ast.Lt)
            and ast.unparse(rng.comparators[0]) == "status_i"):
        raise TranslatorError(f"close defaults: unrecognised range {ast.unparse(rng)}")
    lo, hi = _int(rng.left), _int(rng.comparators[1])
    if not (isinstance(mem, ast.Compare) and len(mem.ops) == 1 and isinstance(mem.ops[0], ast.In) and ast.unparse(mem.left) == "status_i"):
        raise TranslatorError(f"close defaults: unrecognised membership {ast.unparse(mem)}")
    codes = _int_set(mem.comparators[0])
    _expect(ast.unparse(n2.body[0]), "close = False", "close defaults, bodiless status")
    n3 = _only(n2.orelse, "close defaults, third branch")
    _expect(ast.unparse(n3.test), "hdrs.CONTENT_LENGTH in headers or hdrs.TRANSFER_ENCODING in headers", "close defaults, framing headers")
    _expect(ast.unparse(n3.body[0]), "close = False", "close defaults, framed")
    _expect([ast.unparse(s) for s in n3.orelse], ["close = True"], "close defaults, unframed")
    return lo, hi, codes


def _lax_mode():
    cls = _only([n for n in core.module(P).body if isinstance(n, ast.ClassDef) and n.name == "HttpResponseParser"], "HttpResponseParser")
    lax = [ast.unparse(s.value) for s in cls.body if isinstance(s, ast.Assign) and ast.unparse(s.targets[0]) == "lax"]
    _expect(lax, ["not DEBUG"], "HttpResponseParser.lax")
    fd = core.find_function(P, "feed_data", cls="HttpResponseParser")
    body = [ast.unparse(s) for s in fd.body]
    _expect(body, ["if SEP is None:\n    SEP = b'\\r\\n' if DEBUG else b'\\n'", "return super().feed_data(data, SEP, *args, **kwargs)"],
            "HttpResponseParser.feed_data")
    te = core.find_function(P, "_is_chunked_te", cls="HttpResponseParser")
    _expect([ast.unparse(s) for s in te.body], ["return te.rsplit(',', maxsplit=1)[-1].strip(' \\t').lower() == 'chunked'"],
            "HttpResponseParser._is_chunked_te")
    base = core.find_function(P, "__init__", cls="HttpParser")
    if "self._headers_parser = HeadersParser(max_field_size, self.lax)" not in ast.unparse(base):
        raise TranslatorError("HttpParser.__init__: the headers parser is not HeadersParser(max_field_size, self.lax)")


def _line_handling():
    fd = _flat(ast.unparse(core.find_function(P, "feed_data", cls="HttpParser")))
    for want in ("pos = data.find(SEP, start_pos)",
                 "if pos == start_pos and (not self._lines):",
                 "line_len = len(line)\nif SEP == b'\\n':\nline_len -= line.endswith(b'\\r')\nline = line.rstrip(b'\\r')\nif line_len > max_line_length:",
                 "if len(self._lines) > self.max_headers:",
                 "max_trailers = self.max_headers - len(self._lines)",
                 "tail_len = len(self._tail) - self._tail.endswith(b'\\r')\nif tail_len > max_line_length:",
                 "max_line_length = self.max_field_size if self._lines else self.max_line_size",
                 "if self._should_close:\n                    raise BadHttpMessage('Data after `Connection: close`')",
                 "method = getattr(msg, 'method', self.method)",
                 "code = getattr(msg, 'code', 0)",
                 "if not empty_body and (length is not None and length > 0 or msg.chunked):",
                 "elif not empty_body and length is None and self.read_until_eof:",
                 "elif upgraded:\n                    self._upgraded = True",
                 "self._should_close = msg.should_close"):
        if _flat(want) not in fd:
            raise TranslatorError(f"HttpParser.feed_data: expected code missing: {want}")
    pp = _flat(ast.unparse(core.find_function(P, "feed_data", cls="HttpPayloadParser")))
    for want in ("if pos > self._max_line_size:",
                 "if self._lax:\n                        size_b = size_b.strip()",
                 "if not re.fullmatch(HEXDIGITS, size_b):",
                 "size = int(bytes(size_b), 16)",
                 "if size == 0:\n    self._chunk = ChunkState.PARSE_TRAILERS\nelse:\n    self._chunk = ChunkState.PARSE_CHUNKED_CHUNK",
                 "if self._lax and chunk.startswith(b'\\r'):\nif len(chunk) == 1:\nself._chunk_tail = chunk\nself._paused = False\nreturn (PayloadState.PAYLOAD_NEEDS_INPUT, b'')\nchunk = chunk[1:]\nif chunk[:len(SEP)] == SEP:",
                 "elif len(chunk) >= len(SEP) or chunk != SEP[:len(chunk)]:",
                 "line_len = len(line)\nif SEP == b'\\n':\nline_len -= line.endswith(b'\\r')\nline = line.rstrip(b'\\r')\nif line_len > self._max_field_size:",
                 "if len(self._trailer_lines) > self._max_trailers:",
                 "trailers, raw_trailers = self._headers_parser.parse_headers(self._trailer_lines)",
                 "tail_len = len(self._chunk_tail)\nif SEP == b'\\r\\n' or self._chunk != ChunkState.PARSE_CHUNKED_SIZE:\ntail_len -= self._chunk_tail.endswith(b'\\r')\nif tail_len > max_line_length:"):
        if _flat(want) not in pp:
            raise TranslatorError(f"HttpPayloadParser.feed_data: expected code missing: {want}")
    if pp.count("chunk.startswith(b'\\r')") != 1:
        raise TranslatorError("HttpPayloadParser.feed_data: the optional CR is expected to be skipped in exactly one place "
                              "(after chunk data, a CR that ends the read staying buffered; nothing is skipped after the last-chunk line)")
    init = _flat(ast.unparse(core.find_function(P, "__init__", cls="HttpPayloadParser")))
    for want in ("if not response_with_body:\n    self._type = ParseState.PARSE_NONE\n    real_payload.feed_eof()\n    self.done = True",
                 "elif chunked:\n    self._type = ParseState.PARSE_CHUNKED",
                 "elif length is not None:\n    self._type = ParseState.PARSE_LENGTH"):
        if _flat(want) not in init:
            raise TranslatorError(f"HttpPayloadParser.__init__: expected code missing: {want}")
    eof = _flat(ast.unparse(core.find_function(P, "feed_eof", cls="HttpParser")))
    for want in ("if self._tail:\n        self._lines.append(self._tail)",
                 "with suppress(Exception):\n            return self.parse_message(self._lines)",
                 "self._payload_parser.feed_eof()"):
        if _flat(want) not in eof:
            raise TranslatorError(f"HttpParser.feed_eof: expected code missing: {want}")
    peof = ast.unparse(core.find_function(P, "feed_eof", cls="HttpPayloadParser"))
    for want in ("if self._type == ParseState.PARSE_UNTIL_EOF:", "raise ContentLengthError(", "raise TransferEncodingError("):
        if want not in peof:
            raise TranslatorError(f"HttpPayloadParser.feed_eof: expected code missing: {want}")


def generate() -> str:
    out = []
    codes, ranges = _empty_body_status_codes()
    out.append(f"(* helpers.EMPTY_BODY_STATUS_CODES = {codes} + ranges {ranges} *)\n"
               f"Definition empty_body_status (c : N) : bool := {_membership(codes, ranges)}.\n")
    chars = _lax_value_check()
    out.append(f"(* HeadersParser (lax): a decoded field value containing one of the characters {chars} is InvalidHeader;\n"
               "   all ASCII, so the test is made on the bytes *)\n"
               f"Definition lax_value_forbidden (c : N) : bool := {_membership(chars, [])}.\n")
    _fold_accounting()
    out.append("(* obs-fold: header_length = len(first value) + sum len(continuation lines), each addition checked\n"
               "   against max_field_size (LineTooLong): shape checked *)\nDefinition fold_accounting_checked : bool := true.\n")
    n = _status_syntax()
    out.append(f"(* status code: len(status) != {n} or not DIGITS.fullmatch(status) -> BadStatusLine *)\n"
               f"Definition status_code_len : N := {n}.\n")
    lo, hi, cl = _close_defaults()
    out.append(f"(* close defaults of a response without Connection: close/keep-alive: HTTP/1.0 or older -> close;\n"
               f"   {lo} <= status < {hi} or status in {cl} -> keep; Content-Length or Transfer-Encoding -> keep; else close *)\n"
               f"Definition close_default_bodiless (c : N) : bool := {_membership(cl, [(lo, hi)])}.\n")
    _lax_mode()
    _line_handling()
    out.append("(* a lax line, complete or buffered, is measured as len(line) - line.endswith(CR) (Model/HttpResp.v len1);\n"
               "   a buffered lax chunk-size line is measured raw like the complete one: shapes checked *)\n"
               "Definition lax_line_length_discounts_one_cr : bool := true.\n")
    out.append("(* lax = not DEBUG; SEP = LF; lines are rstrip(CR)'ed; chunk sizes are strip()'ed; the optional CR after\n"
               "   chunk data is skipped unless it ends the read (then it stays buffered), nothing after the last-chunk line; _is_chunked_te by rsplit: shapes checked *)\n"
               "Definition lax_shapes_checked : bool := true.\n")
    return "\n".join(out)
