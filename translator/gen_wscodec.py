"""aiohttp/_websocket/{writer,helpers,models}.py -> Generated/WsCodecGen.v   (property C11)

Regenerated from the source text on every run (fail-closed):
  * the frame-header switch of WebSocketWriter._write_websocket_frame: the two length bounds, the two
    extended-length markers, the FIN and MASK bits, and the struct layouts of PACK_LEN1/2/3, PACK_RANDBITS,
    PACK_CLOSE_CODE (big-endian field widths);
  * the branch tests of WebSocketWriter.send_frame (refusal while closing, plain / sync / shielded path) with
    WS_CONTROL_FRAME_OPCODE and WEBSOCKET_MAX_SYNC_CHUNK_SIZE;
  * RSV1 value and flush-mode choice of the two compressed paths, removal of WS_DEFLATE_TRAILING;
  * `_get_compressor`: a truthy per-message `compress` drops the shared compressor and builds a NEW one (wbits = -compress), else the
    shared one (wbits = -self.compress) is created once;
  * `_websocket_mask_python`: index i is xor-ed with mask[i % 4] (shape of the four strided translate calls and
    of the xor table);
  * MSG_SIZE, MASK_LEN.
A changed bound / marker / bit / layout changes a Generated definition the model and the proofs are built on.
"""
from __future__ import annotations

import ast

from . import core
from .core import TranslatorError

OUTPUT = "WsCodecGen.v"
ITEMS = ["queue pause test (feed_data)", "queue resume test after the size update (_read_from_buffer)", "queue limit factor",
         "header length switch (bounds 126 / 65536, markers 126 / 127)", "FIN bit / MASK bit", "struct layouts PACK_LEN1/2/3",
         "PACK_RANDBITS / PACK_CLOSE_CODE layouts", "mask branch shape (every masked frame is xor-ed)",
         "send_frame closing test", "send_frame plain-path test", "send_frame sync-path test", "WS_CONTROL_FRAME_OPCODE",
         "WEBSOCKET_MAX_SYNC_CHUNK_SIZE", "RSV1 of compressed frames", "flush mode choice", "removesuffix(WS_DEFLATE_TRAILING)",
         "_get_compressor shape", "_websocket_mask_python shape", "MSG_SIZE", "MASK_LEN", "close() payload shape"]

WRITER = "aiohttp/_websocket/writer.py"
HELPERS = "aiohttp/_websocket/helpers.py"
MODELS = "aiohttp/_websocket/models.py"

_WIDTH = {"B": 1, "H": 2, "L": 4, "I": 4, "Q": 8}


def _same(node: ast.AST, text: str, mode: str = "eval") -> bool:
    exp = ast.parse(text, mode=mode)
    exp = exp.body if mode == "eval" else exp.body[0]
    return ast.dump(node) == ast.dump(exp)


def _struct(name: str, method: str) -> list[int]:
    """NAME = Struct("!..").<method>  -> list of field widths (big-endian only)."""
    v = core.find_assign(HELPERS, name)
    ok = (isinstance(v, ast.Attribute) and v.attr == method and isinstance(v.value, ast.Call)
          and isinstance(v.value.func, ast.Name) and v.value.func.id == "Struct" and len(v.value.args) == 1
          and not v.value.keywords and isinstance(v.value.args[0], ast.Constant) and isinstance(v.value.args[0].value, str))
    if not ok:
        raise TranslatorError(f"{name} is not Struct(<literal>).{method}")
    fmt = v.value.args[0].value
    if not fmt.startswith("!"):
        raise TranslatorError(f"{name}: format {fmt!r} is not network byte order")
    out = []
    for ch in fmt[1:]:
        if ch not in _WIDTH:
            raise TranslatorError(f"{name}: format character {ch!r} not supported")
        out.append(_WIDTH[ch])
    return out


def _int(node) -> int:
    v = core.literal(node)
    if not isinstance(v, int) or isinstance(v, bool):
        raise TranslatorError(f"not an integer literal: {ast.dump(node)[:80]}")
    return v


def _strip_doc(body):
    return [s for s in body if not (isinstance(s, ast.Expr) and isinstance(s.value, ast.Constant))]


def _header_switch(fn):
    st = _strip_doc(fn.body)
    asg = {}
    chain = None
    for s in st:
        if isinstance(s, ast.Assign) and len(s.targets) == 1 and isinstance(s.targets[0], ast.Name):
            asg[s.targets[0].id] = s.value
        if isinstance(s, ast.If) and isinstance(s.test, ast.Compare) and isinstance(s.test.left, ast.Name) \
                and s.test.left.id == "msg_length" and isinstance(s.test.ops[0], ast.Lt):
            if chain is not None:
                raise TranslatorError("_write_websocket_frame: two `msg_length <` switches")
            chain = s
    if chain is None:
        raise TranslatorError("_write_websocket_frame: `if msg_length < ...` switch not found")
    if not _same(asg.get("msg_length"), "len(message)"):
        raise TranslatorError("msg_length is not len(message)")
    if not _same(asg.get("use_mask"), "self.use_mask"):
        raise TranslatorError("use_mask is not self.use_mask")
    mb = asg.get("mask_bit")
    if not (isinstance(mb, ast.IfExp) and isinstance(mb.test, ast.Name) and mb.test.id == "use_mask" and _int(mb.orelse) == 0):
        raise TranslatorError("mask_bit is not `<c> if use_mask else 0`")
    mask_bit = _int(mb.body)
    fb = asg.get("first_byte")
    ok = (isinstance(fb, ast.BinOp) and isinstance(fb.op, ast.BitOr) and isinstance(fb.right, ast.Name) and fb.right.id == "opcode"
          and isinstance(fb.left, ast.BinOp) and isinstance(fb.left.op, ast.BitOr) and isinstance(fb.left.right, ast.Name)
          and fb.left.right.id == "rsv")
    if not ok:
        raise TranslatorError("first_byte is not `<fin> | rsv | opcode`")
    fin_bit = _int(fb.left.left)

    def branch(body, pack, marker_expected: bool):
        hs = [s for s in body if isinstance(s, ast.Assign) and isinstance(s.targets[0], ast.Name) and s.targets[0].id == "header"]
        hl = [s for s in body if isinstance(s, ast.Assign) and isinstance(s.targets[0], ast.Name) and s.targets[0].id == "header_len"]
        if len(hs) != 1 or len(hl) != 1 or len(body) != 2:
            raise TranslatorError("header switch branch: expected exactly `header = ...; header_len = ...`")
        c = hs[0].value
        if not (isinstance(c, ast.Call) and isinstance(c.func, ast.Name) and c.func.id == pack and not c.keywords):
            raise TranslatorError(f"header switch branch does not call {pack}")
        a = c.args
        if not (isinstance(a[0], ast.Name) and a[0].id == "first_byte"):
            raise TranslatorError(f"{pack}: first argument is not first_byte")
        second = a[1]
        if not (isinstance(second, ast.BinOp) and isinstance(second.op, ast.BitOr) and isinstance(second.right, ast.Name)
                and second.right.id == "mask_bit"):
            raise TranslatorError(f"{pack}: second argument is not `<x> | mask_bit`")
        if marker_expected:
            marker = _int(second.left)
            if not (len(a) == 3 and isinstance(a[2], ast.Name) and a[2].id == "msg_length"):
                raise TranslatorError(f"{pack}: third argument is not msg_length")
        else:
            marker = None
            if not (len(a) == 2 and isinstance(second.left, ast.Name) and second.left.id == "msg_length"):
                raise TranslatorError(f"{pack}: second argument is not `msg_length | mask_bit`")
        return marker, _int(hl[0].value)

    b1 = _int(chain.test.comparators[0])
    _, hl1 = branch(chain.body, "PACK_LEN1", False)
    if not (len(chain.orelse) == 1 and isinstance(chain.orelse[0], ast.If)):
        raise TranslatorError("header switch: expected if / elif / else")
    second = chain.orelse[0]
    t = second.test
    if not (isinstance(t, ast.Compare) and isinstance(t.left, ast.Name) and t.left.id == "msg_length" and isinstance(t.ops[0], ast.Lt)):
        raise TranslatorError("header switch: elif is not `msg_length < <c>`")
    b2 = _int(t.comparators[0])
    m16, hl2 = branch(second.body, "PACK_LEN2", True)
    m64, hl3 = branch(second.orelse, "PACK_LEN3", True)
    l1, l2, l3 = _struct("PACK_LEN1", "pack"), _struct("PACK_LEN2", "pack"), _struct("PACK_LEN3", "pack")
    if l1 != [1, 1] or l2[:2] != [1, 1] or l3[:2] != [1, 1] or len(l2) != 3 or len(l3) != 3:
        raise TranslatorError(f"PACK_LEN layouts {l1} {l2} {l3} are not (B,B) / (B,B,x) / (B,B,y)")
    if (hl1, hl2, hl3) != (sum(l1), sum(l2), sum(l3)):
        raise TranslatorError("header_len constants disagree with the struct layouts")
    return dict(fin_bit=fin_bit, mask_bit=mask_bit, b1=b1, b2=b2, m16=m16, m64=m64, ext16=l2[2], ext64=l3[2])


def _mask_branch(fn):
    """`if use_mask:` must xor every payload: mask = PACK_RANDBITS(self.get_random_bits()); message_arr = bytearray(message);
    websocket_mask(mask, message_arr); self.transport.write(header + mask + message_arr)."""
    ifs = [s for s in _strip_doc(fn.body) if isinstance(s, ast.If) and isinstance(s.test, ast.Name) and s.test.id == "use_mask"]
    if len(ifs) != 1:
        raise TranslatorError("_write_websocket_frame: `if use_mask:` not found uniquely")
    body = ifs[0].body
    want = ["mask = PACK_RANDBITS(self.get_random_bits())", "message_arr = bytearray(message)",
            "websocket_mask(mask, message_arr)", "self.transport.write(header + mask + message_arr)"]
    got = [s for s in body if not isinstance(s, ast.AugAssign)]
    if len(got) != len(want) or not all(_same(g, w, "exec") for g, w in zip(got, want)):
        raise TranslatorError("_write_websocket_frame: masked branch differs from mask/xor/write(header + mask + message_arr):\n"
                              + "\n".join(ast.unparse(g) for g in got))
    # unmasked branches write header and message unchanged
    rest = ifs[0].orelse
    writes = [n for s in rest for n in ast.walk(s) if isinstance(n, ast.Call) and isinstance(n.func, ast.Attribute) and n.func.attr == "write"]
    texts = sorted(ast.unparse(w) for w in writes)
    if texts != sorted(["self.transport.write(header)", "self.transport.write(message)", "self.transport.write(header + message)"]):
        raise TranslatorError(f"_write_websocket_frame: unmasked writes are {texts}")
    if not (len(rest) == 1 and isinstance(rest[0], ast.If) and _same(rest[0].test, "msg_length > MSG_SIZE")):
        raise TranslatorError("_write_websocket_frame: unmasked split test is not `msg_length > MSG_SIZE`")
    two = [ast.unparse(s) for s in rest[0].body]
    if two != ["self.transport.write(header)", "self.transport.write(message)"]:
        raise TranslatorError("_write_websocket_frame: large unmasked frame is not written as header then message")


def _send_frame_tests(fn):
    st = _strip_doc(fn.body)
    if not (isinstance(st[0], ast.If) and len(st[0].body) == 1 and isinstance(st[0].body[0], ast.Raise) and not st[0].orelse):
        raise TranslatorError("send_frame: first statement is not the closing refusal")
    t = st[0].test
    ok = (isinstance(t, ast.BoolOp) and isinstance(t.op, ast.And) and len(t.values) == 2 and _same(t.values[0], "self._closing")
          and isinstance(t.values[1], ast.UnaryOp) and isinstance(t.values[1].op, ast.Not)
          and isinstance(t.values[1].operand, ast.BinOp) and isinstance(t.values[1].operand.op, ast.BitAnd)
          and _same(t.values[1].operand.left, "opcode"))
    if not ok:
        raise TranslatorError("send_frame: closing test is not `self._closing and not (opcode & <c>)`")
    r = t.values[1].operand.right
    if not _same(r, "WSMsgType.CLOSE"):
        raise TranslatorError("send_frame: closing test mask is not WSMsgType.CLOSE")
    sw = st[1]
    if not isinstance(sw, ast.If):
        raise TranslatorError("send_frame: second statement is not the path switch")
    t1 = sw.test
    ok = (isinstance(t1, ast.BoolOp) and isinstance(t1.op, ast.Or) and len(t1.values) == 2
          and _same(t1.values[0], "not (compress or self.compress)")
          and isinstance(t1.values[1], ast.Compare) and _same(t1.values[1].left, "opcode")
          and isinstance(t1.values[1].ops[0], ast.GtE) and _same(t1.values[1].comparators[0], "WS_CONTROL_FRAME_OPCODE"))
    if not ok:
        raise TranslatorError("send_frame: plain-path test is not `not (compress or self.compress) or opcode >= WS_CONTROL_FRAME_OPCODE`")
    if [ast.unparse(s) for s in sw.body] != ["self._write_websocket_frame(message, opcode, 0)"]:
        raise TranslatorError("send_frame: plain path is not `_write_websocket_frame(message, opcode, 0)`")
    if not (len(sw.orelse) == 1 and isinstance(sw.orelse[0], ast.If)):
        raise TranslatorError("send_frame: expected if / elif / else")
    t2 = sw.orelse[0].test
    if not (isinstance(t2, ast.Compare) and _same(t2.left, "len(message)") and isinstance(t2.ops[0], ast.LtE)
            and _same(t2.comparators[0], "WEBSOCKET_MAX_SYNC_CHUNK_SIZE")):
        raise TranslatorError("send_frame: sync-path test is not `len(message) <= WEBSOCKET_MAX_SYNC_CHUNK_SIZE`")


def _compressed_path(fn, call_text: str):
    """Both compressed senders: _write_websocket_frame((<compress> + compressobj.flush(FULL if self.notakeover else SYNC))
    .removesuffix(WS_DEFLATE_TRAILING), opcode, <rsv>) -> rsv."""
    calls = [n for n in ast.walk(fn) if isinstance(n, ast.Call) and isinstance(n.func, ast.Attribute) and n.func.attr == "_write_websocket_frame"]
    if len(calls) != 1 or len(calls[0].args) != 3:
        raise TranslatorError(f"{fn.name}: expected one _write_websocket_frame(payload, opcode, rsv) call")
    payload, op, rsv = calls[0].args
    if not _same(op, "opcode"):
        raise TranslatorError(f"{fn.name}: second argument is not opcode")
    exp = (f"({call_text} + compressobj.flush(ZLibBackend.Z_FULL_FLUSH if self.notakeover else ZLibBackend.Z_SYNC_FLUSH))"
           ".removesuffix(WS_DEFLATE_TRAILING)")
    if not _same(payload, exp):
        raise TranslatorError(f"{fn.name}: payload expression differs from\n  {exp}\ngot\n  {ast.unparse(payload)}")
    g = [s for s in ast.walk(fn) if isinstance(s, ast.Assign) and _same(s, "compressobj = self._get_compressor(compress)", "exec")]
    if len(g) != 1:
        raise TranslatorError(f"{fn.name}: `compressobj = self._get_compressor(compress)` not found")
    return _int(rsv)


_EXPECTED_GET_COMPRESSOR = '''
def _get_compressor(self, compress):
    if compress:
        self._compressobj = None
        return ZLibCompressor(level=ZLibBackend.Z_BEST_SPEED, wbits=-compress, max_sync_chunk_size=WEBSOCKET_MAX_SYNC_CHUNK_SIZE)
    if not self._compressobj:
        self._compressobj = ZLibCompressor(level=ZLibBackend.Z_BEST_SPEED, wbits=-self.compress, max_sync_chunk_size=WEBSOCKET_MAX_SYNC_CHUNK_SIZE)
    return self._compressobj
'''

_EXPECTED_MASK = '''
def _websocket_mask_python(mask, data):
    assert isinstance(data, bytearray), data
    assert len(mask) == 4, mask
    if data:
        _XOR_TABLE = _xor_table()
        a, b, c, d = (_XOR_TABLE[n] for n in mask)
        data[::4] = data[::4].translate(a)
        data[1::4] = data[1::4].translate(b)
        data[2::4] = data[2::4].translate(c)
        data[3::4] = data[3::4].translate(d)
'''

_EXPECTED_XOR = '''
def _xor_table():
    return [bytes(a ^ b for a in range(256)) for b in range(256)]
'''


def _norm(fn) -> str:
    fn = ast.parse(ast.unparse(fn)).body[0]
    fn.returns = None
    fn.decorator_list = []
    for a in fn.args.args:
        a.annotation = None
    fn.body = _strip_doc(fn.body)
    for n in ast.walk(fn):            # strip comments-only differences: none survive ast; drop type comments
        if hasattr(n, "type_comment"):
            n.type_comment = None
    return ast.dump(fn)


def _check_fn(relpath, name, expected, cls=None):
    fn = core.find_function(relpath, name, cls=cls)
    if _norm(fn) != _norm(ast.parse(expected).body[0]):
        raise TranslatorError(f"{relpath}:{name} differs from the shape the model transcribes:\n" + ast.unparse(fn))


def generate() -> str:
    out = []
    wf = core.find_function(WRITER, "_write_websocket_frame", cls="WebSocketWriter")
    h = _header_switch(wf)
    _mask_branch(wf)
    out.append("(* WebSocketWriter._write_websocket_frame: first_byte = FIN | rsv | opcode; second byte = <len or marker> | mask_bit *)")
    out.append(f"Definition FIN_BIT : N := {h['fin_bit']}.")
    out.append(f"Definition MASK_BIT : N := {h['mask_bit']}.")
    out.append("(* if msg_length < LEN7_BOUND: 7-bit form; elif msg_length < LEN16_BOUND: marker MARK16 + EXT16_BYTES; else MARK64 + EXT64_BYTES *)")
    out.append(f"Definition LEN7_BOUND : N := {h['b1']}.")
    out.append(f"Definition LEN16_BOUND : N := {h['b2']}.")
    out.append(f"Definition MARK16 : N := {h['m16']}.")
    out.append(f"Definition MARK64 : N := {h['m64']}.")
    out.append(f"Definition EXT16_BYTES : nat := {h['ext16']}.")
    out.append(f"Definition EXT64_BYTES : nat := {h['ext64']}.")
    rb = _struct("PACK_RANDBITS", "pack")
    cc = _struct("PACK_CLOSE_CODE", "pack")
    if len(rb) != 1 or len(cc) != 1:
        raise TranslatorError("PACK_RANDBITS / PACK_CLOSE_CODE are not single-field structs")
    mask_len = _int(core.find_assign(HELPERS, "MASK_LEN"))
    if mask_len != rb[0]:
        raise TranslatorError("MASK_LEN differs from the PACK_RANDBITS width")
    out.append(f"Definition MASK_BYTES : nat := {rb[0]}.")
    out.append(f"Definition CLOSE_CODE_BYTES : nat := {cc[0]}.")
    v = core.find_assign(HELPERS, "MSG_SIZE")
    if not _same(v, "2 ** 14"):
        raise TranslatorError("MSG_SIZE is not 2**14")
    out.append("Definition MSG_SIZE : N := 2 ^ 14.")

    sf = core.find_function(WRITER, "send_frame", cls="WebSocketWriter")
    _send_frame_tests(sf)
    ctl = _int(core.find_assign(WRITER, "WS_CONTROL_FRAME_OPCODE"))
    sync = core.formula(core.find_assign(WRITER, "WEBSOCKET_MAX_SYNC_CHUNK_SIZE"), {})
    # WSMsgType.CLOSE value
    from . import gen_ws
    close_val = gen_ws._enum_members("WSMsgType")["CLOSE"]
    out.append("\n(* WebSocketWriter.send_frame *)")
    out.append(f"Definition WS_CONTROL_FRAME_OPCODE : N := {ctl}.")
    out.append(f"Definition WEBSOCKET_MAX_SYNC_CHUNK_SIZE : N := {sync}.")
    out.append("(* `self._closing and not (opcode & WSMsgType.CLOSE)`: what a closing writer refuses *)")
    out.append(f"Definition closing_refuses (opcode : N) : bool := (N.land opcode {close_val} =? 0).")
    out.append("(* `not (compress or self.compress) or opcode >= WS_CONTROL_FRAME_OPCODE` (0 = None/0) *)")
    out.append(f"Definition send_plain (override shared opcode : N) : bool := (negb ((negb (override =? 0)) || (negb (shared =? 0)))) || ({ctl} <=? opcode).")
    out.append("(* `len(message) <= WEBSOCKET_MAX_SYNC_CHUNK_SIZE`: compressed in the event loop, else in the executor under the shield *)")
    out.append(f"Definition send_sync (len : N) : bool := (len <=? {sync}).")

    r1 = _compressed_path(core.find_function(WRITER, "_send_compressed_frame_sync", cls="WebSocketWriter"), "compressobj.compress_sync(message)")
    r2 = _compressed_path(core.find_function(WRITER, "_send_compressed_frame_async_locked", cls="WebSocketWriter"), "await compressobj.compress(message)")
    if r1 != r2:
        raise TranslatorError("the two compressed paths use different RSV bits")
    out.append("\n(* both compressed paths: rsv argument; payload = (compress + flush(FULL if notakeover else SYNC)).removesuffix(WS_DEFLATE_TRAILING) *)")
    out.append(f"Definition RSV1_COMPRESSED : N := {r1}.")
    return "\n".join(out) + "\n" + _tail()


READER = "aiohttp/_websocket/reader_py.py"


def _queue_flow() -> list[str]:
    """WebSocketDataQueue read flow control: `_limit = limit * k`; feed_data: size added, then
    `if self._size > self._limit and not paused: pause_reading()`; _read_from_buffer: message popped and size subtracted,
    THEN `if self._size < self._limit and paused: resume_reading()`."""
    out = []
    init = core.find_function(READER, "__init__", cls="WebSocketDataQueue")
    lim = [n for n in ast.walk(init) if isinstance(n, ast.Assign) and ast.unparse(n.targets[0]) == "self._limit"]
    if len(lim) != 1 or not (isinstance(lim[0].value, ast.BinOp) and isinstance(lim[0].value.op, ast.Mult)
                             and _same(lim[0].value.left, "limit")):
        raise TranslatorError("WebSocketDataQueue.__init__: `self._limit = limit * <k>` not found")
    out.append(f"Definition QUEUE_LIMIT_FACTOR : N := {_int(lim[0].value.right)}.")

    def flow_if(fn, call):
        ifs = [n for n in ast.walk(fn) if isinstance(n, ast.If) and len(n.body) == 1
               and _same(n.body[0], f"self._protocol.{call}()", "exec")]
        if len(ifs) != 1:
            raise TranslatorError(f"{fn.name}: expected exactly one `if ...: self._protocol.{call}()`")
        return ifs[0]

    def size_cmp(test, paused_positive):
        ok = (isinstance(test, ast.BoolOp) and isinstance(test.op, ast.And) and len(test.values) == 2
              and isinstance(test.values[0], ast.Compare) and _same(test.values[0].left, "self._size")
              and _same(test.values[0].comparators[0], "self._limit"))
        flag = test.values[1] if ok else None
        if ok and paused_positive:
            ok = _same(flag, "self._protocol._reading_paused")
        elif ok:
            ok = _same(flag, "not self._protocol._reading_paused")
        if not ok:
            raise TranslatorError("queue flow-control test has an unexpected shape: " + ast.unparse(test))
        return core.comparison(test.values[0], {"_size": "size", "_limit": "limit"})
    fd = core.find_function(READER, "feed_data", cls="WebSocketDataQueue")
    body = _strip_doc(fd.body)
    pi = flow_if(fd, "pause_reading")
    add = [k for k, st in enumerate(body) if isinstance(st, ast.AugAssign) and isinstance(st.op, ast.Add) and ast.unparse(st.target) == "self._size"]
    if len(add) != 1 or pi not in body or body.index(pi) < add[0]:
        raise TranslatorError("feed_data: the pause test must follow `self._size += size`")
    out.append("(* feed_data: after `self._size += size`: pause when this holds and reading is not paused *)")
    out.append(f"Definition queue_pause_test (size limit : N) : bool := {size_cmp(pi.test, False)}.")
    rb = core.find_function(READER, "_read_from_buffer", cls="WebSocketDataQueue")
    first = _strip_doc(rb.body)[0]
    if not (isinstance(first, ast.If) and _same(first.test, "self._buffer")):
        raise TranslatorError("_read_from_buffer: first statement is not `if self._buffer:`")
    ri = flow_if(rb, "resume_reading")
    sub = [k for k, st in enumerate(first.body) if isinstance(st, ast.AugAssign) and isinstance(st.op, ast.Sub) and ast.unparse(st.target) == "self._size"]
    pop = [k for k, st in enumerate(first.body) if isinstance(st, ast.Assign) and _same(st.value, "self._get_buffer()")]
    if len(sub) != 1 or len(pop) != 1 or ri not in first.body or not (pop[0] < sub[0] < first.body.index(ri)):
        raise TranslatorError("_read_from_buffer: the resume test must come after the message is popped and `self._size -= size`")
    out.append("(* _read_from_buffer: after the pop and `self._size -= size`: resume when this holds and reading is paused *)")
    out.append(f"Definition queue_resume_test (size limit : N) : bool := {size_cmp(ri.test, True)}.")
    return out


def _tail() -> str:
    out = _queue_flow()
    v = core.find_assign(MODELS, "WS_DEFLATE_TRAILING")
    if not (isinstance(v, ast.Call) and isinstance(v.func, ast.Name) and v.func.id == "bytes" and len(v.args) == 1):
        raise TranslatorError("WS_DEFLATE_TRAILING is not bytes([...])")
    tr = core.literal(v.args[0])
    out.append(f"Definition DEFLATE_TRAILING : list N := {core.coq_N_list(tr)}.")
    _check_fn(WRITER, "_get_compressor", _EXPECTED_GET_COMPRESSOR, cls="WebSocketWriter")
    out.append("(* _get_compressor shape checked: truthy per-message `compress` -> the shared compressor is dropped "
               "(`self._compressobj = None`) and a NEW ZLibCompressor(wbits=-compress) is used; else the shared one, created "
               "on demand with wbits=-self.compress *)")
    out.append("Definition override_uses_fresh_compressor : bool := true.")
    _check_fn(HELPERS, "_websocket_mask_python", _EXPECTED_MASK)
    _check_fn(HELPERS, "_xor_table", _EXPECTED_XOR)
    out.append("(* _websocket_mask_python shape checked: data[i] ^= mask[i % 4] through four strided translate() calls over the xor table *)")
    out.append("Definition mask_stride : nat := 4.")
    cl = core.find_function(WRITER, "close", cls="WebSocketWriter")
    sends = [n for n in ast.walk(cl) if isinstance(n, ast.Call) and isinstance(n.func, ast.Attribute) and n.func.attr == "send_frame"]
    if len(sends) != 1 or not _same(sends[0], "self.send_frame(PACK_CLOSE_CODE(code) + message, opcode=WSMsgType.CLOSE)"):
        raise TranslatorError("close(): not `send_frame(PACK_CLOSE_CODE(code) + message, opcode=WSMsgType.CLOSE)`")
    out.append("(* close(): payload = PACK_CLOSE_CODE(code) + message, opcode CLOSE; `_closing = True` in the finally *)")
    out.append("Definition close_payload_is_code_then_message : bool := true.")
    return "\n".join(out) + "\n"
