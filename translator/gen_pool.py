"""aiohttp/connector.py (BaseConnector capacity arithmetic) -> Generated/PoolGen.v

Translated from the source text on every run:
  * `BaseConnector._available_connections` : a straight-line integer function with early returns,
    walrus bindings and truthiness tests, translated statement by statement into a Coq `let`/`if`
    expression over Z (arguments: limit, limit_per_host, len(_acquired), len(_acquired_per_host[key]));
  * the three comparisons applied to its result at the call sites (`connect`: must wait,
    `_wait_for_available_connection`: slot found, `_release_waiter`: key skipped).
Anything outside the recognised fragment raises TranslatorError.
"""
import ast

from . import core
from .core import TranslatorError

OUTPUT = "PoolGen.v"
ITEMS = ["available_connections", "connect_fast_path", "connect_must_wait", "wait_slot_found", "release_skips_key",
         "wait_checks_closed", "close_clears_per_host", "requeue_hands_on"]

F = "aiohttp/connector.py"


class _Tr:
    """Statement translator for the fragment used by _available_connections."""

    def __init__(self):
        # python expression text (ast.dump) -> Coq variable, for the opaque inputs
        self.bound = set()
        self.setvars = {"nhost"}   # Coq names that stand for the per-host set (value = its size)

    # -- expressions (integers)
    def expr(self, n, env) -> str:
        if isinstance(n, ast.Constant) and isinstance(n.value, int) and not isinstance(n.value, bool):
            return str(n.value) if n.value >= 0 else f"({n.value})"
        if isinstance(n, ast.Name):
            if n.id not in env:
                raise TranslatorError(f"_available_connections: free name {n.id}")
            return env[n.id]
        if isinstance(n, ast.Attribute) and isinstance(n.value, ast.Name) and n.value.id == "self":
            if n.attr == "_limit":
                return "limit"
            if n.attr == "_limit_per_host":
                return "lph"
            raise TranslatorError(f"_available_connections: unknown attribute self.{n.attr}")
        if isinstance(n, ast.Call) and isinstance(n.func, ast.Name) and n.func.id == "len" and len(n.args) == 1 and not n.keywords:
            a = n.args[0]
            if isinstance(a, ast.Attribute) and isinstance(a.value, ast.Name) and a.value.id == "self" and a.attr == "_acquired":
                return "nacq"
            if isinstance(a, ast.Name) and env.get(a.id) in self.setvars:
                return "nhost"
            raise TranslatorError(f"_available_connections: len() of {ast.unparse(a)}")
        if self._is_host_get(n):
            # the per-host set: its truthiness is `nhost <> 0`, its len() is nhost
            return "nhost"
        if isinstance(n, ast.BinOp) and isinstance(n.op, (ast.Add, ast.Sub)):
            op = "+" if isinstance(n.op, ast.Add) else "-"
            return f"({self.expr(n.left, env)} {op} {self.expr(n.right, env)})"
        raise TranslatorError(f"_available_connections: unsupported expression {ast.unparse(n)}")

    @staticmethod
    def _is_host_get(n):
        return (isinstance(n, ast.Call) and isinstance(n.func, ast.Attribute) and n.func.attr == "get"
                and isinstance(n.func.value, ast.Attribute) and n.func.value.attr == "_acquired_per_host"
                and isinstance(n.func.value.value, ast.Name) and n.func.value.value.id == "self"
                and len(n.args) == 1 and isinstance(n.args[0], ast.Name) and n.args[0].id == "key" and not n.keywords)

    # -- tests: returns (list of (var, coq-expr) bindings made *before* the test value is known
    #    to matter, coq boolean).  A walrus under `and` binds only if the left operand is truthy.
    def test(self, n, env, guard=None):
        """-> (bindings [(name, coqexpr)], coq_bool, env')"""
        if isinstance(n, ast.BoolOp) and isinstance(n.op, ast.And):
            binds, conds = [], []
            g = guard
            for v in n.values:
                b, c, env = self.test(v, env, g)
                binds += b
                conds.append(c)
                g = c if g is None else f"({g} && {c})"
            return binds, "(" + " && ".join(conds) + ")", env
        if isinstance(n, ast.NamedExpr):
            nm = n.target.id
            val = self.expr(n.value, env)
            old = env.get(nm)
            env = dict(env)
            fresh = self._fresh(nm)
            if guard is not None:
                if old is None:
                    raise TranslatorError(f"conditional walrus binds unbound name {nm}")
                val = f"(if {guard} then {val} else {old})"
            env[nm] = fresh
            if self._is_host_get(n.value) and guard is None:
                self.setvars.add(fresh)
            return [(fresh, val)], f"(negb ({fresh} =? 0))", env
        if isinstance(n, ast.Compare) and len(n.ops) == 1:
            binds = []
            left = n.left
            if isinstance(left, ast.NamedExpr):
                b, _, env = self.test(left, env, guard)
                binds += b
                a = env[left.target.id]
            else:
                a = self.expr(left, env)
            bb = self.expr(n.comparators[0], env)
            op = n.ops[0]
            tbl = {ast.Lt: f"({a} <? {bb})", ast.LtE: f"({a} <=? {bb})", ast.Gt: f"({bb} <? {a})",
                   ast.GtE: f"({bb} <=? {a})", ast.Eq: f"({a} =? {bb})", ast.NotEq: f"(negb ({a} =? {bb}))"}
            if type(op) not in tbl:
                raise TranslatorError(f"comparison operator {type(op).__name__}")
            return binds, tbl[type(op)], env
        # plain truthiness of an integer expression
        return [], f"(negb ({self.expr(n, env)} =? 0))", env

    def _fresh(self, nm):
        i = 0
        while f"{nm}{i}" in self.bound:
            i += 1
        self.bound.add(f"{nm}{i}")
        return f"{nm}{i}"

    # -- statement lists; `k` is the Coq text of the continuation builder (called with env)
    def block(self, stmts, env, cont):
        if not stmts:
            return cont(env)
        s, rest = stmts[0], stmts[1:]
        if isinstance(s, ast.Expr) and isinstance(s.value, ast.Constant) and isinstance(s.value.value, str):
            return self.block(rest, env, cont)
        if isinstance(s, ast.Return):
            if s.value is None:
                raise TranslatorError("bare return")
            return self.expr(s.value, env)
        if isinstance(s, ast.Assign) and len(s.targets) == 1 and isinstance(s.targets[0], ast.Name):
            nm = s.targets[0].id
            fresh = self._fresh(nm)
            val = self.expr(s.value, env)
            env2 = dict(env)
            env2[nm] = fresh
            return f"let {fresh} := {val} in\n  {self.block(rest, env2, cont)}"
        if isinstance(s, ast.AugAssign) and isinstance(s.target, ast.Name) and isinstance(s.op, (ast.Add, ast.Sub)):
            nm = s.target.id
            if nm not in env:
                raise TranslatorError(f"augmented assignment to unbound {nm}")
            op = "+" if isinstance(s.op, ast.Add) else "-"
            fresh = self._fresh(nm)
            val = f"({env[nm]} {op} {self.expr(s.value, env)})"
            env2 = dict(env)
            env2[nm] = fresh
            return f"let {fresh} := {val} in\n  {self.block(rest, env2, cont)}"
        if isinstance(s, ast.If):
            if s.orelse:
                raise TranslatorError("if/else is outside the translated fragment")
            binds, cond, env_t = self.test(s.test, env)
            # variables assigned in the body must flow to the continuation: only allowed when the
            # body either returns on every path or assigns names that already exist.
            assigned = sorted({t.id for n in ast.walk(ast.Module(body=s.body, type_ignores=[]))
                               for t in ([n.target] if isinstance(n, (ast.AugAssign, ast.NamedExpr)) else
                                         (n.targets if isinstance(n, ast.Assign) else []))
                               if isinstance(t, ast.Name)})
            always_returns = self._returns(s.body)
            if always_returns:
                body = self.block(s.body, env_t, lambda e: (_ for _ in ()).throw(TranslatorError("fell off a returning block")))
                tail = self.block(rest, env_t, cont)
                txt = f"if {cond} then {body}\n  else {tail}"
            else:
                # join point: continuation takes the assigned variables as a tuple-free lambda chain
                for a in assigned:
                    if a not in env_t:
                        # first bound inside the branch: only usable inside the branch
                        pass
                live = [a for a in assigned if a in env_t]
                fn = self._fresh("k")
                params = " ".join(f"({a}_j : Z)" for a in live)
                env_j = dict(env_t)
                for a in live:
                    env_j[a] = f"{a}_j"
                tail = self.block(rest, env_j, cont)
                then_ = self.block(s.body, env_t, lambda e: f"{fn} " + " ".join(e[a] for a in live) if live else fn)
                else_ = f"{fn} " + " ".join(env_t[a] for a in live) if live else fn
                txt = (f"let {fn} := fun {params if live else '(_ : unit)'} =>\n  {tail} in\n  "
                       f"if {cond} then {then_}{'' if live else ' tt'}\n  else {else_}{'' if live else ' tt'}")
            for v, e in reversed(binds):
                txt = f"let {v} := {e} in\n  {txt}"
            return txt
        raise TranslatorError(f"_available_connections: unsupported statement {ast.unparse(s)[:120]}")

    def _returns(self, stmts):
        if not stmts:
            return False
        last = stmts[-1]
        if isinstance(last, ast.Return):
            return True
        return False


def _gen_available() -> str:
    fn = core.find_function(F, "_available_connections", cls="BaseConnector")
    args = [a.arg for a in fn.args.args]
    if args != ["self", "key"]:
        raise TranslatorError(f"_available_connections arguments {args}")
    tr = _Tr()
    body = tr.block(list(fn.body), {}, lambda e: (_ for _ in ()).throw(TranslatorError("function may fall off its end")))
    return ("(* connector.BaseConnector._available_connections; nacq = len(self._acquired),\n"
            "   nhost = len(self._acquired_per_host.get(key) or ()) *)\n"
            f"Definition available_connections (limit lph nacq nhost : Z) : Z :=\n  {body}.\n")


def _call_site(func: str, want_ctx: str):
    """The unique comparison `self._available_connections(key) <op> <int>` inside BaseConnector.<func>."""
    fn = core.find_function(F, func, cls="BaseConnector")
    found = []
    for n in ast.walk(fn):
        if isinstance(n, ast.Compare) and len(n.ops) == 1 and isinstance(n.left, ast.Call) \
                and isinstance(n.left.func, ast.Attribute) and n.left.func.attr == "_available_connections":
            c = n.comparators[0]
            if not (isinstance(c, ast.Constant) and isinstance(c.value, int)):
                raise TranslatorError(f"{func}: capacity compared with a non-literal")
            found.append((type(n.ops[0]), c.value))
    if len(found) != 1:
        raise TranslatorError(f"{func}: expected exactly one capacity comparison, found {len(found)}")
    # any other use of the capacity (e.g. assigned to a variable) would escape this translation
    uses = [n for n in ast.walk(fn) if isinstance(n, ast.Attribute) and n.attr == "_available_connections"]
    if len(uses) != 1:
        raise TranslatorError(f"{func}: _available_connections used {len(uses)} times")
    op, v = found[0]
    tbl = {ast.Lt: f"(a <? {v})", ast.LtE: f"(a <=? {v})", ast.Gt: f"({v} <? a)", ast.GtE: f"({v} <=? a)",
           ast.Eq: f"(a =? {v})", ast.NotEq: f"(negb (a =? {v}))"}
    if op not in tbl:
        raise TranslatorError(f"{func}: comparison {op.__name__}")
    return tbl[op]


def _self_attr(n, name):
    return isinstance(n, ast.Attribute) and n.attr == name and isinstance(n.value, ast.Name) and n.value.id == "self"


def _wait_checks_closed() -> bool:
    """True iff the body of the `while True` loop of _wait_for_available_connection starts with
    `if self._closed: raise ...` (and that is the only use of self._closed there); False iff the
    function never looks at self._closed; anything else is outside the recognised shapes."""
    fn = core.find_function(F, "_wait_for_available_connection", cls="BaseConnector")
    uses = [n for n in ast.walk(fn) if _self_attr(n, "_closed")]
    loops = [n for n in fn.body if isinstance(n, ast.While)]
    if len(loops) != 1 or not (isinstance(loops[0].test, ast.Constant) and loops[0].test.value is True):
        raise TranslatorError("_wait_for_available_connection: expected exactly one top-level `while True` loop")
    if not uses:
        return False
    first = loops[0].body[0]
    ok = (isinstance(first, ast.If) and _self_attr(first.test, "_closed") and not first.orelse
          and len(first.body) == 1 and isinstance(first.body[0], ast.Raise) and len(uses) == 1)
    if not ok:
        raise TranslatorError("_wait_for_available_connection: self._closed is used in an unrecognised way")
    return True


def _close_clears_per_host() -> bool:
    """True iff the `finally:` of _close_immediately calls self._acquired_per_host.clear();
    False iff the function never mentions _acquired_per_host."""
    fn = core.find_function(F, "_close_immediately", cls="BaseConnector")
    uses = [n for n in ast.walk(fn) if _self_attr(n, "_acquired_per_host")]
    if not uses:
        return False
    tries = [n for n in fn.body if isinstance(n, ast.Try)]
    if len(tries) != 1:
        raise TranslatorError("_close_immediately: expected one try/finally")
    hits = [st for st in tries[0].finalbody
            if isinstance(st, ast.Expr) and isinstance(st.value, ast.Call) and not st.value.args
            and isinstance(st.value.func, ast.Attribute) and st.value.func.attr == "clear"
            and _self_attr(st.value.func.value, "_acquired_per_host")]
    if len(hits) != 1 or len(uses) != 1:
        raise TranslatorError("_close_immediately: _acquired_per_host is used in an unrecognised way")
    # the same finally must clear _acquired and the waiters too (the model's EClose does)
    for nm in ("_acquired", "_conns", "_waiters"):
        if not any(isinstance(st, ast.Expr) and isinstance(st.value, ast.Call) and isinstance(st.value.func, ast.Attribute)
                   and st.value.func.attr == "clear" and _self_attr(st.value.func.value, nm) for st in tries[0].finalbody):
            raise TranslatorError(f"_close_immediately: finally no longer clears self.{nm}")
    return True


_CMP = {ast.Lt: "(a <? {v})", ast.LtE: "(a <=? {v})", ast.Gt: "({v} <? a)", ast.GtE: "({v} <=? a)",
        ast.Eq: "(a =? {v})", ast.NotEq: "(negb (a =? {v}))"}


def _connect_sites():
    """connect(): `available = self._available_connections(key)` once; `available > 0 and (conn := await
    self._get(...)) is not None` guards the fast path; `available <= 0` decides to wait.
    -> (fast_path_text, must_wait_text).  The older shape (no fast-path guard, the call compared directly)
    is still recognised and yields fast_path = true."""
    fn = core.find_function(F, "connect", cls="BaseConnector")
    calls = [n for n in ast.walk(fn) if isinstance(n, ast.Attribute) and n.attr == "_available_connections"]
    if len(calls) != 1:
        raise TranslatorError(f"connect: _available_connections used {len(calls)} times")
    assigns = [n for n in ast.walk(fn) if isinstance(n, ast.Assign) and isinstance(n.value, ast.Call)
               and isinstance(n.value.func, ast.Attribute) and n.value.func.attr == "_available_connections"]
    if not assigns:
        return "true", _call_site("connect", "if")
    if len(assigns) != 1 or len(assigns[0].targets) != 1 or not isinstance(assigns[0].targets[0], ast.Name):
        raise TranslatorError("connect: unrecognised assignment of the capacity")
    var = assigns[0].targets[0].id
    stores = [n for n in ast.walk(fn) if isinstance(n, ast.Name) and n.id == var and isinstance(n.ctx, ast.Store)]
    loads = [n for n in ast.walk(fn) if isinstance(n, ast.Name) and n.id == var and isinstance(n.ctx, ast.Load)]
    cmps = [n for n in ast.walk(fn) if isinstance(n, ast.Compare) and len(n.ops) == 1 and isinstance(n.left, ast.Name)
            and n.left.id == var and isinstance(n.comparators[0], ast.Constant) and isinstance(n.comparators[0].value, int)]
    if len(stores) != 1 or len(loads) != 2 or len(cmps) != 2:
        raise TranslatorError("connect: the capacity variable must be assigned once and compared exactly twice")
    # the fast-path comparison is the first operand of `<cmp> and (conn := await self._get(..)) is not None`
    fast = [n for n in ast.walk(fn) if isinstance(n, ast.If) and isinstance(n.test, ast.BoolOp) and isinstance(n.test.op, ast.And)
            and len(n.test.values) == 2 and n.test.values[0] in cmps
            and any(isinstance(x, ast.Attribute) and x.attr == "_get" for x in ast.walk(n.test.values[1]))]
    if len(fast) != 1:
        raise TranslatorError("connect: fast path is not `available <cmp> and (conn := await self._get(...)) is not None`")
    fcmp = fast[0].test.values[0]
    wcmp = [c for c in cmps if c is not fcmp][0]
    waits = [n for n in ast.walk(fn) if isinstance(n, ast.If) and n.test is wcmp
             and any(isinstance(x, ast.Attribute) and x.attr == "_wait_for_available_connection" for x in ast.walk(n))]
    if len(waits) != 1:
        raise TranslatorError("connect: the second capacity comparison does not guard _wait_for_available_connection")
    txt = lambda c: _CMP[type(c.ops[0])].format(v=c.comparators[0].value)
    return txt(fcmp), txt(wcmp)


def _requeue_hands_on() -> bool:
    """_wait_for_available_connection(): after `if self._available_connections(key) > 0: break` the loop body
    ends with [`self._release_waiter()`,] `attempts += 1`."""
    fn = core.find_function(F, "_wait_for_available_connection", cls="BaseConnector")
    loop = [n for n in fn.body if isinstance(n, ast.While)][0]
    body = loop.body
    idx = [i for i, st in enumerate(body) if isinstance(st, ast.If) and len(st.body) == 1 and isinstance(st.body[0], ast.Break)]
    if len(idx) != 1:
        raise TranslatorError("_wait_for_available_connection: expected one `if ...: break`")
    tail = body[idx[0] + 1:]
    is_rw = lambda st: (isinstance(st, ast.Expr) and isinstance(st.value, ast.Call) and not st.value.args
                        and _self_attr(st.value.func, "_release_waiter"))
    is_inc = lambda st: isinstance(st, ast.AugAssign) and isinstance(st.target, ast.Name) and st.target.id == "attempts"
    if len(tail) == 1 and is_inc(tail[0]):
        return False
    if len(tail) == 2 and is_rw(tail[0]) and is_inc(tail[1]):
        return True
    raise TranslatorError("_wait_for_available_connection: unrecognised statements after the `break` test")


def generate() -> str:
    out = ["Open Scope Z_scope.\n", _gen_available()]
    fast, wait = _connect_sites()
    out.append("(* connect(): `available = self._available_connections(key)`; fast path `available > 0 and (conn := await self._get(..))` *)\n"
               f"Definition connect_fast_path (a : Z) : bool := {fast}.\n")
    out.append("(* connect(): `if available <= 0: await self._wait_for_available_connection` *)\n"
               f"Definition connect_must_wait (a : Z) : bool := {wait}.\n")
    out.append("(* _wait_for_available_connection(): `if self._available_connections(key) > 0: break` *)\n"
               f"Definition wait_slot_found (a : Z) : bool := {_call_site('_wait_for_available_connection', 'if')}.\n")
    out.append("(* _release_waiter(): `if self._available_connections(key) < 1: continue` *)\n"
               f"Definition release_skips_key (a : Z) : bool := {_call_site('_release_waiter', 'if')}.\n")
    b = lambda x: "true" if x else "false"
    out.append("(* _wait_for_available_connection(): `if self._closed: raise ClientConnectionError` at the top of the loop *)\n"
               f"Definition wait_checks_closed : bool := {b(_wait_checks_closed())}.\n")
    out.append("(* _close_immediately(): `self._acquired_per_host.clear()` in the finally block *)\n"
               f"Definition close_clears_per_host : bool := {b(_close_clears_per_host())}.\n")
    out.append("(* _wait_for_available_connection(): a woken waiter that finds no slot calls self._release_waiter() before queueing again *)\n"
               f"Definition requeue_hands_on : bool := {b(_requeue_hands_on())}.\n")
    return "\n".join(out)
