"""Body-decoding data (C09) -> Generated/DecodeGen.v

Read from the source text (never imported):
  aiohttp/compression_utils.py   MEMBER_WINDOW_MIN/MAX, MAX_DECOMPRESS_MEMBERS, ZLIB_MAX_LENGTH_UNLIMITED,
                                 _decompress_members: window doubling, budget formula and its stop test,
                                 the member-count test; ZLibDecompressor.decompress_sync: the gzip reset test
  aiohttp/http_parser.py         DeflateBuffer.feed_data: the max_length formula (incl. the sys.maxsize test),
                                 the raw-deflate sniff `chunk[0] & 0xF != 8`; HttpPayloadParser: the remaining
                                 length formula `max(required - len(chunk), 0)`
  aiohttp/streams.py             StreamReader water marks and the pause / resume / stale-split tests
                                 (own copy in N; C08's StreamGen.v holds the Z versions)
  aiohttp/web_request.py         BaseRequest.read: the client_max_size test
All sizes are non-negative, so the formulas are emitted over N (truncated subtraction == max(a-b,0)).
Anything that does not have the expected shape raises TranslatorError (fail-closed).
"""
import ast
import sys

from . import core
from .core import TranslatorError

OUTPUT = "DecodeGen.v"
ITEMS = ["dg_window_min", "dg_window_max", "dg_max_members", "dg_unlimited", "dg_window_next", "dg_budget",
         "dg_budget_spent", "dg_too_many_members", "dg_gzip_reset", "dg_max_length", "dg_sniff_raw",
         "dg_remaining", "dg_needs_input_clears_pause", "dg_wait_checks_exception", "dg_close_keeps_pending_parser", "dg_low", "dg_high", "dg_highc", "dg_lowc", "dg_feed_pause", "dg_chunk_pause",
         "dg_resume_not_eof", "dg_resume_size", "dg_resume_when_empty", "dg_resume_chunks", "dg_split_stale", "dg_raises", "dg_raise_low", "dg_raise_high",
         "dg_too_large", "dg_maxsize", "dg_srv_closing_feeds"]

CU = "aiohttp/compression_utils.py"
HP = "aiohttp/http_parser.py"
ST = "aiohttp/streams.py"
WR = "aiohttp/web_request.py"
WP = "aiohttp/web_protocol.py"


def _int_const(rel, name):
    v = core.literal(core.find_assign(rel, name))
    if not isinstance(v, int) or isinstance(v, bool):
        raise TranslatorError(f"{rel}: {name} is not an int literal")
    return v


def _dump(src):
    return ast.dump(ast.parse(src, mode="eval").body)


def _one(nodes, what):
    nodes = list(nodes)
    if len(nodes) != 1:
        raise TranslatorError(f"{what}: found {len(nodes)} candidates")
    return nodes[0]


def _assigns_to_name(fn, name):
    return [n.value for n in ast.walk(fn) if isinstance(n, ast.Assign) and len(n.targets) == 1
            and isinstance(n.targets[0], ast.Name) and n.targets[0].id == name]


def _self_assigns(fn, attr):
    out = []
    for n in ast.walk(fn):
        tg, val = core._targets(n)
        for t in tg:
            if isinstance(t, ast.Attribute) and t.attr == attr and isinstance(t.value, ast.Name) and t.value.id == "self":
                out.append(val)
    return out


def _guarded_calls(fn, owner, meth):
    out = []
    for n in ast.walk(fn):
        if isinstance(n, ast.If) and not n.orelse and len(n.body) == 1:
            b = n.body[0]
            if (isinstance(b, ast.Expr) and isinstance(b.value, ast.Call) and isinstance(b.value.func, ast.Attribute)
                    and b.value.func.attr == meth and isinstance(b.value.func.value, ast.Attribute)
                    and b.value.func.value.attr == owner):
                out.append(n)
    return out


class _Sub(ast.NodeTransformer):
    def __init__(self, table):
        self.table = {_dump(k): v for k, v in table.items()}

    def visit(self, node):
        if isinstance(node, ast.expr) and ast.dump(node) in self.table:
            return ast.Name(id=self.table[ast.dump(node)], ctx=ast.Load())
        return self.generic_visit(node)


def _sub(node, table):
    import copy
    return _Sub(table).visit(copy.deepcopy(node))


def generate() -> str:
    out = ["(* body decoding (C09): constants, integer formulas and tests; sizes are N *)"]

    # ---------------------------------------------------------------- compression_utils.py
    wmin = _int_const(CU, "MEMBER_WINDOW_MIN")
    wmax = _int_const(CU, "MEMBER_WINDOW_MAX")
    mm = _int_const(CU, "MAX_DECOMPRESS_MEMBERS")
    unl = _int_const(CU, "ZLIB_MAX_LENGTH_UNLIMITED")
    if unl != 0:
        raise TranslatorError("ZLIB_MAX_LENGTH_UNLIMITED is not 0 (the model encodes 'unlimited' as 0)")
    out += [f"Definition dg_window_min : N := {wmin}.", f"Definition dg_window_max : N := {wmax}.",
            f"Definition dg_max_members : N := {mm}.", f"Definition dg_unlimited : N := {unl}."]
    zcls = _one([n for n in core.module(CU).body if isinstance(n, ast.ClassDef) and n.name == "ZLibDecompressor"], "ZLibDecompressor")
    ua = _one([n for n in zcls.body if isinstance(n, ast.Assign) and isinstance(n.targets[0], ast.Name) and n.targets[0].id == "_unlimited"], "ZLibDecompressor._unlimited")
    if not (isinstance(ua.value, ast.Name) and ua.value.id == "ZLIB_MAX_LENGTH_UNLIMITED"):
        raise TranslatorError("ZLibDecompressor._unlimited is not ZLIB_MAX_LENGTH_UNLIMITED")

    dm = core.find_function(CU, "_decompress_members", cls="ConcatDecompressionHandler")
    env = {"window": "window", "MEMBER_WINDOW_MAX": "dg_window_max", "MEMBER_WINDOW_MIN": "dg_window_min",
           "max_length": "max_length", "produced": "produced", "members": "members",
           "MAX_DECOMPRESS_MEMBERS": "dg_max_members", "budget": "budget"}
    wins = _assigns_to_name(dm, "window")
    dumps = sorted(ast.dump(w) for w in wins)
    want = sorted([_dump("MEMBER_WINDOW_MIN"), _dump("MEMBER_WINDOW_MIN"), _dump("min(window * 2, MEMBER_WINDOW_MAX)")])
    if dumps != want:
        raise TranslatorError("_decompress_members: window is not (MIN, MIN on a new member, min(window*2, MAX))")
    nxt = [w for w in wins if isinstance(w, ast.Call)][0]
    out.append(f"Definition dg_window_next (window : N) : N := {core.formula(nxt, env)}.")
    buds = _assigns_to_name(dm, "budget")
    if sorted(ast.dump(b) for b in buds) != sorted([_dump("max_length"), _dump("max_length - produced")]):
        raise TranslatorError("_decompress_members: budget is not (max_length, max_length - produced)")
    out.append("Definition dg_budget (max_length produced : N) : N := (max_length - produced).")
    stop = [n for n in ast.walk(dm) if isinstance(n, ast.If) and ast.dump(n.test) == _dump("budget <= 0")]
    if len(stop) != 1 or not isinstance(stop[0].body[-1], ast.Break):
        raise TranslatorError("_decompress_members: `if budget <= 0: ...; break` not found")
    out.append("(* `budget <= 0` with budget = max_length - produced over Python ints *)")
    out.append("Definition dg_budget_spent (max_length produced : N) : bool := (max_length <=? produced).")
    guard = [n for n in ast.walk(dm) if isinstance(n, ast.If) and ast.dump(n.test) == _dump("max_length != self._unlimited")]
    if len(guard) != 1:
        raise TranslatorError("_decompress_members: `if max_length != self._unlimited` not found")
    tm = [n for n in ast.walk(dm) if isinstance(n, ast.If) and len(n.body) == 1 and isinstance(n.body[0], ast.Raise)]
    if len(tm) != 1:
        raise TranslatorError("_decompress_members: expected exactly one raising test")
    out.append(f"Definition dg_too_many_members (members : N) : bool := {core.comparison(tm[0].test, env)}.")
    wl = _one([n for n in ast.walk(dm) if isinstance(n, ast.While)], "_decompress_members while")
    if ast.dump(wl.test) != _dump("pos < len(remaining)"):
        raise TranslatorError("_decompress_members: loop test is not `pos < len(remaining)`")

    ds = core.find_function(CU, "decompress_sync", cls="ZLibDecompressor")
    gz = [n for n in ast.walk(ds) if isinstance(n, ast.If)
          and ast.dump(n.test) == _dump("self._decompressor.eof and self._mode > self._zlib_backend.MAX_WBITS")]
    if len(gz) != 1:
        raise TranslatorError("decompress_sync: gzip reset test not found")
    out.append("Definition dg_gzip_reset (eof : bool) (mode max_wbits : N) : bool := eof && (max_wbits <? mode).")
    mem = [n for n in ast.walk(ds) if isinstance(n, ast.If)
           and ast.dump(n.test) == _dump("self._decompressor.eof and self._decompressor.unused_data")]
    if len(mem) != 1:
        raise TranslatorError("decompress_sync: multi-member test not found")
    # db20ae1: mid_stream.  `fed = bool(data) or bool(self._decompressor.unconsumed_tail)` after the pending merge and
    # before the decompress call; `if fed or self.mid_stream: self.mid_stream = not self._decompressor.eof` after the
    # members walk / _last_empty and before the gzip reset; __init__ starts with mid_stream = False.
    top = ds.body
    def _idx(pred, what):
        hits = [i for i, n in enumerate(top) if pred(n)]
        if len(hits) != 1:
            raise TranslatorError(f"decompress_sync: {what} not found exactly once at top level")
        return hits[0]
    i_fed = _idx(lambda n: isinstance(n, ast.Assign) and len(n.targets) == 1 and ast.unparse(n.targets[0]) == "fed"
                 and ast.dump(n.value) == _dump("bool(data) or bool(self._decompressor.unconsumed_tail)"), "`fed = bool(data) or bool(unconsumed_tail)`")
    i_pend = _idx(lambda n: isinstance(n, ast.If) and ast.dump(n.test) == _dump("self._pending_unused_data is not None"), "pending merge")
    i_dec = _idx(lambda n: isinstance(n, ast.Assign) and isinstance(n.value, ast.Call) and ast.dump(n.value.func) == _dump("self._decompressor.decompress"), "decompress call")
    i_mem = top.index(mem[0]) if mem[0] in top else -1
    i_gz = top.index(gz[0]) if gz[0] in top else -1
    i_mid = _idx(lambda n: isinstance(n, ast.If) and ast.dump(n.test) == _dump("fed or self.mid_stream"), "`if fed or self.mid_stream`")
    midif = top[i_mid]
    if not (len(midif.body) == 1 and not midif.orelse and isinstance(midif.body[0], ast.Assign)
            and ast.unparse(midif.body[0]) == "self.mid_stream = not self._decompressor.eof"):
        raise TranslatorError("decompress_sync: mid_stream update is not `self.mid_stream = not self._decompressor.eof`")
    if not (0 <= i_pend < i_fed < i_dec < i_mem < i_mid < i_gz):
        raise TranslatorError("decompress_sync: order is not pending merge, fed, decompress, members, mid_stream, gzip reset")
    if [ast.unparse(n) for n in ast.walk(ds) if isinstance(n, (ast.Assign, ast.AugAssign)) and "mid_stream" in ast.unparse(n.targets[0] if isinstance(n, ast.Assign) else n.target)] != ["self.mid_stream = not self._decompressor.eof"]:
        raise TranslatorError("decompress_sync: mid_stream is assigned elsewhere")
    zi = core.find_function(CU, "__init__", cls="ZLibDecompressor")
    if [ast.unparse(v) for v in _self_assigns(zi, "mid_stream")] != ["False"]:
        raise TranslatorError("ZLibDecompressor.__init__: mid_stream does not start False")
    da = core.find_function(CU, "data_available", cls="ZLibDecompressor")
    ret = _one([n for n in ast.walk(da) if isinstance(n, ast.Return)], "data_available return")
    if ast.dump(ret.value) != _dump("bool(self._decompressor.unconsumed_tail) or not self._last_empty or self._pending_unused_data is not None"):
        raise TranslatorError("ZLibDecompressor.data_available changed shape")

    # ---------------------------------------------------------------- http_parser.py DeflateBuffer
    fd = core.find_function(HP, "feed_data", cls="DeflateBuffer")
    ml = _one(_assigns_to_name(fd, "max_length"), "DeflateBuffer.feed_data max_length")
    if not (isinstance(ml, ast.IfExp) and ast.dump(ml.test) == _dump("low_water >= sys.maxsize")
            and isinstance(ml.body, ast.Constant)):
        raise TranslatorError("DeflateBuffer.feed_data: max_length is not `<k> if low_water >= sys.maxsize else <formula>`")
    lw = _one(_assigns_to_name(fd, "low_water"), "DeflateBuffer.feed_data low_water")
    if ast.dump(lw) != _dump("self.out._low_water"):
        raise TranslatorError("DeflateBuffer.feed_data: low_water is not self.out._low_water")
    fenv = {"_max_decompress_size": "mds", "low_water": "low"}
    out.append(f"Definition dg_maxsize : N := {sys.maxsize}.")
    out.append(f"Definition dg_max_length (mds low : N) : N := if (dg_maxsize <=? low) then {int(ml.body.value)} else {core.formula(ml.orelse, fenv)}.")
    calls = [n for n in ast.walk(fd) if isinstance(n, ast.Call) and isinstance(n.func, ast.Attribute) and n.func.attr == "decompress_sync"]
    if len(calls) != 1 or len(calls[0].keywords) != 1 or calls[0].keywords[0].arg != "max_length" \
            or ast.dump(calls[0].keywords[0].value) != _dump("max_length"):
        raise TranslatorError("DeflateBuffer.feed_data: decompress_sync is not called with max_length=max_length")
    sn = [n for n in ast.walk(fd) if isinstance(n, ast.If) and isinstance(n.test, ast.BoolOp) and isinstance(n.test.op, ast.And)
          and len(n.test.values) == 2 and ast.dump(n.test.values[0]) == _dump("self.encoding == 'deflate'")]
    if len(sn) != 1:
        raise TranslatorError("DeflateBuffer.feed_data: raw-deflate sniff not found")
    t = sn[0].test.values[1]
    ok = (isinstance(t, ast.Compare) and len(t.ops) == 1 and isinstance(t.ops[0], ast.NotEq)
          and isinstance(t.left, ast.BinOp) and isinstance(t.left.op, ast.BitAnd)
          and ast.dump(t.left.left) == _dump("chunk[0]") and isinstance(t.left.right, ast.Constant)
          and isinstance(t.comparators[0], ast.Constant))
    if not ok:
        raise TranslatorError("DeflateBuffer.feed_data: sniff is not `chunk[0] & K != V`")
    mask, val = t.left.right.value, t.comparators[0].value
    if mask + 1 & mask:
        raise TranslatorError("sniff mask is not 2^k-1")
    out.append(f"Definition dg_sniff_raw (b0 : N) : bool := negb ((b0 mod {mask + 1}) =? {val}).")
    # DeflateBuffer.feed_eof: `if self.size > 0:` holds exactly the deflate-eof test and the mid_stream test (db20ae1),
    # each raising ContentEncodingError, and the method ends with self.out.feed_eof()
    dfe = core.find_function(HP, "feed_eof", cls="DeflateBuffer")
    szs = [n for n in dfe.body if isinstance(n, ast.If) and ast.dump(n.test) == _dump("self.size > 0")]
    if len(szs) != 1 or szs[0].orelse:
        raise TranslatorError("DeflateBuffer.feed_eof: `if self.size > 0:` not found")
    inner = [n for n in szs[0].body if not (isinstance(n, ast.Expr) and isinstance(n.value, ast.Constant))]
    tests = [ast.unparse(n.test) if isinstance(n, ast.If) else "?" for n in inner]
    if tests != ["self.encoding == 'deflate' and (not self.decompressor.eof)", "self.decompressor.mid_stream"]:
        raise TranslatorError(f"DeflateBuffer.feed_eof: stream-end tests are {tests}, expected the deflate eof test then mid_stream")
    for n in inner:
        if n.orelse or len(n.body) != 1 or not isinstance(n.body[0], ast.Raise) or not isinstance(n.body[0].exc, ast.Call) \
                or ast.unparse(n.body[0].exc.func) != "ContentEncodingError":
            raise TranslatorError("DeflateBuffer.feed_eof: a stream-end test does not raise ContentEncodingError")
    if ast.unparse(dfe.body[-1]) != "self.out.feed_eof()" or dfe.body.index(szs[0]) != len(dfe.body) - 2:
        raise TranslatorError("DeflateBuffer.feed_eof: does not end with the size test followed by self.out.feed_eof()")
    init = core.find_function(HP, "__init__", cls="HttpPayloadParser")
    dbc = [n for n in ast.walk(init) if isinstance(n, ast.Call) and isinstance(n.func, ast.Name) and n.func.id == "DeflateBuffer"]
    if len(dbc) != 1 or [k.arg for k in dbc[0].keywords] != ["max_decompress_size"] or ast.dump(dbc[0].keywords[0].value) != _dump("limit"):
        raise TranslatorError("HttpPayloadParser: DeflateBuffer(..., max_decompress_size=limit) not found")

    pf = core.find_function(HP, "feed_data", cls="HttpPayloadParser")
    rem = [v for v in _self_assigns(pf, "_length") + _self_assigns(pf, "_chunk_size") if isinstance(v, ast.Call)]
    if len(rem) != 2 or any(ast.dump(v) != _dump("max(required - len(chunk), 0)") for v in rem):
        raise TranslatorError("HttpPayloadParser.feed_data: remaining-length formula changed")
    out.append("(* max(required - len(chunk), 0) *)\nDefinition dg_remaining (required n : N) : N := (N.max (required - n) 0).")
    # 0473a42 / 4127650 (lax chunked parser): tail length, lone CR after chunk data, trailer line length
    ifs = [n for n in ast.walk(pf) if isinstance(n, ast.If)]
    def _has(test, body, what):
        hits = [n for n in ifs if ast.unparse(n.test) == test]
        if len(hits) != 1 or [ast.unparse(x) for x in hits[0].body][:len(body)] != body:
            raise TranslatorError(f"HttpPayloadParser.feed_data: {what} changed shape")
        return hits[0]
    _has("SEP == b'\\r\\n' or self._chunk != ChunkState.PARSE_CHUNKED_SIZE", ["tail_len -= self._chunk_tail.endswith(b'\\r')"], "chunk tail length (CR of the terminator)")
    _has("tail_len > max_line_length", [], "chunk tail length test")
    if [ast.unparse(v) for v in _assigns_to_name(pf, "tail_len")] != ["len(self._chunk_tail)"]:
        raise TranslatorError("HttpPayloadParser.feed_data: tail_len is not len(self._chunk_tail)")
    lone = _has("len(chunk) == 1", ["self._chunk_tail = chunk", "self._paused = False", "return (PayloadState.PAYLOAD_NEEDS_INPUT, b'')"], "lone CR after chunk data")
    outer = _has("self._lax and chunk.startswith(b'\\r')", [], "lax CR skip after chunk data")
    if outer.body[0] is not lone or [ast.unparse(x) for x in outer.body[1:]] != ["chunk = chunk[1:]"]:
        raise TranslatorError("HttpPayloadParser.feed_data: lax CR skip is not `if len(chunk) == 1: keep; chunk = chunk[1:]`")
    if [ast.unparse(v) for v in _assigns_to_name(pf, "line_len")] != ["len(line)"]:
        raise TranslatorError("HttpPayloadParser.feed_data: trailer line_len is not len(line)")
    _has("SEP == b'\\n'", ["line_len -= line.endswith(b'\\r')", "line = line.rstrip(b'\\r')"], "trailer line length (lax)")
    _has("line_len > self._max_field_size", [], "trailer line length test")
    # every `return PayloadState.PAYLOAD_NEEDS_INPUT, ...` is preceded by `self._paused = False` (dc85988)
    def _blocks(node):
        for n in ast.walk(node):
            for fld in ("body", "orelse", "finalbody"):
                b = getattr(n, fld, None)
                if isinstance(b, list) and b and isinstance(b[0], ast.stmt):
                    yield b
    total = cleared = 0
    for blk in _blocks(pf):
        for i, st in enumerate(blk):
            if (isinstance(st, ast.Return) and isinstance(st.value, ast.Tuple) and st.value.elts
                    and ast.dump(st.value.elts[0]) == _dump("PayloadState.PAYLOAD_NEEDS_INPUT")):
                total += 1
                if i > 0 and ast.dump(blk[i - 1]) == ast.dump(ast.parse("self._paused = False").body[0]):
                    cleared += 1
    if total == 0 or cleared != total:
        raise TranslatorError(f"HttpPayloadParser.feed_data: {cleared} of {total} PAYLOAD_NEEDS_INPUT returns clear self._paused first")
    out.append(f"(* all {total} PAYLOAD_NEEDS_INPUT returns of HttpPayloadParser.feed_data clear _paused first *)\nDefinition dg_needs_input_clears_pause : bool := true.")
    # StreamReader._wait raises a pending exception before anything else (497a2a6)
    wfn = core.find_function(ST, "_wait", cls="StreamReader")
    wbody = [x for x in wfn.body if not (isinstance(x, ast.Expr) and isinstance(x.value, ast.Constant))]
    if not (wbody and isinstance(wbody[0], ast.If) and ast.dump(wbody[0].test) == _dump("self._exception is not None")
            and len(wbody[0].body) == 1 and isinstance(wbody[0].body[0], ast.Raise)):
        raise TranslatorError("StreamReader._wait does not start with `if self._exception is not None: raise self._exception`")
    out.append("Definition dg_wait_checks_exception : bool := true.")
    # ResponseHandler.connection_lost keeps the parser while the payload parser is still there (72e5a25)
    cl = core.find_function("aiohttp/client_proto.py", "connection_lost", cls="ResponseHandler")
    drops = [n for n in ast.walk(cl) if isinstance(n, ast.If) and len(n.body) == 1 and not n.orelse
             and ast.dump(n.body[0]) == ast.dump(ast.parse("self._parser = None").body[0])]
    uncond = [x for x in cl.body if ast.dump(x) == ast.dump(ast.parse("self._parser = None").body[0])]
    if len(drops) != 1 or uncond or ast.dump(drops[0].test) != _dump("not body_pending"):
        raise TranslatorError("ResponseHandler.connection_lost: `if not body_pending: self._parser = None` not found (or the parser is dropped unconditionally)")
    bp = [n.value for n in ast.walk(cl) if isinstance(n, ast.Assign) and isinstance(n.targets[0], ast.Name) and n.targets[0].id == "body_pending"]
    if sorted(ast.dump(v) for v in bp) != sorted([_dump("False"), _dump("self._parser._payload_parser is not None")]):
        raise TranslatorError("ResponseHandler.connection_lost: body_pending is not (False, self._parser._payload_parser is not None)")
    fe = core.find_function(HP, "feed_eof", cls="HttpParser")
    hm = [n for n in ast.walk(fe) if ast.dump(n) == ast.dump(ast.parse("self._payload_has_more_data = True").body[0])]
    if len(hm) != 1:
        raise TranslatorError("HttpParser.feed_eof does not set _payload_has_more_data when the payload parser is not done")
    out.append("Definition dg_close_keeps_pending_parser : bool := true.")

    # ---------------------------------------------------------------- streams.py
    C = "StreamReader"
    init = core.find_function(ST, "__init__", cls=C)
    env = {"limit": "limit"}

    def sa(attr, e):
        v = _one(_self_assigns(init, attr), f"StreamReader.__init__ self.{attr}")
        return core.formula(v, e)
    out.append(f"Definition dg_low (limit : N) : N := {sa('_low_water', env)}.")
    out.append(f"Definition dg_high (limit : N) : N := {sa('_high_water', env)}.")
    out.append(f"Definition dg_highc (limit : N) : N := {sa('_high_water_chunks', env)}.")
    out.append(f"Definition dg_lowc (limit : N) : N := {sa('_low_water_chunks', {**env, '_high_water_chunks': '(dg_highc limit)'})}.")
    fn = core.find_function(ST, "feed_data", cls=C)
    g = _one(_guarded_calls(fn, "_protocol", "pause_reading"), "StreamReader.feed_data pause test")
    out.append(f"Definition dg_feed_pause (size high : N) : bool := {core.comparison(g.test, {'_size': 'size', '_high_water': 'high'})}.")
    fn = core.find_function(ST, "end_http_chunk_receiving", cls=C)
    g = _one(_guarded_calls(fn, "_protocol", "pause_reading"), "end_http_chunk_receiving pause test")
    tbl = {"len(self._http_chunk_splits)": "nsplits"}
    out.append("Definition dg_chunk_pause (nsplits highc : N) : bool := "
               + core.comparison(_sub(g.test, tbl), {"nsplits": "nsplits", "_high_water_chunks": "highc"}) + ".")
    fn = core.find_function(ST, "_read_nowait_chunk", cls=C)
    g = _one(_guarded_calls(fn, "_protocol", "resume_reading"), "_read_nowait_chunk resume test")
    rt = g.test
    # b336e09: `not self._eof and (...) and (...)`; older shape: two conjuncts
    not_eof = False
    if isinstance(rt, ast.BoolOp) and isinstance(rt.op, ast.And) and len(rt.values) == 3:
        if ast.dump(rt.values[0]) != _dump("not self._eof"):
            raise TranslatorError("_read_nowait_chunk: resume test has three conjuncts but the first is not `not self._eof`")
        not_eof = True
        rt = ast.BoolOp(op=ast.And(), values=rt.values[1:])
    if not (isinstance(rt, ast.BoolOp) and isinstance(rt.op, ast.And) and len(rt.values) == 2
            and isinstance(rt.values[1], ast.BoolOp) and isinstance(rt.values[1].op, ast.Or) and len(rt.values[1].values) == 2
            and ast.dump(rt.values[1].values[0]) == _dump("self._http_chunk_splits is None")):
        raise TranslatorError("_read_nowait_chunk: resume test is not `[not eof and] a and (splits is None or b)`")
    out.append(f"(* `not self._eof and` present in the resume test *)\nDefinition dg_resume_not_eof : bool := {'true' if not_eof else 'false'}.")
    first = rt.values[0]
    when_empty = False
    if isinstance(first, ast.BoolOp):      # `(self._size < self._low_water or not self._buffer)`
        if not (isinstance(first.op, ast.Or) and len(first.values) == 2 and ast.dump(first.values[1]) == _dump("not self._buffer")):
            raise TranslatorError("_read_nowait_chunk: resume test: first conjunct is not `size < low` or `(size < low or not self._buffer)`")
        first, when_empty = first.values[0], True
    out.append(f"Definition dg_resume_size (size low : N) : bool := {core.comparison(first, {'_size': 'size', '_low_water': 'low'})}.")
    out.append(f"(* `or not self._buffer` present in the resume test *)\nDefinition dg_resume_when_empty : bool := {'true' if when_empty else 'false'}.")
    out.append("Definition dg_resume_chunks (nsplits lowc : N) : bool := "
               + core.comparison(_sub(rt.values[1].values[1], tbl), {"nsplits": "nsplits", "_low_water_chunks": "lowc"}) + ".")
    wl = _one([n for n in ast.walk(fn) if isinstance(n, ast.While)], "_read_nowait_chunk while")
    if not (isinstance(wl.test, ast.BoolOp) and len(wl.test.values) == 2):
        raise TranslatorError("_read_nowait_chunk: while test shape")
    out.append("Definition dg_split_stale (s0 cursor : N) : bool := "
               + core.comparison(_sub(wl.test.values[1], {"chunk_splits[0]": "s0"}), {"s0": "s0", "_cursor": "cursor"}) + ".")
    fn = core.find_function(ST, "set_read_chunk_size", cls=C)
    body = [s for s in fn.body if not (isinstance(s, ast.Expr) and isinstance(s.value, ast.Constant))]
    if len(body) != 1 or not isinstance(body[0], ast.If) or body[0].orelse or len(body[0].body) != 2:
        raise TranslatorError("set_read_chunk_size: expected `if n > low: low = ..; high = ..`")
    e2 = {"n": "n", "_low_water": "low"}
    out.append(f"Definition dg_raises (n low : N) : bool := {core.comparison(body[0].test, e2)}.")
    fake = ast.FunctionDef(name="x", body=body[0].body)
    out.append(f"Definition dg_raise_low (n : N) : N := {core.formula(_one(_self_assigns(fake, '_low_water'), 'raise low'), e2)}.")
    out.append(f"Definition dg_raise_high (n : N) : N := {core.formula(_one(_self_assigns(fake, '_high_water'), 'raise high'), e2)}.")
    rd = core.find_function(ST, "read", cls=C)
    sc = sorted(ast.dump(c.args[0]) for c in ast.walk(rd) if isinstance(c, ast.Call) and isinstance(c.func, ast.Attribute)
                and c.func.attr == "set_read_chunk_size")
    if sc != sorted([_dump("sys.maxsize"), _dump("n")]):
        raise TranslatorError("StreamReader.read: expected set_read_chunk_size(sys.maxsize) and set_read_chunk_size(n)")

    # ---------------------------------------------------------------- web_request.py
    fn = core.find_function(WR, "read", cls="BaseRequest")
    tl = [n for n in ast.walk(fn) if isinstance(n, ast.If) and len(n.body) == 1 and isinstance(n.body[0], ast.Raise)
          and isinstance(n.body[0].exc, ast.Call) and getattr(n.body[0].exc.func, "id", None) == "HTTPRequestEntityTooLarge"]
    if len(tl) != 1:
        raise TranslatorError(f"BaseRequest.read: expected one HTTPRequestEntityTooLarge test, found {len(tl)}")
    out.append(f"Definition dg_too_large (body_size cms : N) : bool := {core.comparison(tl[0].test, {'body_size': 'body_size', '_client_max_size': 'cms'})}.")
    sc = [c for c in ast.walk(fn) if isinstance(c, ast.Call) and isinstance(c.func, ast.Attribute) and c.func.attr == "set_read_chunk_size"]
    if len(sc) != 1 or ast.dump(sc[0].args[0]) != _dump("self._client_max_size"):
        raise TranslatorError("BaseRequest.read: set_read_chunk_size(self._client_max_size) not found")
    wl = _one([n for n in ast.walk(fn) if isinstance(n, ast.While)], "BaseRequest.read loop")
    order = [type(s).__name__ for s in wl.body]
    if order != ["Assign", "Expr", "If", "If"]:
        raise TranslatorError(f"BaseRequest.read: loop body shape changed: {order}")
    # ---------------------------------------------------------------- web_protocol.py
    # RequestHandler.data_received while the connection is closing (`self._force_close or self._close`):
    # the gate that decides whether the request being handled still gets its body fed.  It is reached with
    # b"" by BaseProtocol.resume_reading(), which is how input held by the paused parser is pushed on.
    fn = core.find_function(WP, "data_received", cls="RequestHandler")
    body = [s for s in fn.body if not (isinstance(s, ast.Expr) and isinstance(s.value, ast.Constant))]
    first = body[0] if body else None
    if not (isinstance(first, ast.If) and ast.dump(first.test) == _dump("self._force_close or self._close") and not first.orelse):
        raise TranslatorError("RequestHandler.data_received: expected to start with `if self._force_close or self._close:`")
    if not (len(first.body) == 3 and isinstance(first.body[0], ast.Assign) and ast.dump(first.body[0]) == ast.dump(ast.parse("request = self._current_request").body[0])
            and isinstance(first.body[1], ast.If) and not first.body[1].orelse and isinstance(first.body[2], ast.Return) and first.body[2].value is None):
        raise TranslatorError("RequestHandler.data_received: closing branch is not `request = self._current_request; if <gate>: <feed>; return`")
    gate = first.body[1]
    want_feed = ast.parse("try:\n    self._parser.feed_data(data)\nexcept HttpProcessingError:\n    pass").body
    if [ast.dump(x) for x in gate.body] != [ast.dump(x) for x in want_feed]:
        raise TranslatorError("RequestHandler.data_received: closing branch does not feed `self._parser.feed_data(data)` under `except HttpProcessingError: pass`")
    conj = gate.test.values if isinstance(gate.test, ast.BoolOp) and isinstance(gate.test.op, ast.And) else [gate.test]
    table = {_dump("data"): "nonempty", _dump("request is not None"): "has_req",
             _dump("not request.content.is_eof()"): "negb at_eof", _dump("self.transport is not None"): "has_tr",
             _dump("self._parser is not None"): "has_parser", _dump("self._payload_parser is None"): "negb has_pp",
             _dump("not self._upgraded"): "negb upgraded"}
    terms = []
    for c in conj:
        if ast.dump(c) not in table:
            raise TranslatorError("RequestHandler.data_received: closing gate has an unrecognised conjunct: " + ast.unparse(c))
        terms.append(table[ast.dump(c)])
    out.append("(* the closing-connection gate of RequestHandler.data_received, conjunct by conjunct *)\n"
               "Definition dg_srv_closing_feeds (nonempty has_req at_eof has_tr has_parser has_pp upgraded : bool) : bool := "
               + " && ".join(f"({t})" for t in terms) + ".")
    return "\n".join(out) + "\n"
