"""aiohttp/web_app.py, web_runner.py, web.py, web_server.py, web_protocol.py, helpers.py -> Generated/LifecycleGen.v

The lifecycle code is control flow, not data, so this module mostly checks `ast` shapes
(fail-closed) and emits the few facts the Gallina model is parametric in:
  * is a context recorded in `_exits` after (true) or before (false) `__aenter__` completed,
  * are the recorded exits walked in `reversed(...)` order, are teardown errors collected,
  * the phase sequence of BaseRunner.cleanup() (pre_shutdown / on_shutdown / Server.shutdown / app cleanup)
    and whether the phases are chained by try/finally,
  * is `runner.setup()` inside run_app's try/finally,
  * number of `ceil_timeout(timeout)` phases in RequestHandler.shutdown, ceil_timeout's threshold,
  * whether data_received drops data once close() was called.
The model interprets these values; the theorems in Props/C20.v hold for the values the
unchanged tree yields and stop compiling when an edit changes one of them.
"""
import ast

from . import core
from .core import TranslatorError

OUTPUT = "LifecycleGen.v"
ITEMS = ["runner_cleanup_finally", "record_after_enter", "exits_reversed", "exit_errors_collected", "ctx receiver registered first",
         "Application.cleanup shape", "AppRunner._make_server shape", "runner_cleanup_seq",
         "run_app_setup_in_try", "Server.pre_shutdown/shutdown shape", "shutdown_phases",
         "close_closes_idle", "nonpositive_timeout_no_wait", "force_close shape", "drops_data_when_closing", "Application._cleanup_started_contexts shape", "ceil_threshold_ms"]

APP = "aiohttp/web_app.py"
RUN = "aiohttp/web_runner.py"
WEB = "aiohttp/web.py"
SRV = "aiohttp/web_server.py"
PROTO = "aiohttp/web_protocol.py"
HELP = "aiohttp/helpers.py"


def _body(fn):
    """statements without the docstring"""
    b = list(fn.body)
    if b and isinstance(b[0], ast.Expr) and isinstance(b[0].value, ast.Constant) and isinstance(b[0].value.value, str):
        b = b[1:]
    return b


def _u(node) -> str:
    return ast.unparse(node)


def _norm(fn) -> str:
    """function source without annotations, docstring and decorators"""
    fn = ast.parse(ast.unparse(fn)).body[0]
    fn.returns = None
    fn.decorator_list = []
    for a in fn.args.args + fn.args.kwonlyargs:
        a.annotation = None
    fn.body = _body(fn)
    for n in ast.walk(fn):
        if isinstance(n, ast.AnnAssign):
            n.annotation = ast.Name("T")
    return ast.unparse(fn)


def _same(path, name, cls, expected: str):
    fn = core.find_function(path, name, cls=cls)
    exp = ast.parse(expected).body[0]
    if _norm(fn) != _norm(exp):
        raise TranslatorError(f"{path}: {cls}.{name} differs from the shape the model transcribes:\n{_norm(fn)}")


def _on_startup():
    fn = core.find_function(APP, "_on_startup", cls="CleanupContext")
    b = _body(fn)
    if len(b) != 1 or not isinstance(b[0], ast.For) or _u(b[0].iter) != "self" or b[0].orelse:
        raise TranslatorError("CleanupContext._on_startup: expected a single `for cb in self:` loop")
    enter = rec = None
    for i, s in enumerate(b[0].body):
        t = _u(s)
        if t == "await ctx.__aenter__()":
            if enter is not None:
                raise TranslatorError("_on_startup: __aenter__ awaited twice")
            enter = i
        elif t == "self._exits.append(ctx)":
            if rec is not None:
                raise TranslatorError("_on_startup: _exits.append twice")
            rec = i
        elif "_exits" in t or "__aenter__" in t:
            raise TranslatorError(f"_on_startup: unrecognised statement {t!r}")
        elif isinstance(s, (ast.Try, ast.With, ast.AsyncWith, ast.Return, ast.Break, ast.Continue, ast.Raise)):
            raise TranslatorError(f"_on_startup: control flow outside the translated fragment: {t!r}")
    if enter is None or rec is None:
        raise TranslatorError("_on_startup: missing __aenter__ or _exits.append at loop level")
    return rec > enter


def _on_cleanup():
    fn = core.find_function(APP, "_on_cleanup", cls="CleanupContext")
    b = _body(fn)
    if len(b) != 3 or _u(b[0]) != "errors = []" or not isinstance(b[1], ast.For) or not isinstance(b[2], ast.If):
        raise TranslatorError("CleanupContext._on_cleanup: expected `errors = []; for ...; if errors: ...`")
    it = _u(b[1].iter)
    if it == "reversed(self._exits)":
        rev = True
    elif it == "self._exits":
        rev = False
    else:
        raise TranslatorError(f"_on_cleanup: iterates over {it!r}")
    lb = b[1].body
    if len(lb) != 1:
        raise TranslatorError("_on_cleanup: loop body must be one statement")
    call = "await it.__aexit__(None, None, None)"
    if isinstance(lb[0], ast.Try):
        t = lb[0]
        if [_u(s) for s in t.body] != [call] or t.orelse or t.finalbody or len(t.handlers) != 1:
            raise TranslatorError("_on_cleanup: unexpected try shape")
        h = t.handlers[0]
        if _u(h.type) != "(Exception, asyncio.CancelledError)" or [_u(s) for s in h.body] != ["errors.append(exc)"]:
            raise TranslatorError("_on_cleanup: handler must be `except (Exception, asyncio.CancelledError) as exc: errors.append(exc)`")
        collected = True
    elif _u(lb[0]) == call:
        collected = False
    else:
        raise TranslatorError(f"_on_cleanup: loop body {_u(lb[0])!r}")
    exp = "if errors:\n    if len(errors) == 1:\n        raise errors[0]\n    else:\n        raise CleanupError('Multiple errors on cleanup stage', errors)"
    if _u(b[2]) != _u(ast.parse(exp).body[0]):
        raise TranslatorError("_on_cleanup: error re-raise shape changed:\n" + _u(b[2]))
    return rev, collected


def _app_init():
    """the cleanup context's receivers are the first ones appended to on_startup / on_cleanup"""
    fn = core.find_function(APP, "__init__", cls="Application")
    seen = {"_on_startup": None, "_on_cleanup": None}
    for s in ast.walk(fn):
        if isinstance(s, ast.Call) and isinstance(s.func, ast.Attribute) and s.func.attr in ("append", "insert", "extend"):
            tgt = _u(s.func.value)
            for sig in seen:
                if tgt == f"self.{sig}":
                    arg = _u(s.args[-1]) if s.args else ""
                    if seen[sig] is None:
                        if s.func.attr == "append" and arg == f"self._cleanup_ctx.{sig}":
                            seen[sig] = True
                        else:
                            raise TranslatorError(f"Application.__init__: first receiver of {sig} is {arg!r}")
                    else:
                        raise TranslatorError(f"Application.__init__: more than one receiver registered on {sig}")
    if not all(seen.values()):
        raise TranslatorError("Application.__init__: cleanup context receivers are not registered")
    if "self._on_shutdown.append" in _u(fn):
        raise TranslatorError("Application.__init__: a receiver is registered on on_shutdown")
    # sub-application signals are appended (registration order) on all three signals
    reg = core.find_function(APP, "_reg_subapp_signals", cls="Application")
    txt = _u(reg)
    txt = " ".join(txt.split())
    for need in ("if signame == 'on_cleanup': await subapp.cleanup() else: await subsig.send(subapp) appsig = getattr(self, signame)",
                 "appsig.append(handler)", "reg_handler('on_startup')",
                 "reg_handler('on_shutdown')", "reg_handler('on_cleanup')"):
        if need not in txt:
            raise TranslatorError(f"_reg_subapp_signals: missing {need!r}\n{txt}")
    add = _u(core.find_function(APP, "_add_subapp", cls="Application"))
    for need in ("self._reg_subapp_signals(subapp)", "subapp.pre_freeze()"):
        if need not in add:
            raise TranslatorError(f"_add_subapp: missing {need!r}")


def _runner_cleanup():
    """Two recognised shapes of BaseRunner.cleanup() after the sites are stopped:
      plain  : if self._server: [sleep(0); pre_shutdown(); await self.shutdown(); await self._server.shutdown(t)]
               await self._cleanup_server()
      finally: try: if self._server: [sleep(0); pre_shutdown(); try: await self.shutdown()
                                                                 finally: await self._server.shutdown(t)]
               finally: await self._cleanup_server()
    Returns (phase sequence, later phases run although an earlier one raised)."""
    fn = core.find_function(RUN, "cleanup", cls="BaseRunner")
    b = _body(fn)
    if len(b) < 3:
        raise TranslatorError("BaseRunner.cleanup: too short")
    if not (isinstance(b[0], ast.For) and _u(b[0].iter) == "list(self._sites)" and [_u(s) for s in b[0].body] == ["await site.stop()"]):
        raise TranslatorError("BaseRunner.cleanup: first statement must stop every site")
    PRE, SIG, SRV, CLEAN = ("self._server.pre_shutdown()", "await self.shutdown()",
                            "await self._server.shutdown(self._shutdown_timeout)", "await self._cleanup_server()")
    names = {PRE: 1, SIG: 2, SRV: 3}

    def server_block(node):
        if not (isinstance(node, ast.If) and _u(node.test) == "self._server" and not node.orelse):
            raise TranslatorError("BaseRunner.cleanup: expected `if self._server:` without else")
        return node.body

    rest = b[1:]
    if isinstance(rest[0], ast.Try):
        t = rest[0]
        if t.handlers or t.orelse or [_u(s) for s in t.finalbody] != [CLEAN] or len(t.body) != 1:
            raise TranslatorError("BaseRunner.cleanup: outer try must be `try: if self._server: ... finally: await self._cleanup_server()`")
        seq = []
        protected = None
        for s in server_block(t.body[0]):
            txt = _u(s)
            if txt == "await asyncio.sleep(0)":
                continue
            if isinstance(s, ast.Try):
                if s.handlers or s.orelse or [_u(x) for x in s.body] != [SIG] or [_u(x) for x in s.finalbody] != [SRV]:
                    raise TranslatorError("BaseRunner.cleanup: inner try must be `try: await self.shutdown() finally: await self._server.shutdown(...)`")
                if protected is not None:
                    raise TranslatorError("BaseRunner.cleanup: two inner try blocks")
                protected = True
                seq += [2, 3]
            elif txt == PRE:
                seq.append(1)
            else:
                raise TranslatorError(f"BaseRunner.cleanup: unrecognised statement under `if self._server`: {txt!r}")
        if not protected:
            raise TranslatorError("BaseRunner.cleanup: outer finally without the inner try/finally is not a recognised shape")
        seq.append(4)
        fin = True
        i = 1
    else:
        seq = []
        i = 0
        if isinstance(rest[0], ast.If):
            for s in server_block(rest[0]):
                txt = _u(s)
                if txt == "await asyncio.sleep(0)":
                    continue
                if txt not in names:
                    raise TranslatorError(f"BaseRunner.cleanup: unrecognised statement under `if self._server`: {txt!r}")
                seq.append(names[txt])
            i = 1
        if i >= len(rest) or _u(rest[i]) != CLEAN:
            raise TranslatorError("BaseRunner.cleanup: `await self._cleanup_server()` must follow the server block unconditionally")
        seq.append(4)
        fin = False
        i += 1
    tail = [_u(s) for s in rest[i:]]
    if not tail or tail[0] != "self._server = None":
        raise TranslatorError("BaseRunner.cleanup: expected `self._server = None` after _cleanup_server")
    for t in tail[1:]:
        if "shutdown" in t or "cleanup" in t:
            raise TranslatorError(f"BaseRunner.cleanup: unexpected trailing statement {t!r}")
    if len(set(seq)) != len(seq):
        raise TranslatorError("BaseRunner.cleanup: a phase occurs twice")
    _same(RUN, "shutdown", "AppRunner", "async def shutdown(self):\n    await self._app.shutdown()")
    _same(RUN, "_cleanup_server", "AppRunner", "async def _cleanup_server(self):\n    await self._app.cleanup()")
    _same(APP, "shutdown", "Application", "async def shutdown(self):\n    await self.on_shutdown.send(self)")
    _same(APP, "startup", "Application", "async def startup(self):\n    await self.on_startup.send(self)")
    return seq, fin


def _make_server():
    fn = core.find_function(RUN, "_make_server", cls="AppRunner")
    b = [_u(s) for s in _body(fn)]
    if b[:3] != ["self._app.on_startup.freeze()", "await self._app.startup()", "self._app.freeze()"] or len(b) != 4 or not b[3].startswith("return Server("):
        raise TranslatorError("AppRunner._make_server: expected freeze on_startup; startup(); freeze(); return Server(...)")
    st = core.find_function(RUN, "setup", cls="BaseRunner")
    if _u(_body(st)[-1]) != "self._server = await self._make_server()":
        raise TranslatorError("BaseRunner.setup: must end with `self._server = await self._make_server()`")


def _run_app():
    fn = core.find_function(WEB, "_run_app")
    b = _body(fn)
    tries = [(i, s) for i, s in enumerate(b) if isinstance(s, ast.Try)]
    if len(tries) != 1:
        raise TranslatorError("_run_app: expected exactly one top-level try")
    i, t = tries[0]
    if [_u(s) for s in t.finalbody] != ["await runner.cleanup()"] or t.handlers or t.orelse:
        raise TranslatorError("_run_app: the try must be try/finally with `await runner.cleanup()`")
    setup = "await runner.setup()"
    inside = [j for j, s in enumerate(t.body) if _u(s) == setup]
    before = [j for j, s in enumerate(b[:i]) if _u(s) == setup]
    everywhere = _u(fn).count(setup)
    if everywhere != 1:
        raise TranslatorError("_run_app: runner.setup() awaited %d times" % everywhere)
    if inside == [0]:
        res = True
    elif before:
        res = False
    else:
        raise TranslatorError("_run_app: runner.setup() neither first in the try nor before it")
    if "await site.start()" not in _u(t):
        raise TranslatorError("_run_app: sites are not started inside the try")
    return res


def _server():
    _same(SRV, "pre_shutdown", "Server", "def pre_shutdown(self):\n    for conn in self._connections:\n        conn.close()")
    _same(SRV, "shutdown", "Server",
          "async def shutdown(self, timeout=None):\n    coros = (conn.shutdown(timeout) for conn in self._connections)\n"
          "    await asyncio.gather(*coros)\n    self._connections.clear()")


_CLOSING_FEED = """
if self._force_close or self._close:
    request = self._current_request
    if request is not None and (not request.content.is_eof()) and (self.transport is not None) and (self._parser is not None) and (self._payload_parser is None) and (not self._upgraded):
        try:
            self._parser.feed_data(data)
        except HttpProcessingError:
            pass
    return
"""


def _protocol():
    """-> (drops_data_when_closing, shutdown_phases, close_closes_idle, nonpositive_timeout_no_wait)"""
    close_old = "def close(self):\n    self._close = True\n    if self._waiter:\n        self._waiter.cancel()"
    close_new = ("def close(self):\n    self._close = True\n    if self._waiter:\n        self._waiter.cancel()\n"
                 "        if self.transport is not None:\n            self.transport.close()\n            self.transport = None")
    got = _norm(core.find_function(PROTO, "close", cls="RequestHandler"))
    if got == _norm(ast.parse(close_new).body[0]):
        closes_idle = True
    elif got == _norm(ast.parse(close_old).body[0]):
        closes_idle = False
    else:
        raise TranslatorError("RequestHandler.close differs from the shapes the model transcribes:\n" + got)
    _same(PROTO, "force_close", "RequestHandler",
          "def force_close(self):\n    self._force_close = True\n    if self._waiter:\n        self._waiter.cancel()\n"
          "    if self.transport is not None:\n        self.transport.close()\n        self.transport = None")
    dr = core.find_function(PROTO, "data_received", cls="RequestHandler")
    first = _body(dr)[0]
    if not (isinstance(first, ast.If) and _u(first.test) == "self._force_close or self._close" and not first.orelse):
        raise TranslatorError("RequestHandler.data_received: unrecognised guard " + _u(first)[:120])
    if [_u(s) for s in first.body] == ["return"]:
        drops = True
    elif _u(first) == _u(ast.parse(_CLOSING_FEED).body[0]):
        drops = False          # the rest of the body of the request in flight is still fed to the parser
    else:
        raise TranslatorError("RequestHandler.data_received: closing guard differs from the transcribed shapes:\n" + _u(first))
    sh = core.find_function(PROTO, "shutdown", cls="RequestHandler")
    b = _body(sh)
    if _u(b[0]) != "self._force_close = True":
        raise TranslatorError("RequestHandler.shutdown: must start with `self._force_close = True`")
    phases = 0
    for n in ast.walk(sh):
        if isinstance(n, ast.AsyncWith):
            if [_u(i.context_expr) for i in n.items] != ["ceil_timeout(timeout)"]:
                raise TranslatorError("RequestHandler.shutdown: async with other than ceil_timeout(timeout)")
            phases += 1
    tail = [_u(s) for s in b[-2:]]
    if tail != ["if self._task_handler is not None:\n    self._task_handler.cancel()", "self.force_close()"]:
        raise TranslatorError("RequestHandler.shutdown: must end with task cancel + force_close; got " + repr(tail))
    # statement skeleton: [force_close flag, cancel keep-alive handle, (wait = ...), if in progress: wait 1, try: cancel body + wait 2, ...]
    stmts = [_u(x) for x in b]
    has_wait = "wait = timeout is None or timeout > 0" in stmts
    ifs = [x for x in b if isinstance(x, ast.If) and "_request_in_progress" in _u(x.test)]
    tries = [x for x in b if isinstance(x, ast.Try)]
    if len(ifs) != 1 or len(tries) != 1 or b.index(ifs[0]) > b.index(tries[0]):
        raise TranslatorError("RequestHandler.shutdown: wait-for-handler structure changed")
    for x in b[:b.index(ifs[0])]:
        if "_cancel(" in _u(x):
            raise TranslatorError("RequestHandler.shutdown: the request body is failed before the graceful wait")
    if "await self._handler_waiter" not in _u(ifs[0]):
        raise TranslatorError("RequestHandler.shutdown: first wait does not await the handler waiter")
    tb = tries[0].body
    if len(tb) != 1 or not isinstance(tb[0], ast.AsyncWith):
        raise TranslatorError("RequestHandler.shutdown: second wait structure changed")
    inner = [_u(x) for x in tb[0].body]
    cancel_body = "if self._current_request is not None:\n    self._current_request._cancel(asyncio.CancelledError())"
    shield_new = "if wait and self._task_handler is not None and (not self._task_handler.done()):\n    await asyncio.shield(self._task_handler)"
    shield_old = "if self._task_handler is not None and (not self._task_handler.done()):\n    await asyncio.shield(self._task_handler)"
    if has_wait and _u(ifs[0].test) == "self._request_in_progress and wait" and inner == [cancel_body, shield_new]:
        no_wait = True
    elif not has_wait and _u(ifs[0].test) == "self._request_in_progress" and inner == [cancel_body, shield_old]:
        no_wait = False
    else:
        raise TranslatorError("RequestHandler.shutdown: wait-for-handler structure changed:\n" + "\n".join(inner))
    return drops, phases, closes_idle, no_wait


def _ceil_timeout():
    fn = core.find_function(HELP, "ceil_timeout")
    args = fn.args
    if [a.arg for a in args.args] != ["delay", "ceil_threshold"] or len(args.defaults) != 1:
        raise TranslatorError("ceil_timeout: signature changed")
    thr = core.literal(args.defaults[0])
    b = [_u(s) for s in _body(fn)]
    exp = ["if delay is None or delay <= 0:\n    return async_timeout.timeout(None)", "loop = asyncio.get_running_loop()",
           "now = loop.time()", "when = now + delay", "if delay > ceil_threshold:\n    when = ceil(when)",
           "return async_timeout.timeout_at(when)"]
    if b != exp:
        raise TranslatorError("ceil_timeout: body differs from the transcribed shape:\n" + "\n".join(b))
    if not isinstance(thr, (int, float)) or thr != int(thr):
        raise TranslatorError("ceil_timeout: threshold is not an integral number of seconds")
    return int(thr) * 1000


def generate() -> str:
    out = []
    b = lambda v: "true" if v else "false"  # noqa: E731
    rec = _on_startup()
    rev, coll = _on_cleanup()
    _app_init()
    _RAISE = ("    if errors:\n        if len(errors) == 1:\n            raise errors[0]\n        else:\n"
              "            raise CleanupError('Multiple errors on cleanup stage', errors)\n")
    _same(APP, "cleanup", "Application",
          "async def cleanup(self):\n    if self.on_cleanup.frozen:\n        errors = []\n        for receiver in self.on_cleanup:\n"
          "            try:\n                await receiver(self)\n            except (Exception, asyncio.CancelledError) as exc:\n"
          "                errors.append(exc)\n"
          + "".join("    " + ln + "\n" for ln in _RAISE.splitlines()) +
          "    else:\n        await self._cleanup_started_contexts()")
    _same(APP, "_cleanup_started_contexts", "Application",
          "async def _cleanup_started_contexts(self):\n    errors: T = []\n    try:\n        await self._cleanup_ctx._on_cleanup(self)\n"
          "    except (Exception, asyncio.CancelledError) as exc:\n        errors.append(exc)\n    for subapp in self._subapps:\n"
          "        try:\n            await subapp._cleanup_started_contexts()\n        except (Exception, asyncio.CancelledError) as exc:\n"
          "            errors.append(exc)\n" + _RAISE)
    _make_server()
    seq, fin = _runner_cleanup()
    intry = _run_app()
    _server()
    drops, phases, closes_idle, no_wait = _protocol()
    thr = _ceil_timeout()
    out.append("(* web_app.CleanupContext._on_startup: `self._exits.append(ctx)` comes after `await ctx.__aenter__()` *)\n"
               f"Definition record_after_enter : bool := {b(rec)}.\n")
    out.append("(* web_app.CleanupContext._on_cleanup: iterates `reversed(self._exits)`; errors are collected by try/except *)\n"
               f"Definition exits_reversed : bool := {b(rev)}.\nDefinition exit_errors_collected : bool := {b(coll)}.\n")
    out.append("(* web_runner.BaseRunner.cleanup after the sites are stopped: 1 = Server.pre_shutdown, 2 = on_shutdown signal,\n"
               "   3 = Server.shutdown(timeout) (only when setup succeeded), 4 = _cleanup_server (always) *)\n"
               f"Definition runner_cleanup_seq : list N := {core.coq_N_list(seq)}.\n"
               "(* the phases are chained by try/finally: a later phase still runs when an earlier one raised, and the\n"
               "   exception leaving cleanup() is the last one raised *)\n"
               f"Definition runner_cleanup_finally : bool := {b(fin)}.\n")
    out.append("(* web._run_app: `await runner.setup()` is the first statement inside try/finally: runner.cleanup() *)\n"
               f"Definition run_app_setup_in_try : bool := {b(intry)}.\n")
    out.append("(* web_protocol.RequestHandler.shutdown: number of `async with ceil_timeout(timeout)` waits before the task is cancelled *)\n"
               f"Definition shutdown_phases : N := {phases}.\n")
    out.append("(* web_protocol.RequestHandler.data_received returns at once when close() or force_close() was called (true), or still\n"
               "   feeds the rest of the body of the request in flight while the transport is open (false) *)\n"
               f"Definition drops_data_when_closing : bool := {b(drops)}.\n")
    out.append("(* web_protocol.RequestHandler.close() closes the transport when the connection is idle (waiter pending) *)\n"
               f"Definition close_closes_idle : bool := {b(closes_idle)}.\n")
    out.append("(* web_protocol.RequestHandler.shutdown(timeout): a non-positive timeout skips both waits (true) or, through\n"
               "   ceil_timeout, means no deadline at all (false) *)\n"
               f"Definition nonpositive_timeout_no_wait : bool := {b(no_wait)}.\n")
    out.append("(* helpers.ceil_timeout: deadlines of delays strictly greater than this many ms are rounded up to a whole second;\n"
               "   a delay <= 0 (or None) means no deadline *)\n"
               f"Definition ceil_threshold_ms : Z := {thr}%Z.\n")
    return "\n".join(out)
