"""aiohttp/cookiejar.py, helpers.py -> Generated/CookiesGen.v  (property C16)

Data-like parts of the cookie jar: constants, the expiry integer formulas and comparison
directions, the separator characters of the suffix/prefix enumerations, the secure scheme set,
and ast shape checks of the two small pure predicates the model transcribes by hand
(`CookieJar._is_domain_match`, `helpers.is_ip_address`).  Fail-closed.
"""
import ast
import copy

from . import core
from .core import TranslatorError

OUTPUT = "CookiesGen.v"
ITEMS = ["_MIN_SCHEDULED_COOKIE_EXPIRATION", "MAX_TIME", "max_age_deadline formula", "heap_cleanup_due formula",
         "heap pop comparison", "clear() expiry comparison", "expires truthiness test",
         "invalid Max-Age falls through to Expires", "cookie-path prefix test",
         "_COOKIE_PATTERN takes every Expires date (3 syntaxes x 14 weekday names) as one value", "secure schemes",
         "domain/path separators", "_is_domain_match shape", "is_ip_address shape", "_RELATIVE_EXPIRY_ATTRS"]

CJ = "aiohttp/cookiejar.py"


def _norm(fn) -> str:
    fn = ast.parse(ast.unparse(fn)).body[0]
    if isinstance(fn, (ast.FunctionDef, ast.AsyncFunctionDef)):
        fn.returns = None
        fn.decorator_list = []
        for a in fn.args.args:
            a.annotation = None
        if fn.body and isinstance(fn.body[0], ast.Expr) and isinstance(fn.body[0].value, ast.Constant) \
                and isinstance(fn.body[0].value.value, str):
            fn.body = fn.body[1:]
    return ast.dump(fn, annotate_fields=False)


def _same_shape(fn, expected_src: str, what: str):
    exp = ast.parse(expected_src).body[0]
    if _norm(fn) != _norm(exp):
        raise TranslatorError(f"{what} differs from the shape the model transcribes:\n" + ast.unparse(fn))


_EXPECTED_DOMAIN_MATCH = '''
def _is_domain_match(domain, hostname):
    if hostname == domain:
        return True
    if not hostname.endswith(domain):
        return False
    non_matching = hostname[:-len(domain)]
    if not non_matching.endswith("."):
        return False
    return not is_ip_address(hostname)
'''

_EXPECTED_IS_IP = '''
def is_ip_address(host):
    if not host:
        return False
    return ":" in host or host.replace(".", "").isdigit()
'''

_EXPECTED_MAX_TIME = "int(datetime.datetime.max.replace(tzinfo=datetime.timezone.utc).timestamp()) - 1"


class _Subst(ast.NodeTransformer):
    """Replace `time.time()` by the name `now` and `len(self._expirations)` by `n_exp`."""

    def visit_Call(self, node):
        self.generic_visit(node)
        f = node.func
        if (isinstance(f, ast.Attribute) and f.attr == "time" and isinstance(f.value, ast.Name) and f.value.id == "time"
                and not node.args and not node.keywords):
            return ast.Name(id="now", ctx=ast.Load())
        if (isinstance(f, ast.Name) and f.id == "len" and len(node.args) == 1 and isinstance(node.args[0], ast.Attribute)
                and node.args[0].attr == "_expirations"):
            return ast.Name(id="n_exp", ctx=ast.Load())
        return node


def _max_time() -> int:
    v = core.find_assign(CJ, "MAX_TIME", cls="CookieJar")
    if ast.unparse(v) != _EXPECTED_MAX_TIME:
        raise TranslatorError("CookieJar.MAX_TIME is not " + _EXPECTED_MAX_TIME + " but " + ast.unparse(v))
    import datetime
    return int(datetime.datetime.max.replace(tzinfo=datetime.timezone.utc).timestamp()) - 1


def _max_age_formula() -> str:
    fn = core.find_function(CJ, "update_cookies", cls="CookieJar")
    found = []
    for n in ast.walk(fn):
        if isinstance(n, ast.Assign) and len(n.targets) == 1 and isinstance(n.targets[0], ast.Name) \
                and n.targets[0].id == "max_age_expiration":
            found.append(n.value)
    if len(found) != 1:
        raise TranslatorError("update_cookies: max_age_expiration assigned %d times" % len(found))
    e = _Subst().visit(copy.deepcopy(found[0]))
    return core.formula(e, {"now": "now", "delta_seconds": "d", "MAX_TIME": "max_time", "__scope__": "Z"})


def _do_expiration_items():
    fn = core.find_function(CJ, "_do_expiration", cls="CookieJar")
    # cleanup condition
    conds = [n for n in ast.walk(fn) if isinstance(n, ast.If) and isinstance(n.test, ast.BoolOp)
             and isinstance(n.test.op, ast.And)]
    if len(conds) != 1 or len(conds[0].test.values) != 2:
        raise TranslatorError("_do_expiration: expected exactly one `a and b` heap clean-up test")
    env = {"expire_heap_len": "heap_len", "_MIN_SCHEDULED_COOKIE_EXPIRATION": "MIN_SCHEDULED_COOKIE_EXPIRATION", "n_exp": "n_exp"}
    parts = [core.comparison(_Subst().visit(copy.deepcopy(v)), env) for v in conds[0].test.values]
    cleanup = " && ".join(parts)
    # clean-up keeps entries whose recorded deadline equals the heap entry's
    keep = [n for n in ast.walk(conds[0]) if isinstance(n, ast.ListComp)]
    if len(keep) != 1 or ast.unparse(keep[0].generators[0].ifs[0]) != "self._expirations.get(entry[1]) == entry[0]":
        raise TranslatorError("_do_expiration: heap clean-up filter is not `self._expirations.get(entry[1]) == entry[0]`")
    # pop loop: `if when > now: break`
    loops = [n for n in ast.walk(fn) if isinstance(n, ast.While)]
    if len(loops) != 1:
        raise TranslatorError("_do_expiration: expected one while loop")
    brk = [n for n in loops[0].body if isinstance(n, ast.If) and len(n.body) == 1 and isinstance(n.body[0], ast.Break)]
    if len(brk) != 1:
        raise TranslatorError("_do_expiration: expected one `if ...: break`")
    stay = core.comparison(brk[0].test, {"when": "when", "now": "now"})
    eqs = [n for n in loops[0].body if isinstance(n, ast.If) and ast.unparse(n.test) == "self._expirations.get(cookie_key) == when"]
    if len(eqs) != 1:
        raise TranslatorError("_do_expiration: expected `if self._expirations.get(cookie_key) == when`")
    return cleanup, stay


def _clear_cmp() -> str:
    fn = core.find_function(CJ, "clear", cls="CookieJar")
    found = []
    for n in ast.walk(fn):
        if isinstance(n, ast.Compare) and isinstance(n.left, ast.Subscript) and isinstance(n.left.value, ast.Attribute) \
                and n.left.value.attr == "_expirations" and len(n.ops) == 1:
            found.append(n)
    if len(found) != 1:
        raise TranslatorError("clear: expected one comparison of self._expirations[key] with now")
    c = copy.deepcopy(found[0])
    c.left = ast.Name(id="when", ctx=ast.Load())
    return core.comparison(c, {"when": "when", "now": "now"})


def _expires_truthy():
    """update_cookies: `if expire_time := self._parse_date(expires):` -- a *truthiness* test, so a parsed
    deadline of 0 (1970-01-01T00:00:00Z) counts as unparseable.  Returns 'truthy' or 'not_none'."""
    fn = core.find_function(CJ, "update_cookies", cls="CookieJar")
    found = []
    for n in ast.walk(fn):
        if isinstance(n, ast.If):
            for m in ast.walk(n.test):
                if isinstance(m, ast.NamedExpr) and isinstance(m.target, ast.Name) and m.target.id == "expire_time":
                    found.append(n.test)
    if len(found) != 1:
        raise TranslatorError("update_cookies: expected one `expire_time := ...` test")
    t = found[0]
    if isinstance(t, ast.NamedExpr):
        return "truthy"
    if (isinstance(t, ast.Compare) and isinstance(t.left, ast.NamedExpr) and len(t.ops) == 1 and isinstance(t.ops[0], ast.IsNot)
            and isinstance(t.comparators[0], ast.Constant) and t.comparators[0].value is None):
        return "not_none"
    raise TranslatorError("update_cookies: unrecognised test on expire_time: " + ast.unparse(t))


def _invalid_max_age_mode():
    """update_cookies: does an unparseable Max-Age still let Expires apply?
    'falls_through': `max_age_valid = False; if max_age := ...: try: ...; max_age_valid = True ...` followed by
                     `if not max_age_valid and (expires := cookie["expires"]):`
    'masks':         `if max_age := ...: ... elif expires := cookie["expires"]:`"""
    fn = core.find_function(CJ, "update_cookies", cls="CookieJar")
    tests = []
    for n in ast.walk(fn):
        if isinstance(n, ast.If):
            for m in ast.walk(n.test):
                if isinstance(m, ast.NamedExpr) and isinstance(m.target, ast.Name) and m.target.id == "expires":
                    tests.append(n)
    if len(tests) != 1:
        raise TranslatorError("update_cookies: expected one `expires := cookie[...]` test")
    t = ast.unparse(tests[0].test)
    if t == "not max_age_valid and (expires := cookie['expires'])":
        sets = [ast.unparse(n) for n in ast.walk(fn) if isinstance(n, ast.Assign) and ast.unparse(n.targets[0]) == "max_age_valid"]
        if sorted(sets) != ["max_age_valid = False", "max_age_valid = True"]:
            raise TranslatorError("update_cookies: max_age_valid is not assigned False once and True once")
        # the True assignment must sit in the try body after the _expire_cookie call
        for n in ast.walk(fn):
            if isinstance(n, ast.Try):
                body = [ast.unparse(x) for x in n.body]
                if "max_age_valid = True" in body and body.index("max_age_valid = True") == len(body) - 1 \
                        and any("_expire_cookie" in b for b in body):
                    return "falls_through"
        raise TranslatorError("update_cookies: `max_age_valid = True` is not the last statement of the Max-Age try body")
    if t == "expires := cookie['expires']":
        return "masks"
    raise TranslatorError("update_cookies: unrecognised Expires test: " + t)


def _path_test():
    """filter_cookies: the cookie's own path must be a prefix of the request path."""
    fn = core.find_function(CJ, "filter_cookies", cls="CookieJar")
    found = [n for n in ast.walk(fn) if isinstance(n, ast.If) and "cookie['path']" in ast.unparse(n.test)]
    if len(found) != 1:
        raise TranslatorError("filter_cookies: expected exactly one test on cookie['path']")
    n = found[0]
    if ast.unparse(n.test) != "not request_url.path.startswith(cookie['path'])":
        raise TranslatorError("filter_cookies: the cookie-path test is not `not request_url.path.startswith(cookie['path'])` but "
                              + ast.unparse(n.test))
    if not (len(n.body) == 1 and isinstance(n.body[0], ast.Continue) and not n.orelse):
        raise TranslatorError("filter_cookies: the cookie-path test must `continue`")


def _cookie_pattern_dates():
    """aiohttp/_cookie_helpers.py `_COOKIE_PATTERN` (a data-like regex literal): the alternatives for the value of
    `Expires` must take a date in each of the three syntaxes of RFC 6265 / RFC 7231 (RFC 1123 `Sat, 09 Jan 2027 ...`,
    RFC 850 `Saturday, 09-Jan-27 ...`, asctime `Sat Jan  9 ... 2027`), for every weekday name, as ONE value, so that
    the attributes written after it are still seen.  Checked by running the regex read from the source."""
    import re
    pat, flags, _ = core.regex_source(core.find_assign("aiohttp/_cookie_helpers.py", "_COOKIE_PATTERN"))
    rx = re.compile(pat, flags)
    long_ = ["Monday", "Tuesday", "Wednesday", "Thursday", "Friday", "Saturday", "Sunday"]
    n = 0
    for i, day in enumerate(long_):
        dd = "%02d" % (4 + i)          # 04 Jan 2027 is a Monday
        for date in (f"{day[:3]}, {dd} Jan 2027 08:00:00 GMT", f"{day}, {dd}-Jan-27 08:00:00 GMT",
                     f"{day[:3]} Jan {4 + i:2d} 08:00:00 2027", f"{day[:3]}, {dd} Jan 2027 08:00:00 +0000"):
            hdr = f"n=v; Expires={date}; Secure"
            m = rx.match(hdr, 0)
            m = rx.match(hdr, m.end(0)) if m else None
            if not m or m.group("key") != "Expires" or m.group("val") != date:
                raise TranslatorError(f"_COOKIE_PATTERN does not take the Expires date {date!r} as one value "
                                      f"(got {m.group('val')!r})" if m else f"_COOKIE_PATTERN does not match at Expires={date!r}")
            m2 = rx.match(hdr, m.end(0))
            if not m2 or m2.group("key") != "Secure":
                raise TranslatorError(f"_COOKIE_PATTERN loses the attribute after Expires={date!r}")
            n += 1
    return n


def _secure_schemes():
    fn = core.find_function(CJ, "filter_cookies", cls="CookieJar")
    found = []
    for n in ast.walk(fn):
        if isinstance(n, ast.Assign) and len(n.targets) == 1 and isinstance(n.targets[0], ast.Name) \
                and n.targets[0].id == "is_not_secure" and isinstance(n.value, ast.Compare) \
                and isinstance(n.value.ops[0], ast.NotIn) and ast.unparse(n.value.left) == "request_url.scheme":
            found.append(core.literal(n.value.comparators[0]))
    if len(found) != 1:
        raise TranslatorError("filter_cookies: expected `is_not_secure = request_url.scheme not in (...)` once")
    return sorted(found[0])


def _separators():
    fp = core.find_assign(CJ, "_FORMAT_PATH")
    fd = core.find_assign(CJ, "_FORMAT_DOMAIN_REVERSED")
    if ast.unparse(fp) != "'{}/{}'.format":
        raise TranslatorError("_FORMAT_PATH is not '{}/{}'.format")
    if ast.unparse(fd) != "'{1}.{0}'.format":
        raise TranslatorError("_FORMAT_DOMAIN_REVERSED is not '{1}.{0}'.format")
    fn = core.find_function(CJ, "filter_cookies", cls="CookieJar")
    src = ast.unparse(fn)
    for needle in ("itertools.accumulate(reversed(hostname.split('.')), _FORMAT_DOMAIN_REVERSED)",
                   "itertools.accumulate(request_url.path.split('/'), _FORMAT_PATH)",
                   "itertools.product(domains, paths)"):
        if needle not in src:
            raise TranslatorError("filter_cookies: enumeration `" + needle + "` not found")
    return ord("."), ord("/")


def generate() -> str:
    out = []
    v = core.literal(core.find_assign(CJ, "_MIN_SCHEDULED_COOKIE_EXPIRATION"))
    if not isinstance(v, int) or v < 0:
        raise TranslatorError("_MIN_SCHEDULED_COOKIE_EXPIRATION is not a natural number")
    out.append(f"Definition MIN_SCHEDULED_COOKIE_EXPIRATION : N := {v}.\n")
    out.append(f"(* CookieJar.MAX_TIME = {_EXPECTED_MAX_TIME} *)\nDefinition MAX_TIME : Z := {_max_time()}%Z.\n")
    out.append("(* update_cookies: max_age_expiration = min(time.time() + delta_seconds, self.MAX_TIME) *)\n"
               "(* the formula with MAX_TIME as a parameter: the model measures time in ticks of 1/TICKS s *)\n"
               f"Definition max_age_deadline_gen (now d max_time : Z) : Z := ({_max_age_formula()})%Z.\n"
               "Definition max_age_deadline (now d : Z) : Z := max_age_deadline_gen now d MAX_TIME.\n")
    cleanup, stay = _do_expiration_items()
    out.append("(* _do_expiration: the stale-entry clean-up of the heap runs when *)\n"
               f"Definition heap_cleanup_due (heap_len n_exp : N) : bool := {cleanup}.\n")
    out.append("(* _do_expiration: the pop loop stops at the first entry with *)\n"
               f"Definition heap_entry_stays (when now : Z) : bool := {stay}%Z.\n")
    out.append("(* clear(predicate): a cookie with a recorded deadline is also dropped when *)\n"
               f"Definition clear_drops_deadline (when now : Z) : bool := {_clear_cmp()}%Z.\n")
    mode = _expires_truthy()
    out.append("(* update_cookies: `if expire_time := self._parse_date(expires)` is a truthiness test *)\n"
               f"Definition expires_value_used (t : Z) : bool := {'negb (t =? 0)%Z' if mode == 'truthy' else 'true'}.\n")
    mam = _invalid_max_age_mode()
    out.append("(* update_cookies: with an unparseable Max-Age the Expires attribute still applies *)\n"
               f"Definition invalid_max_age_uses_expires : bool := {'true' if mam == 'falls_through' else 'false'}.\n")
    _path_test()
    out.append("(* shape checked: filter_cookies skips a cookie unless request_url.path.startswith(cookie['path']) *)\n")
    nd = _cookie_pattern_dates()
    out.append(f"(* checked: _cookie_helpers._COOKIE_PATTERN takes each of {nd} Expires dates (RFC 1123 / RFC 850 / asctime / numeric zone x "
               "7 weekdays) as one value and still sees the next attribute *)\n")
    sch = _secure_schemes()
    out.append("(* filter_cookies: schemes over which Secure cookies may be sent *)\n"
               "Definition secure_schemes : list (list N) := [" + "; ".join(core.coq_bytes(s) for s in sch) + "].\n")
    dot, slash = _separators()
    out.append(f"Definition DOT : N := {dot}.\nDefinition SLASH : N := {slash}.\n")
    _same_shape(core.find_function(CJ, "_is_domain_match", cls="CookieJar"), _EXPECTED_DOMAIN_MATCH, "CookieJar._is_domain_match")
    _same_shape(core.find_function("aiohttp/helpers.py", "is_ip_address"), _EXPECTED_IS_IP, "helpers.is_ip_address")
    rel = core.literal(core.find_assign(CJ, "_RELATIVE_EXPIRY_ATTRS"))
    if set(rel) != {"max-age", "expires"}:
        raise TranslatorError("_RELATIVE_EXPIRY_ATTRS changed: the model's save/load drops exactly max-age and expires")
    out.append("(* shapes checked: CookieJar._is_domain_match, helpers.is_ip_address; _RELATIVE_EXPIRY_ATTRS = {max-age, expires} *)\n")
    return "\n".join(out)
