"""aiohttp/web_request.py (http_range), web_fileresponse.py (_prepare_open_file, ENCODING_EXTENSIONS),
web_exceptions.py (status codes), web_urldispatcher.py (_unquote_path_safe) -> Generated/StaticGen.v

Everything is read from the source text with `ast` / `re._parser`; a statement that no longer has
the recognised shape raises TranslatorError (fail-closed)."""
import ast
import re
import re._parser as sre_parse  # type: ignore
import re._constants as sre_c  # type: ignore

from . import core
from .core import TranslatorError

OUTPUT = "StaticGen.v"
ITEMS = ["range pattern shape (^bytes=(\\d*)-(\\d*)$, re.ASCII, findall()[0])", "range_digit",
         "suffix_zero_test (end == 0)", "end_adjust (end += 1)", "range_empty_test (start >= end)",
         "suffix negation (start = -end)", "int()/None conversions of the two groups",
         "tail_test (start < 0 and end is None)", "tail_start (start += file_size)", "tail clamp (start < 0 -> 0)",
         "tail_count (file_size - start)", "range_count (min(end or file_size, file_size) - start)",
         "unsat_test (start >= file_size)", "Content-Range formats", "if-range test (file_mtime <= ifrange)",
         "status codes 206/304/403/404/412/416", "ENCODING_EXTENSIONS order", "_unquote_path_safe replacements",
         "sandbox per-component symlink check (for part in rel_path.parts: probe.is_symlink() -> ValueError)", "zero-count shortcut (count == 0)", "fallback loop guard (count <= 0) and min(chunk_size, count)"]

WR = "aiohttp/web_request.py"
FR = "aiohttp/web_fileresponse.py"
WE = "aiohttp/web_exceptions.py"
UD = "aiohttp/web_urldispatcher.py"


def _dump(n) -> str:
    return ast.dump(n, annotate_fields=False)


def _expr(src: str) -> str:
    return _dump(ast.parse(src, mode="eval").body)


def _stmt(src: str) -> str:
    return _dump(ast.parse(src).body[0])


def _walk_unique(fn, pred, what):
    found = [n for n in ast.walk(fn) if pred(n)]
    if len(found) != 1:
        raise TranslatorError(f"{fn.name}: expected exactly one `{what}`, found {len(found)}")
    return found[0]


def _if_with_test(fn, test_src):
    want = _expr(test_src)
    return _walk_unique(fn, lambda n: isinstance(n, ast.If) and _dump(n.test) == want, f"if {test_src}")


def _only_raises(ifnode, exc="ValueError"):
    b = ifnode.body
    ok = (len(b) == 1 and isinstance(b[0], ast.Raise) and isinstance(b[0].exc, ast.Call)
          and isinstance(b[0].exc.func, ast.Name) and b[0].exc.func.id == exc and not ifnode.orelse)
    if not ok:
        raise TranslatorError(f"`if {ast.unparse(ifnode.test)}` must only raise {exc}")


def _has_stmt(body, src):
    want = _stmt(src)
    return any(_dump(s) == want for s in body)


def _strip_docstring(body):
    return [s for s in body if not (isinstance(s, ast.Expr) and isinstance(s.value, ast.Constant) and isinstance(s.value.value, str))]


# ----------------------------------------------------------------------------------------------

def _range_pattern(fn):
    pats = [n for n in ast.walk(fn) if isinstance(n, ast.Assign) and len(n.targets) == 1
            and isinstance(n.targets[0], ast.Name) and n.targets[0].id == "pattern"]
    if len(pats) != 1:
        raise TranslatorError("http_range: `pattern = ...` not found uniquely")
    pat = core.literal(pats[0].value)
    if not isinstance(pat, str):
        raise TranslatorError("http_range: pattern is not a str literal")
    # call site: start, end = re.findall(pattern, rng, re.ASCII)[0]
    want = _stmt("start, end = re.findall(pattern, rng, re.ASCII)[0]")
    if not any(_dump(n) == want for n in ast.walk(fn) if isinstance(n, ast.Assign)):
        raise TranslatorError("http_range: call site is not `start, end = re.findall(pattern, rng, re.ASCII)[0]`")
    # the enclosing try must map IndexError to ValueError
    trys = [n for n in ast.walk(fn) if isinstance(n, ast.Try)]
    if len(trys) != 1 or len(trys[0].handlers) != 1:
        raise TranslatorError("http_range: expected one try with one handler")
    h = trys[0].handlers[0]
    if not (isinstance(h.type, ast.Name) and h.type.id == "IndexError" and len(h.body) == 1 and isinstance(h.body[0], ast.Raise)
            and isinstance(h.body[0].exc, ast.Call) and h.body[0].exc.func.id == "ValueError"):
        raise TranslatorError("http_range: `except IndexError: raise ValueError(...)` not recognised")
    p = list(sre_parse.parse(pat, re.ASCII))
    # expected: AT_BEGINNING, literals, SUBPATTERN(\d*), LITERAL sep, SUBPATTERN(\d*), AT_END
    if not p or p[0] != (sre_c.AT, sre_c.AT_BEGINNING) or p[-1] != (sre_c.AT, sre_c.AT_END):
        raise TranslatorError(f"range pattern {pat!r}: must be anchored with ^ and $")
    mid = p[1:-1]
    prefix = []
    i = 0
    while i < len(mid) and mid[i][0] is sre_c.LITERAL:
        prefix.append(mid[i][1])
        i += 1
    rest = mid[i:]
    if len(rest) != 3 or rest[0][0] is not sre_c.SUBPATTERN or rest[1][0] is not sre_c.LITERAL or rest[2][0] is not sre_c.SUBPATTERN:
        raise TranslatorError(f"range pattern {pat!r}: expected <literal prefix>(class*)<literal>(class*)")
    classes = []
    for k, (op, av) in enumerate((rest[0], rest[2])):
        grp, add, dele, sub = av
        if grp != k + 1 or add or dele:
            raise TranslatorError("range pattern: unexpected group flags/numbering")
        sub = list(sub)
        if len(sub) != 1 or sub[0][0] is not sre_c.MAX_REPEAT:
            raise TranslatorError("range pattern: group body must be one greedy repeat")
        lo, hi, body = sub[0][1]
        if lo != 0 or hi is not sre_c.MAXREPEAT:
            raise TranslatorError("range pattern: group repeat must be *")
        body = list(body)
        if len(body) != 1 or body[0][0] is not sre_c.IN:
            raise TranslatorError("range pattern: group body must be one class")
        neg, rngs = core._class_items(body[0][1], re.ASCII, False)
        classes.append({"neg": neg, "ranges": sorted(set(rngs)), "quant": "star"})
    if classes[0] != classes[1]:
        raise TranslatorError("range pattern: the two groups use different classes")
    sep = rest[1][1]
    cc = classes[0]
    # maximal munch == regex semantics only if the separator / LF are outside the class
    def inside(c):
        r = any(lo <= c <= hi for lo, hi in cc["ranges"])
        return r != cc["neg"]
    if inside(sep) or inside(10):
        raise TranslatorError("range pattern: separator or LF belongs to the repeated class (backtracking needed)")
    if prefix and inside(prefix[-1]) and False:
        pass
    return pat, prefix, sep, cc


def _http_range_items():
    fn = core.find_function(WR, "http_range", cls="BaseRequest")
    out = []
    pat, prefix, sep, cc = _range_pattern(fn)
    safe = repr(pat).replace("*)", "* )").replace("(*", "( *")
    out.append(f"(* web_request.BaseRequest.http_range: pattern = {safe}, re.findall(pattern, rng, re.ASCII)[0];\n"
               f"   `$` without re.MULTILINE also matches before one trailing LF *)")
    out.append(f"Definition range_prefix : list N := {core.coq_N_list(prefix)}.")
    out.append(f"Definition range_sep : N := {sep}.")
    out.append(core.charclass_coq("range_digit", cc, "the class repeated inside both groups"))
    out.append("Definition range_end_allows_trailing_lf : bool := true.\n")
    # conversions, in this order
    body = fn.body
    conv_e = _stmt("end = int(end) if end else None")
    conv_s = _stmt("start = int(start) if start else None")
    seq = [_dump(n) for n in ast.walk(fn) if isinstance(n, ast.Assign)]
    if conv_e not in seq or conv_s not in seq or seq.index(conv_e) > seq.index(conv_s):
        raise TranslatorError("http_range: `end = int(end) if end else None` then `start = int(start) if start else None` not found")
    # suffix branch
    sfx = _if_with_test(fn, "start is None and end is not None")
    b = sfx.body
    if len(b) != 3 or sfx.orelse:
        raise TranslatorError("http_range: suffix branch must have three statements")
    if not (isinstance(b[0], ast.If) and _dump(b[0].test) == _expr("end == 0")):
        raise TranslatorError("http_range: suffix branch must start with `if end == 0`")
    _only_raises(b[0])
    if _dump(b[1]) != _stmt("start = -end") or _dump(b[2]) != _stmt("end = None"):
        raise TranslatorError("http_range: suffix branch must be `start = -end; end = None`")
    env = {"__scope__": "Z", "start": "s", "end": "e"}
    out.append("(* suffix branch: `if end == 0: raise ValueError`, then start = -end, end = None *)")
    out.append(f"Definition suffix_zero_test (e : Z) : bool := ({core.comparison(b[0].test, env)})%Z.")
    out.append("Definition suffix_start (e : Z) : Z := (- e)%Z.\n")
    both = _if_with_test(fn, "start is not None and end is not None")
    b = both.body
    if len(b) != 2 or both.orelse or _dump(b[0]) != _stmt("end += 1") or not isinstance(b[1], ast.If):
        raise TranslatorError("http_range: closed-range branch must be `end += 1; if start >= end: raise`")
    _only_raises(b[1])
    out.append("(* closed range: end += 1 (inclusive -> exclusive), then `if start >= end: raise ValueError` *)")
    out.append(f"Definition end_adjust (e : Z) : Z := ({core.formula(ast.BinOp(ast.Name('end'), b[0].op, b[0].value), env)})%Z.")
    out.append(f"Definition range_empty_test (s e : Z) : bool := ({core.comparison(b[1].test, env)})%Z.\n")
    none = _walk_unique(fn, lambda n: isinstance(n, ast.If) and _dump(n.test) == _expr("start is end is None"), "if start is end is None")
    _only_raises(none)
    # order of the three tests inside `if rng is not None`
    outer = _if_with_test(fn, "rng is not None")
    kinds = [s for s in outer.body if isinstance(s, ast.If)]
    if [id(k) for k in kinds] != [id(sfx), id(both), id(none)]:
        raise TranslatorError("http_range: the suffix / closed / none tests are not in the modelled order")
    ret = [s for s in fn.body if isinstance(s, ast.Return)]
    if len(ret) != 1 or _dump(ret[0]) != _stmt("return slice(start, end, 1)"):
        raise TranslatorError("http_range: must end with `return slice(start, end, 1)`")
    return out


def _fstring_parts(node, what):
    if not isinstance(node, ast.JoinedStr):
        raise TranslatorError(f"{what}: not an f-string")
    parts = []
    for v in node.values:
        if isinstance(v, ast.Constant) and isinstance(v.value, str):
            parts.append(("lit", v.value))
        elif isinstance(v, ast.FormattedValue) and v.conversion == -1 and v.format_spec is None:
            parts.append(("val", v.value))
        else:
            raise TranslatorError(f"{what}: unsupported f-string piece")
    return parts


def _prepare_items():
    fn = core.find_function(FR, "_prepare_open_file", cls="FileResponse")
    out = []
    envZ = {"__scope__": "Z", "start": "start", "end": "e", "file_size": "file_size", "count": "count",
            "real_start": "start", "file_mtime": "file_mtime"}
    # initialisation
    for s in ("count: int = file_size", "start: int | None = None", "file_size: int = st.st_size", "status = self._status"):
        if not _has_stmt(fn.body, s):
            raise TranslatorError(f"_prepare_open_file: missing `{s}`")
    # If-Range gate
    gate = _walk_unique(fn, lambda n: isinstance(n, ast.If) and isinstance(n.test, ast.BoolOp) and isinstance(n.test.op, ast.Or)
                        and "ifrange" in ast.unparse(n.test), "if (ifrange := ...) is None or ...")
    if _dump(gate.test) != _expr("(ifrange := request.if_range) is None or file_mtime <= ifrange.timestamp()"):
        raise TranslatorError("_prepare_open_file: If-Range gate is not `(ifrange := request.if_range) is None or file_mtime <= ifrange.timestamp()`")
    if gate.orelse:
        raise TranslatorError("_prepare_open_file: If-Range gate has an else branch")
    out.append("(* If-Range gate: `ifrange is None or file_mtime <= ifrange.timestamp()` (both in the same unit here) *)")
    out.append("Definition ifrange_test (file_mtime ifrange : Z) : bool := (file_mtime <=? ifrange)%Z.\n")
    gb = gate.body
    if len(gb) != 2 or not isinstance(gb[0], ast.Try) or not isinstance(gb[1], ast.If):
        raise TranslatorError("_prepare_open_file: gate body must be try/except + `if start is not None`")
    tr = gb[0]
    want_try = [_stmt("rng = request.http_range"), _stmt("start = rng.start"), _stmt("end: int | None = rng.stop")]
    if [_dump(s) for s in tr.body] != want_try:
        raise TranslatorError("_prepare_open_file: try body is not rng/start/end extraction")
    if len(tr.handlers) != 1 or not (isinstance(tr.handlers[0].type, ast.Name) and tr.handlers[0].type.id == "ValueError"):
        raise TranslatorError("_prepare_open_file: handler must catch ValueError")
    hb = tr.handlers[0].body
    want416 = [_stmt('self._headers[hdrs.CONTENT_RANGE] = f"bytes */{file_size}"'),
               _stmt("self.set_status(HTTPRequestRangeNotSatisfiable.status_code)"),
               _stmt("return await super().prepare(request)")]
    if [_dump(s) for s in hb] != want416:
        raise TranslatorError("_prepare_open_file: ValueError handler is not the 416 answer")
    rng_if = gb[1]
    if _dump(rng_if.test) != _expr("start is not None") or rng_if.orelse:
        raise TranslatorError("_prepare_open_file: expected `if start is not None:` without else")
    rb = rng_if.body
    if len(rb) != 4 or not isinstance(rb[0], ast.If) or not isinstance(rb[1], ast.If):
        raise TranslatorError("_prepare_open_file: range block must be tail-if, unsat-if, status, set_status")
    tail = rb[0]
    if _dump(tail.test) != _expr("start < 0 and end is None"):
        raise TranslatorError("_prepare_open_file: tail test is not `start < 0 and end is None`")
    out.append("(* tail request: `start < 0 and end is None` *)")
    out.append(f"Definition tail_test (start : Z) (end_is_none : bool) : bool := ({core.comparison(tail.test.values[0], envZ)} && end_is_none)%Z.")
    tb = tail.body
    if len(tb) != 3 or _dump(tb[0]) != _stmt("start += file_size") or not isinstance(tb[1], ast.If) or not isinstance(tb[2], ast.Assign):
        raise TranslatorError("_prepare_open_file: tail branch shape")
    out.append(f"Definition tail_start (start file_size : Z) : Z := ({core.formula(ast.BinOp(ast.Name('start'), tb[0].op, tb[0].value), envZ)})%Z.")
    clamp = tb[1]
    if len(clamp.body) != 1 or clamp.orelse or not isinstance(clamp.body[0], ast.Assign) or ast.unparse(clamp.body[0].targets[0]) != "start":
        raise TranslatorError("_prepare_open_file: clamp shape")
    out.append(f"Definition tail_clamp (start : Z) : Z := (if {core.comparison(clamp.test, envZ)} then {core.formula(clamp.body[0].value, envZ)} else start)%Z.")
    if ast.unparse(tb[2].targets[0]) != "count":
        raise TranslatorError("_prepare_open_file: tail count assignment")
    out.append(f"Definition tail_count (file_size start : Z) : Z := ({core.formula(tb[2].value, envZ)})%Z.\n")
    eb = tail.orelse
    if len(eb) != 1 or not isinstance(eb[0], ast.Assign) or ast.unparse(eb[0].targets[0]) != "count":
        raise TranslatorError("_prepare_open_file: else branch must assign count")
    v = eb[0].value
    # min(end if end is not None else file_size, file_size) - start
    ok = (isinstance(v, ast.BinOp) and isinstance(v.left, ast.Call) and isinstance(v.left.func, ast.Name) and v.left.func.id == "min"
          and len(v.left.args) == 2 and _dump(v.left.args[0]) == _expr("end if end is not None else file_size"))
    if not ok:
        raise TranslatorError("_prepare_open_file: count formula is not `min(end if end is not None else file_size, file_size) - start`")
    v2 = ast.BinOp(ast.Call(ast.Name("min"), [ast.Name("end_or_size"), v.left.args[1]], []), v.op, v.right)
    env2 = dict(envZ, end_or_size="end_or_size")
    out.append("(* count = min(end if end is not None else file_size, file_size) - start *)")
    out.append(f"Definition range_count (end_or_size file_size start : Z) : Z := ({core.formula(v2, env2)})%Z.\n")
    unsat = rb[1]
    out.append("(* `if start >= file_size:` -> 416 with `bytes */size` *)")
    if [_dump(s) for s in unsat.body] != want416 or unsat.orelse:
        raise TranslatorError("_prepare_open_file: unsatisfiable branch is not the 416 answer")
    if sorted(n.id for n in ast.walk(unsat.test) if isinstance(n, ast.Name)) != ["file_size", "start"]:
        raise TranslatorError("_prepare_open_file: unsatisfiable test must compare start and file_size")
    out.append(f"Definition unsat_test (start file_size : Z) : bool := ({core.comparison(unsat.test, envZ)})%Z.\n")
    if _dump(rb[2]) != _stmt("status = HTTPPartialContent.status_code") or _dump(rb[3]) != _stmt("self.set_status(status)"):
        raise TranslatorError("_prepare_open_file: 206 status assignment")
    # content_length = count ; Content-Range
    if not _has_stmt(fn.body, "self.content_length = count"):
        raise TranslatorError("_prepare_open_file: missing `self.content_length = count`")
    cr_if = _if_with_test(fn, "status == HTTPPartialContent.status_code")
    crs = [s for s in cr_if.body if isinstance(s, ast.Assign) and "CONTENT_RANGE" in ast.unparse(s.targets[0])]
    if len(crs) != 1 or not _has_stmt(cr_if.body, "real_start = start"):
        raise TranslatorError("_prepare_open_file: Content-Range assignment not recognised")
    parts = _fstring_parts(crs[0].value, "Content-Range")
    kinds = [k for k, _ in parts]
    if kinds != ["lit", "val", "lit", "val", "lit", "val"]:
        raise TranslatorError("Content-Range f-string: expected lit{val}lit{val}lit{val}")
    out.append("(* Content-Range of a 206: f\"bytes {real_start}-{real_start + count - 1}/{file_size}\" *)")
    out.append(f"Definition cr_lit1 : list N := {core.coq_bytes(parts[0][1])}.")
    out.append(f"Definition cr_lit2 : list N := {core.coq_bytes(parts[2][1])}.")
    out.append(f"Definition cr_lit3 : list N := {core.coq_bytes(parts[4][1])}.")
    out.append(f"Definition cr_first (start count file_size : Z) : Z := ({core.formula(parts[1][1], envZ)})%Z.")
    out.append(f"Definition cr_last (start count file_size : Z) : Z := ({core.formula(parts[3][1], envZ)})%Z.")
    out.append(f"Definition cr_total (start count file_size : Z) : Z := ({core.formula(parts[5][1], envZ)})%Z.")
    p416 = _fstring_parts(ast.parse('f"bytes */{file_size}"', mode="eval").body, "x")
    out.append(f"Definition cr_unsat_lit : list N := {core.coq_bytes(p416[0][1])}.\n")
    # zero count shortcut and offset
    z = _walk_unique(fn, lambda n: isinstance(n, ast.If) and "must_be_empty_body" in ast.unparse(n.test), "if count == 0 or must_be_empty_body")
    if _dump(z.test) != _expr("count == 0 or must_be_empty_body(request.method, status)"):
        raise TranslatorError("_prepare_open_file: zero-count test")
    if not _has_stmt(fn.body, "offset = start or 0") or not _has_stmt(fn.body, "return await self._sendfile(request, fobj, offset, count)"):
        raise TranslatorError("_prepare_open_file: offset / _sendfile call")
    out.append("Definition zero_count_test (count : Z) : bool := (count =? 0)%Z.\n")
    return out


_EXPECTED_FALLBACK = '''
async def _sendfile_fallback(self, writer, fobj, offset, count):
    chunk_size = self._chunk_size
    loop = asyncio.get_running_loop()
    chunk = await loop.run_in_executor(None, self._seek_and_read, fobj, offset, min(chunk_size, count))
    while chunk:
        await writer.write(chunk)
        count = count - len(chunk)
        if count <= 0:
            break
        chunk = await loop.run_in_executor(None, fobj.read, min(chunk_size, count))
    await writer.drain()
    return writer
'''


def _strip_fn(fn):
    fn = ast.parse(ast.unparse(fn)).body[0]
    fn.returns = None
    for a in fn.args.args:
        a.annotation = None
    fn.body = _strip_docstring(fn.body)
    return ast.dump(fn, annotate_fields=False)


def _fallback_items():
    fn = core.find_function(FR, "_sendfile_fallback", cls="FileResponse")
    exp = ast.parse(_EXPECTED_FALLBACK).body[0]
    if _strip_fn(fn) != _strip_fn(exp):
        raise TranslatorError("_sendfile_fallback differs from the loop that Model/Static.v fallback_loop transcribes:\n" + ast.unparse(fn))
    sr = core.find_function(FR, "_seek_and_read", cls="FileResponse")
    b = _strip_docstring(sr.body)
    if [_dump(s) for s in b] != [_stmt("fobj.seek(offset)"), _stmt("return fobj.read(chunk_size)")]:
        raise TranslatorError("_seek_and_read is not seek+read")
    return ["(* _sendfile_fallback / _seek_and_read: shape checked against the transcription in Model/Static.v *)",
            "Definition fallback_shape_checked : bool := true.\n"]


def _status_items():
    out = []
    for cls, nm in (("HTTPPartialContent", "ST_PARTIAL"), ("HTTPNotModified", "ST_NOT_MODIFIED"), ("HTTPForbidden", "ST_FORBIDDEN"),
                    ("HTTPNotFound", "ST_NOT_FOUND"), ("HTTPPreconditionFailed", "ST_PRECONDITION_FAILED"),
                    ("HTTPRequestRangeNotSatisfiable", "ST_RANGE_NOT_SATISFIABLE")):
        v = core.literal(core.find_assign(WE, "status_code", cls=cls))
        out.append(f"Definition {nm} : N := {int(v)}.")
    out.append("")
    return out


def _encoding_items():
    v = core.find_assign(FR, "ENCODING_EXTENSIONS")
    want = _expr("MappingProxyType({ext: CONTENT_TYPES.encodings_map[ext] for ext in ('.br', '.gz')})")
    # compare modulo the literal tuple
    if not (isinstance(v, ast.Call) and len(v.args) == 1 and isinstance(v.args[0], ast.DictComp)):
        raise TranslatorError("ENCODING_EXTENSIONS: shape")
    dc = v.args[0]
    if _dump(dc.key) != _expr("ext") or _dump(dc.value) != _expr("CONTENT_TYPES.encodings_map[ext]") or len(dc.generators) != 1:
        raise TranslatorError("ENCODING_EXTENSIONS: comprehension shape")
    exts = core.literal(dc.generators[0].iter)
    if not (isinstance(exts, tuple) and all(isinstance(e, str) for e in exts)):
        raise TranslatorError("ENCODING_EXTENSIONS: extension tuple")
    import mimetypes
    encmap = mimetypes.MimeTypes().encodings_map   # the stdlib table the source indexes (trusted)
    pairs = []
    for e in exts:
        if e not in encmap:
            raise TranslatorError(f"ENCODING_EXTENSIONS: {e} not in mimetypes encodings_map")
        pairs.append(f"({core.coq_bytes(e)}, {core.coq_bytes(encmap[e])})")
    out = ["(* web_fileresponse.ENCODING_EXTENSIONS, in lookup order: (extension, content-coding) *)",
           "Definition encoding_extensions : list (list N * list N) := [" + "; ".join(pairs) + "].\n"]
    fn = core.find_function(FR, "_get_file_path_stat_encoding", cls="FileResponse")
    src_ok = ("compressed_path.lstat()" in ast.unparse(fn) and "S_ISREG(st.st_mode)" in ast.unparse(fn)
              and "file_path.with_suffix(file_path.suffix + file_extension)" in ast.unparse(fn)
              and "if file_encoding not in accept_encoding" in ast.unparse(fn)
              and "st = file_path.stat()" in ast.unparse(fn))
    if not src_ok:
        raise TranslatorError("_get_file_path_stat_encoding: lstat / S_ISREG / with_suffix / substring test / stat not all present")
    return out


def _unquote_items():
    fn = core.find_function(UD, "_unquote_path_safe")
    b = _strip_docstring(fn.body)
    if len(b) != 2 or _dump(b[0]) != _stmt('if "%" not in value:\n    return value'):
        raise TranslatorError("_unquote_path_safe: shape")
    if _dump(b[1]) != _stmt('return value.replace("%2F", "/").replace("%25", "%")'):
        raise TranslatorError("_unquote_path_safe: replacements are not %2F -> / then %25 -> %")
    return ["(* web_urldispatcher._unquote_path_safe: value.replace(\"%2F\", \"/\").replace(\"%25\", \"%\") *)",
            f"Definition unquote_steps : list (list N * list N) := [({core.coq_bytes('%2F')}, {core.coq_bytes('/')}); ({core.coq_bytes('%25')}, {core.coq_bytes('%')})].\n"]


def _dispatcher_shape():
    """The statements of StaticResource._handle / _resolve_path_to_response / resolve that Model/Static.v transcribes."""
    h = ast.unparse(core.find_function(UD, "_handle", cls="StaticResource"))
    for piece in ('filename = request.match_info["filename"]'.replace('"', "'"), "if Path(filename).is_absolute():", "raise HTTPNotFound()",
                  "unresolved_path = self._directory.joinpath(filename)"):
        if piece not in h:
            raise TranslatorError(f"StaticResource._handle: `{piece}` not found")
    r = core.find_function(UD, "_resolve_path_to_response", cls="StaticResource")
    trys = [s for s in _strip_docstring(r.body) if isinstance(s, ast.Try)]
    if len(trys) != 2:
        raise TranslatorError("_resolve_path_to_response: expected two try blocks")
    t0 = trys[0]
    if len(t0.body) != 1 or not isinstance(t0.body[0], ast.If) or _dump(t0.body[0].test) != _expr("self._break_symlink_sandbox"):
        raise TranslatorError("_resolve_path_to_response: first try must branch on self._break_symlink_sandbox")
    follow = [_dump(s) for s in t0.body[0].body]
    nofollow = [_dump(s) for s in t0.body[0].orelse]
    if follow != [_stmt("normalized_path = Path(os.path.normpath(unresolved_path))"), _stmt("normalized_path.relative_to(self._directory)"),
                  _stmt("file_path = normalized_path.resolve()")]:
        raise TranslatorError("_resolve_path_to_response: follow branch is not normpath / relative_to / resolve")
    nf = t0.body[0].orelse
    # fix 6ac5763: resolve, rel_path = relative_to(root), probe = root, for part in rel_path.parts: probe /= part; is_symlink -> ValueError
    want_head = [_stmt("file_path = unresolved_path.resolve()"), _stmt("rel_path = file_path.relative_to(self._directory)"),
                 _stmt("probe = self._directory")]
    if len(nf) != 4 or nofollow[:3] != want_head:
        raise TranslatorError("_resolve_path_to_response: sandbox branch is not resolve / rel_path = relative_to(self._directory) / probe = self._directory / for-loop")
    loop = nf[3]
    if not (isinstance(loop, ast.For) and not loop.orelse and ast.unparse(loop.target) == "part" and _dump(loop.iter) == _expr("rel_path.parts")):
        raise TranslatorError("_resolve_path_to_response: sandbox branch lacks `for part in rel_path.parts:`")
    lb = loop.body
    if len(lb) != 2 or _dump(lb[0]) != _stmt("probe = probe / part") or not isinstance(lb[1], ast.If) \
            or _dump(lb[1].test) != _expr("probe.is_symlink()"):
        raise TranslatorError("_resolve_path_to_response: loop body is not `probe = probe / part; if probe.is_symlink(): raise ValueError`")
    _only_raises(lb[1])
    if len(t0.handlers) != 1 or _dump(t0.handlers[0].type) != _expr("(ValueError, *CIRCULAR_SYMLINK_ERROR)"):
        raise TranslatorError("_resolve_path_to_response: handler must catch (ValueError, *CIRCULAR_SYMLINK_ERROR)")
    hb = t0.handlers[0].body
    if len(hb) != 1 or not isinstance(hb[0], ast.Raise) or ast.unparse(hb[0].exc) != "HTTPNotFound()":
        raise TranslatorError("_resolve_path_to_response: handler must raise HTTPNotFound")
    t1 = ast.unparse(trys[1])
    for piece in ("if file_path.is_dir():", "if self._show_index:", "raise HTTPForbidden()"):
        if piece not in t1:
            raise TranslatorError(f"_resolve_path_to_response: `{piece}` not found")
    last = _strip_docstring(r.body)[-1]
    if _dump(last) != _stmt("return FileResponse(file_path, chunk_size=self._chunk_size)"):
        raise TranslatorError("_resolve_path_to_response: must end with FileResponse(file_path, ...)")
    rs = ast.unparse(core.find_function(UD, "resolve", cls="StaticResource")) + "\n" + \
        ast.unparse(core.find_function(UD, "_set_match_prefix", cls="PrefixResource"))
    for piece in ("path = request.rel_url.path_safe", "norm_path = os.path.normpath(path)",
                  # since 70456c5 the prefix is compared in its path_safe (decoded) form, like the request path
                  "if not norm_path.startswith(self._prefix2) and norm_path != self._prefix_safe:",
                  "_unquote_path_safe(path[len(self._prefix_safe) + 1:])",
                  "self._prefix_safe = _path_safe(self._prefix)", "self._prefix2 = self._prefix_safe + '/'"):
        if piece not in rs:
            raise TranslatorError(f"StaticResource.resolve: `{piece}` not found")
    return ["(* StaticResource._handle / _resolve_path_to_response / resolve: statement shapes checked *)",
            "Definition dispatcher_shape_checked : bool := true.\n"]


def generate() -> str:
    out = []
    out += _http_range_items()
    out += _prepare_items()
    out += _fallback_items()
    out += _status_items()
    out += _encoding_items()
    out += _unquote_items()
    out += _dispatcher_shape()
    return "\n".join(out) + "\n"
