(* request:  <S|C> <autoclose 0/1> <autoping 0/1> <hb|-> <close_tmo> <recv_tmo|-> <tok> <tok> ...
   tokens:   c<t>r | c<t>k<code> | c<t>st | c<t>sp | c<t>sq   application call on task t
             pt pp pq pc<code> pb<code>     peer frame delivered now (text ping pong close bad)
             qt qp qq qc<code> qb<code>     peer frame delivered as a queued callback
             d  drop connection   l  local close of the connection by another actor   x<t> cancel task t   a<dt> advance the clock (units of 1/16 s)
             r  run one ready callback (stale timer callbacks are skipped, as asyncio skips cancelled handles)
             /  run the ready queue until idle and print a snapshot
   answer:   snapshots separated by " | " ; "REJECT@<i>" if an event is not enabled *)
let opt_n = function None -> "-" | Some x -> string_of_int (int_of_n x)
let b01 b = if b then "1" else "0"
let msg_s = function
  | MText -> "T" | MPing -> "P" | MPong -> "Q" | MClose c -> "C" ^ string_of_int (int_of_n c)
  | MClosing -> "G" | MClosed -> "D" | MError -> "E"
let frame_s = function
  | FText -> "T" | FPing -> "P" | FPong -> "Q" | FClose c -> "C" ^ string_of_int (int_of_n c)
let outcome_s = function
  | RMsg m -> "m" ^ msg_s m | RBool b -> "b" ^ b01 b | RNone -> "n"
  | XRuntime -> "xR" | XTimeout -> "xT" | XCancelled -> "xC" | XConnReset -> "xN" | XAssert -> "xA"
let pc_s = function
  | PIdle -> "I" | PStart _ -> "S" | PRecvWait -> "W" | PCloseCW (_, _) -> "CW" | PCloseRead _ -> "CR"
  | PDone r -> "D" ^ outcome_s r
let rel now = function None -> "-" | Some d -> string_of_int (int_of_n d - int_of_n now)
let snapshot s =
  let cw = match close_wait s with
    | None -> "none"
    | Some t -> let k = tasks s t in
      if is_close_cw (t_pc k) && (match t_fut k with None -> true | Some _ -> false) then "pend" else "done" in
  let buf = String.concat "" (List.map msg_s (q_buf s)) in
  let snt = String.concat "," (List.map frame_s (sent s)) in
  let ts = List.init (int_of_nat ntasks) (fun i -> let k = tasks s (nat_of_int i) in
      pc_s (t_pc k) ^ (match t_tmo k with None -> "" | Some d -> "@" ^ string_of_int (int_of_n d - int_of_n (now s)))) in
  Printf.sprintf "closed=%s closing=%s code=%s waiting=%s cw=%s lostcnt=%d buf=[%s] eof=%s exc=%s waiter=%s wclosing=%s trclosing=%s lost=%s sent=[%s] hb=%s pong=%s nreset=%s hasexc=%s bad=%s leak=%s defect=%s pcl=%s tasks=%s"
    (b01 (closed s)) (b01 (closing s)) (opt_n (close_code s)) (b01 (waiting s)) cw (int_of_n (lost_cnt s)) buf
    (b01 (q_eof s)) (opt_n (q_exc s)) (b01 (match q_waiter s with None -> false | Some _ -> true))
    (b01 (w_closing s)) (b01 (tr_closing s)) (b01 (lost s)) snt (rel (now s) (hb_cb s)) (rel (now s) (pong_cb s))
    (b01 (need_reset s)) (b01 (has_exc s)) (b01 (bad s)) (b01 (cw_leak s)) (b01 (code_defect s))
    (b01 (proto_close s)) (String.concat "," ts)
let num s i = int_of_string (String.sub s i (String.length s - i))
let peer_of s =
  match s.[1] with
  | 't' -> PMsg MText | 'p' -> PMsg MPing | 'q' -> PMsg MPong
  | 'c' -> PMsg (MClose (n_of_int (num s 2))) | 'b' -> PBad (n_of_int (num s 2))
  | _ -> failwith "peer"
let event_of tok =
  match tok.[0] with
  | 'c' ->
    let t = nat_of_int (Char.code tok.[1] - 48) in
    (match tok.[2] with
     | 'r' -> ECall (t, OpRecv)
     | 'k' -> ECall (t, OpClose (n_of_int (num tok 3)))
     | 's' -> ECall (t, OpSend (match tok.[3] with 't' -> SText | 'p' -> SPing | 'q' -> SPong | _ -> failwith "send"))
     | _ -> failwith "call")
  | 'p' -> EPeer (peer_of tok)
  | 'q' -> EPeerQ (peer_of tok)
  | 'd' -> EDrop
  | 'l' -> ELocalClose
  | 'x' -> ECancel (nat_of_int (num tok 1))
  | 'a' -> EAdvance (n_of_int (num tok 1))
  | _ -> failwith "token"
let optn s = if s = "-" then None else Some (n_of_int (int_of_string s))
let handle line =
  match words line with
  | sd :: ac :: ap :: hb :: ct :: rt :: toks ->
    let c = { c_side = (if sd = "S" then Server else Client); c_autoclose = (ac = "1"); c_autoping = (ap = "1");
              c_hb = optn hb; c_close_tmo = n_of_int (int_of_string ct); c_recv_tmo = optn rt } in
    let fuel = nat_of_int 2000 in
    let rec go s i toks acc =
      match toks with
      | [] -> String.concat " | " (List.rev acc)
      | "/" :: r -> let s = run_idle c fuel s in
        let extra = (match ready s with [] -> "" | _ -> " NOTIDLE") in
        go s (i + 1) r ((snapshot s ^ extra) :: acc)
      | "r" :: r ->
        let due o = (match o with Some d -> int_of_n d <= int_of_n (now s) | None -> false) in
        let rec one s =
          (match ready s with
           | [] -> s
           | it :: _ ->
             let stale = (match it with
                 | RTimer THb -> not (due (hb_cb s))
                 | RTimer TPong -> not (due (pong_cb s))
                 | RTimer (TTask t) -> not (due (t_tmo (tasks s t)))
                 | _ -> false) in
             (match step c s ERun with
              | None -> s
              | Some s' -> if stale then one s' else s')) in
        go (one s) (i + 1) r acc
      | tok :: r ->
        (match step c s (event_of tok) with
         | None -> String.concat " | " (List.rev (("REJECT@" ^ string_of_int i) :: acc))
         | Some s' -> go s' (i + 1) r acc) in
    go (init c) 0 toks []
  | _ -> "BADREQ"
let () = serve handle
