(* requests (space separated; byte strings in hex, "-" = empty):
   RUN <fuel> <boundary> <form01> <max_field> <max_headers> <client_max> <limit> <eager01> <segs> <sched>
       segs  = d:hex,d:hex,...  or -          sched = R | C<count>:<size>/<size>... | L<count> | X | S  joined by ','  or -
     -> parts "P <name=value;...|-> <data> <eof01>" joined by " | ", then " | END" / " | ERR <class>" / " | UNMODELLED"
   SIZE <boundary> <parts>   parts = headers:body:identity01,...  or -     -> NONE | SOME <n>
   ENC  <boundary> <parts>   -> hex
   SPEC <boundary> <wire>    -> NONE | SOME <block>,<block>,...   (specification-level splitter) *)
let split_on c s = if s = "-" || s = "" then [] else String.split_on_char c s
let seg_of tok = match String.split_on_char ':' tok with
  | [d; h] -> (n_of_int (int_of_string d), bytes_of_hex h)
  | _ -> failwith "bad segment"
let api_of tok =
  let n = String.length tok in
  match tok.[0] with
  | 'R' -> ARead
  | 'X' -> ARelease
  | 'S' -> ASkip
  | 'L' -> ALines (n_of_int (int_of_string (String.sub tok 1 (n - 1))))
  | 'C' -> (match String.split_on_char ':' (String.sub tok 1 (n - 1)) with
            | [c; sizes] -> AChunks (List.map (fun z -> n_of_int (int_of_string z)) (String.split_on_char '/' sizes),
                                     n_of_int (int_of_string c))
            | _ -> failwith "bad chunks")
  | _ -> failwith "bad api"
let err_name = function
  | EValue -> "value" | ELineTooLong -> "linetoolong" | EBadHttp -> "badhttp" | EInvalidHeader -> "invalidheader"
  | EMaxSize -> "maxsize" | EAssert -> "assert" | EFuel -> "FUEL"
let show_headers hs =
  if hs = [] then "-" else String.concat ";" (List.map (fun (k, v) -> hex_of_bytes k ^ "=" ^ hex_of_bytes v) hs)
let show_obs = function
  | MkObs (hs, data, eof) -> "P " ^ show_headers hs ^ " " ^ hex_of_bytes data ^ " " ^ string_of_bool_01 eof
  | MkNested hs -> "N " ^ show_headers hs
let wpart_of tok = match String.split_on_char ':' tok with
  | [h; b; i] -> { wp_headers = bytes_of_hex h; wp_body = bytes_of_hex b; wp_identity = (i = "1") }
  | _ -> failwith "bad part"
let handle line =
  match words line with
  | ["RUN"; fuel; b; form; mf; mh; cm; limit; eager; segs; sched] ->
    let (obs, fin) = run (nat_of_int (int_of_string fuel)) (bytes_of_hex b) (form = "1")
        (n_of_int (int_of_string mf)) (n_of_int (int_of_string mh)) (n_of_int (int_of_string cm))
        (n_of_int (int_of_string limit)) (List.map seg_of (split_on ',' segs)) (eager = "1")
        (List.map api_of (split_on ',' sched)) in
    let tail = match fin with FEnd -> "END" | FErr e -> "ERR " ^ err_name e | FUnmodelled -> "UNMODELLED" in
    String.concat " | " (List.map show_obs obs @ [tail])
  | ["SIZE"; b; parts] ->
    (match size (bytes_of_hex b) (List.map wpart_of (split_on ',' parts)) with
     | None -> "NONE" | Some n -> "SOME " ^ string_of_int (int_of_n n))
  | ["ENC"; b; parts] -> hex_of_bytes (encode (bytes_of_hex b) (List.map wpart_of (split_on ',' parts)))
  | ["SPEC"; b; w] ->
    (match spec_decode (bytes_of_hex b) (bytes_of_hex w) with
     | None -> "NONE" | Some l -> "SOME " ^ String.concat "," (List.map hex_of_bytes l))
  | _ -> "BADREQ"
let () = serve handle
