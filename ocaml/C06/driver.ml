(* request:  RUN <force 0|1> <strict 0|1> <ev> <ev> ...
   events (fields separated by '.'):
     C.e.host.port.isssl.ssl.proxy.phh.sni   connect()          P.e  set_response_params (+ replay of _tail)
     R.e  start() got head / error            B.e  read() finished      L.e  release()     X.e  close()/cancel
     D.c.tok,tok,...   one data_received      Z.c.oserr  connection_lost
   tokens:  H:id:blen:close:upg   Y:id:n   J:id   Q:id
   answer: one snapshot per event separated by " | "; a disabled event ends the answer with NONE@i *)
let ni s = n_of_int (int_of_string s)
let tok_of w =
  match String.split_on_char ':' w with
  | ["H"; i; b; c; u] -> KHead (ni i, ni b, c = "1", u = "1")
  | ["Y"; i; n] -> KBody (ni i, ni n)
  | ["J"; i] -> KJunk (ni i)
  | ["Q"; i] -> KPartial (ni i)
  | _ -> failwith ("bad token " ^ w)
(* macro event -> fine-grained events; EParams is followed by the replay of whatever was in _tail *)
type macro = M of event list | MParams of n
let ev_of w =
  match String.split_on_char '.' w with
  | ["C"; e; h; p; s; l; x; y; z] ->
    M [EConnect (ni e, { rq_host = ni h; rq_port = ni p; rq_is_ssl = ni s; rq_ssl = ni l; rq_proxy = ni x; rq_phh = ni y; rq_sni = ni z })]
  | ["P"; e] -> MParams (ni e)
  | ["R"; e] -> M [ERead (ni e)]
  | ["B"; e] -> M [EBody (ni e)]
  | ["L"; e] -> M [ERelease (ni e)]
  | ["X"; e] -> M [EClose (ni e)]
  | ["D"; c; toks] ->
    let ts = if toks = "" || toks = "-" then [] else List.map tok_of (String.split_on_char ',' toks) in
    M ([ESegBegin (ni c)] @ List.map (fun t -> ETok t) ts @ [ESegEnd])
  | ["Z"; c; o] -> M [EPeerClose (ni c, o = "1")]
  | _ -> failwith ("bad event " ^ w)
let rec steps cf s = function
  | [] -> Some s
  | ev :: r -> (match step cf s ev with None -> None | Some s' -> steps cf s' r)
let rec drain cf s =    (* replay queue, then close the segment *)
  match s.s_seg with
  | None -> Some s
  | Some g -> (match g.g_queue with
      | [] -> step cf s ESegEnd
      | _ -> (match step cf s EReplay with None -> None | Some s' -> drain cf s'))
let run_macro cf s = function
  | M evs -> steps cf s evs
  | MParams e -> (match step cf s (EParams e) with None -> None | Some s' -> drain cf s')
let b01 b = if b then "1" else "0"
let rec idx_in_key s key c i = function
  | [] -> -1
  | d :: r ->
    if list_eqb (s.s_conn d).c_key key then (if d = c then i else idx_in_key s key c (i + 1) r)
    else idx_in_key s key c i r
let outcome (before : state) w =
  match String.split_on_char '.' w with
  | ["R"; e] ->
    let x = before.s_x (ni e) in
    let cn = before.s_conn x.x_conn in
    if cn.c_buf <> [] then "H" else "E" ^ string_of_int (int_of_n cn.c_exc)
  | ["B"; e] ->
    let x = before.s_x (ni e) in
    (match x.x_pay with
     | Some pid when (before.s_pay pid).p_exc
                     || (not (before.s_pay pid).p_eof && not (before.s_conn x.x_conn).c_conn) -> "E"
     | _ -> "B")
  | _ -> "-"
let snapshot s (before : state) w =
  let n = int_of_n s.s_nconn in
  let conns = List.init n (fun i ->
      let cn = s.s_conn (n_of_int i) in
      let ph = match cn.c_phase with PFlight e -> "F" ^ string_of_int (int_of_n e) | PIdle -> "I" | PClosed -> "X" in
      let fl = if cn.c_conn then
          b01 cn.c_sc ^ b01 cn.c_upg ^ b01 (cn.c_htail <> []) ^ b01 (int_of_n cn.c_exc <> 0) ^ b01 (proto_should_close s cn)
        else "-" in
      Printf.sprintf "%s:%s:%d:%s" ph (b01 cn.c_conn) (List.length cn.c_buf) fl) in
  let pool = List.sort compare (List.map (fun c ->
      (int_of_n c, idx_in_key s (s.s_conn c).c_key c 0 s.s_pool)) s.s_pool) in
  let pool_s = String.concat "," (List.map (fun (c, i) -> Printf.sprintf "%d.%d" c i) pool) in
  (* deliveries made by this event *)
  let rec drop k l = if k <= 0 then l else (match l with [] -> [] | _ :: r -> drop (k - 1) r) in
  let fresh = drop (List.length before.s_log) s.s_log in
  let dl = String.concat "," (List.map (fun d ->
      Printf.sprintf "%d>%d%s" (int_of_n d.d_id) (int_of_n d.d_e) (if well_taggedb d then "" else "!")) fresh) in
  let dirty = String.concat "" (List.init n (fun i -> b01 (s.s_conn (n_of_int i)).c_dirty)) in
  Printf.sprintf "%s;pool=%s;new=%s;g=%s%s;dirty=%s;o=%s" (String.concat "/" conns) pool_s dl
    (b01 s.s_idle_parsed) (b01 s.s_tail_surplus) dirty (outcome before w)
let handle line =
  match words line with
  | "RUN" :: f :: st :: evs ->
    let cf = { cfg_force = (f = "1"); cfg_strict = (st = "1") } in
    let rec go s i acc = function
      | [] -> String.concat " | " (List.rev acc)
      | w :: r ->
        (match run_macro cf s (ev_of w) with
         | None -> String.concat " | " (List.rev (("NONE@" ^ string_of_int i) :: acc))
         | Some s' -> go s' (i + 1) (snapshot s' s w :: acc) r) in
    go init 0 [] evs
  | _ -> "BADREQ"
let () = serve handle
