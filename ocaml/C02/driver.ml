(* requests (space separated; "csv" = comma separated code points, "-" = empty; hex for bytes):
   RT <method csv> <target csv> <host csv> <v11 0|1> <chunked n|t|f> <force_close 0|1> <accept-encoding csv>
      <user-agent csv> <nh> (<name csv> <value csv>)*nh <cut1> <cut2> <body>
   body:  N | L <hex> | C <hex>*            (none / bytes / piece list)
   answers:
   UNMODELLED | VALUEERROR | REFUSED
   OK <valid 0|1> <wire hex> <method hex> <target hex> <vmaj><vmin> <close 0|1> <n> (<name hex> <value hex>)*n
      <body hex> <theorem 0|1>
   where the parse is that of the three-read segmentation [w[:cut1]; w[cut1:cut2]; w[cut2:]] with the default
   limits, and <theorem> says whether that run equals (final_state, [expected_rec r], ROk []). *)
let lim0 = { max_line = n_of_int 8190; max_field = n_of_int 8190; max_headers = n_of_int 128; max_queue = n_of_int 32 }
let rec take k l = if k <= 0 then [] else match l with [] -> [] | x :: r -> x :: take (k - 1) r
let rec drop k l = if k <= 0 then l else match l with [] -> [] | _ :: r -> drop (k - 1) r
let handle line =
  match words line with
  | "RT" :: m :: t :: host :: v11 :: ch :: fc :: ae :: ua :: nh :: rest ->
    let nh = int_of_string nh in
    let rec hdrs k l = if k = 0 then ([], l) else
        match l with a :: b :: r -> let (hs, r') = hdrs (k - 1) r in ((ns_of_csv a, ns_of_csv b) :: hs, r') | _ -> failwith "hdrs" in
    let (hs, rest) = hdrs nh rest in
    (match rest with
     | c1 :: c2 :: body ->
       let b = (match body with
           | ["N"] -> BNone
           | ["L"; h] -> BBytes (bytes_of_hex h)
           | "C" :: ps -> BPieces (List.map bytes_of_hex ps)
           | _ -> failwith "body") in
       let chunked = (match ch with "n" -> None | "t" -> Some true | "f" -> Some false | _ -> failwith "chunked") in
       let i = { i_method = ns_of_csv m; i_target = ns_of_csv t; i_host = ns_of_csv host; i_v11 = (v11 = "1");
                 i_headers = hs; i_accept_encoding = ns_of_csv ae; i_user_agent = ns_of_csv ua;
                 i_chunked = chunked; i_body = b; i_force_close = (fc = "1") } in
       (match build i with
        | BUnmodelled -> "UNMODELLED"
        | BValueError -> "VALUEERROR"
        | BOk r ->
          (match client_serialize r with
           | None -> "REFUSED"
           | Some w ->
             let c1 = int_of_string c1 and c2 = int_of_string c2 in
             let segs = [take c1 w; take (c2 - c1) (drop c1 w); drop c2 w] in
             let res = run_segs lim0 [] init segs [] [] in
             let e = expected_rec r in
             let final = { lines = []; tail = []; payload = None; upgraded = false; pending_upgrade = false;
                           should_close = e.r_msg.m_close; in_flight = n_of_int 1 } in
             let ok = (res = ((final, [e]), ROk [])) in
             let mm = e.r_msg in
             let hl = String.concat " " (List.map (fun (k, v) -> hex_of_bytes k ^ " " ^ hex_of_bytes v) mm.m_headers) in
             Printf.sprintf "OK %s %s %s %s %d%d %s %d %s %s %s"
               (string_of_bool_01 (valid lim0 r)) (hex_of_bytes w) (hex_of_bytes mm.m_method) (hex_of_bytes mm.m_target)
               (int_of_n mm.m_vmaj) (int_of_n mm.m_vmin) (string_of_bool_01 mm.m_close)
               (List.length mm.m_headers) (if hl = "" then "." else hl) (hex_of_bytes e.r_data) (string_of_bool_01 ok)))
     | _ -> "BADREQ")
  | ["RS"; v11; ka; hd; status; len; ch; fc] ->
    (* RS <v11> <request.keep_alive> <HEAD> <status> <content-length | -> <chunked> <force_close>
       -> REFUSED | HEAD <cl | -> <te 0|1> <conn n|c|k> <server keeps open> <client close> <client waits for EOF> *)
    let b x = (x = "1") in
    let c = { q_v11 = b v11; q_keep_alive = b ka; q_head = b hd } in
    let r = { p_status = n_of_int (int_of_string status);
              p_length = (if len = "-" then None else Some (n_of_int (int_of_string len)));
              p_chunked = b ch; p_force_close = b fc } in
    (match server_prepare c r with
     | SRefused -> "REFUSED"
     | SHead (h, keeps) ->
       Printf.sprintf "HEAD %s %s %s %s %s %s"
         (match h.h_cl with None -> "-" | Some n -> string_of_int (int_of_n n))
         (string_of_bool_01 h.h_te) (match h.h_conn with CNone -> "n" | CClose -> "c" | CKeepAlive -> "k")
         (string_of_bool_01 keeps) (string_of_bool_01 (client_close h)) (string_of_bool_01 (client_waits_eof (b hd) h)))
  | _ -> "BADREQ"
let () = serve handle
