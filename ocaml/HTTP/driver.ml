(* RUN <max_line> <max_field> <max_headers> <max_queue> <oracle> <seg> <seg> ...
   oracle: "-" or comma separated  c:<hex>:<0|1> / a:<hex>:<0|1>   (c = CONNECT authority, a = absolute/other)
   answer: <outcome> # <state> # <events of call 0> / <events of call 1> / ...
   outcome: OK:<unconsumed hex> | ERR:<class>@<call index> | ASK:<c|a>:<hex> *)
let err_name = function
  | EBadMessage -> "BadHttpMessage" | EBadMethod -> "BadHttpMethod" | EBadStatus -> "BadStatusLine"
  | ELineTooLong -> "LineTooLong" | EInvalidHeader -> "InvalidHeader" | EInvalidUrl -> "InvalidURLError"
  | ETransferEncoding -> "TransferEncodingError" | EContentLength -> "ContentLengthError"
let b01 b = if b then "1" else "0"
let rec_str (r : mrec) =
  let m = r.r_msg in
  Printf.sprintf "M:%s:%s:%d.%d:%s%s%s%s:%s:%s:%s:%s:%s:%s" (hex_of_bytes m.m_method) (hex_of_bytes m.m_target)
    (int_of_n m.m_vmaj) (int_of_n m.m_vmin) (b01 m.m_close) (b01 m.m_chunked) (b01 m.m_upgrade) (b01 r.r_body)
    (match m.m_compression with None -> "~" | Some c -> hex_of_bytes c)
    (if m.m_headers = [] then "~" else
       String.concat "," (List.map (fun (k, v) -> hex_of_bytes k ^ "=" ^ hex_of_bytes v) m.m_headers))
    (hex_of_bytes r.r_data) (csv_of_ns r.r_splits) (b01 r.r_eof)
    (match r.r_exc with None -> "~" | Some e -> err_name e)
let parse_oracle s =
  if s = "-" then [] else
    List.map (fun it -> match String.split_on_char ':' it with
        | [k; h; v] -> ((k = "c", bytes_of_hex h), v = "1")
        | _ -> failwith "oracle") (String.split_on_char ',' s)
let sum_len l = List.fold_left (fun a x -> a + List.length x) 0 l
let state_str (s : pst) =
  let (pk, ct, tl, tlb) = match s.payload with
    | None -> ("none", 0, 0, 0)
    | Some p -> ((match p.pk with PLength _ -> "length" | PUntilEof -> "eof"
                                  | PChunked CSize -> "c-size" | PChunked (CData _) -> "c-data"
                                  | PChunked CDataEnd -> "c-dataend" | PChunked CTrailers -> "c-trailers"),
                 List.length p.ctail, List.length p.tlines, sum_len p.tlines) in
  Printf.sprintf "up=%s tail=%d lines=%d linebytes=%d pk=%s ctail=%d tlines=%d tlbytes=%d inflight=%d close=%s"
    (b01 s.upgraded) (List.length s.tail) (List.length s.lines) (sum_len s.lines) pk ct tl tlb
    (int_of_n s.in_flight) (b01 s.should_close)
let handle line =
  match words line with
  | "RUN" :: ml :: mf :: mh :: mq :: orc :: segs ->
    let lim = { max_line = n_of_int (int_of_string ml); max_field = n_of_int (int_of_string mf);
                max_headers = n_of_int (int_of_string mh); max_queue = n_of_int (int_of_string mq) } in
    let o = parse_oracle orc in
    (* counts.(i) = number of messages that existed before call i *)
    let rec go s i segs a counts left =
      match segs with
      | [] -> ("OK:" ^ hex_of_bytes left, s, a, List.rev counts)
      | d :: rest ->
        let counts = List.length a :: counts in
        let ((s', a'), r) = feed lim o s (bytes_of_hex d) a in
        (match r with
         | ROk lo -> go s' (i + 1) rest a' counts (left @ lo)
         | RErr e -> (Printf.sprintf "ERR:%s@%d" (err_name e) i, s', a', List.rev counts)
         | RAsk (c, t) -> ("ASK:" ^ (if c then "c" else "a") ^ ":" ^ hex_of_bytes t, s', a', List.rev counts))
    in
    let (out, s, a, counts) = go init 0 segs [] [] [] in
    out ^ "#" ^ state_str s ^ "#" ^ String.concat "," (List.map string_of_int counts) ^ "#"
    ^ String.concat "|" (List.map rec_str (List.rev a))
  | ["SPEC"; ml; mf; mh; mq; orc; stream] ->
    let lim = { max_line = n_of_int (int_of_string ml); max_field = n_of_int (int_of_string mf);
                max_headers = n_of_int (int_of_string mh); max_queue = n_of_int (int_of_string mq) } in
    let sm_str (x : smsg) =
      let m = x.s_msg in
      Printf.sprintf "M:%s:%s:%d.%d:%s%s%s:%s:%s:%s:%s:%d" (hex_of_bytes m.m_method) (hex_of_bytes m.m_target)
        (int_of_n m.m_vmaj) (int_of_n m.m_vmin) (b01 m.m_close) (b01 m.m_chunked) (b01 m.m_upgrade)
        (match m.m_compression with None -> "~" | Some c -> hex_of_bytes c)
        (if m.m_headers = [] then "~" else
           String.concat "," (List.map (fun (k, v) -> hex_of_bytes k ^ "=" ^ hex_of_bytes v) m.m_headers))
        (hex_of_bytes x.s_body) (csv_of_ns x.s_chunk_ends) (List.length x.s_span) in
    let ms_str ms = String.concat "|" (List.map sm_str ms) in
    (match spec lim (parse_oracle orc) (bytes_of_hex stream) with
     | SAccept (ms, _) -> "ACCEPT#" ^ ms_str ms
     | SUpgraded (ms, rest) -> "UPGRADED:" ^ hex_of_bytes rest ^ "#" ^ ms_str ms
     | SIncomplete (ms, rest) -> "INCOMPLETE:" ^ hex_of_bytes rest ^ "#" ^ ms_str ms
     | SReject (ms, e) -> "REJECT:" ^ err_name e ^ "#" ^ ms_str ms
     | SAsk (c, t) -> "ASK:" ^ (if c then "c" else "a") ^ ":" ^ hex_of_bytes t)
  | _ -> "BADREQ"
let () = serve handle
