(* requests:
   RUN <u> <limit> <ev> <ev> ...
     A.d | S.t.total.connect.sockconnect.sockread.thr.block ("_" = None) | D | C.t | W.t | X.t.k (k = p h b e)
     | R.t | K.t | F.t.w (w = total conn sock read; LTS-level firing, used by replays only)
     answer: one snapshot per event separated by " | "; "STUCK@i" if the driver ran out of fuel
   WHEN <kind total|ctx|read> <u> <now> <t> <thr>    -> deadline
   EFF <total> <connect> <sock_read> <sock_connect>  -> effective total or "_" *)
let zi s = z_of_int (int_of_string s)
let oz s = if s = "_" then None else Some (zi s)
let ni s = n_of_int (int_of_string s)
let ev_of w =
  match String.split_on_char '.' w with
  | ["A"; d] -> EAdv (zi d)
  | ["S"; t; a; b; c; d; thr; blk] ->
    EStart (ni t, { c_total = oz a; c_connect = oz b; c_sock_connect = oz c; c_sock_read = oz d; c_thr = zi thr; c_block = (blk = "1") })
  | ["D"] -> EDns
  | ["C"; t] -> EConn (ni t)
  | ["W"; t] -> EWritten (ni t)
  | ["X"; t; k] -> EData (ni t, (match k with "p" -> KPart | "h" -> KHead | "b" -> KBig | "e" -> KEnd | _ -> failwith "kind"))
  | ["R"; t] -> ERead (ni t)
  | ["K"; t] -> ECancel (ni t)
  | ["F"; t; w] -> EFire (ni t, (match w with "total" -> TTotal | "conn" -> TConn | "sock" -> TSock | "read" -> TRead | _ -> failwith "timer"))
  | _ -> failwith ("bad event " ^ w)
let fail_s = function FTotal -> "total_timeout" | FConnect -> "connect_timeout" | FSockConnect -> "connect_timeout"
                    | FSockRead -> "sock_read_timeout" | FCancelled -> "cancelled"
let fail_exact = function FTotal -> "total" | FConnect -> "connect" | FSockConnect -> "sock_connect"
                        | FSockRead -> "sock_read" | FCancelled -> "cancelled"
let pc_s = function
  | PIdle -> "idle" | PWaitSlot -> "waitslot" | PResolve -> "resolve" | PConnect -> "connect" | PHeaders -> "headers"
  | PBody true -> "body_reading" | PBody false -> "body_idle" | PRecv -> "received" | PDone -> "done" | PFailed (f, _) -> "failed_" ^ fail_exact f
let snapshot s =
  let ids = List.map int_of_n s.ids in
  let tm = List.concat_map (fun t ->
      let ts = s.tasks (n_of_int t) in
      List.concat_map (fun (w, nm) -> match deadline ts w with Some d -> [(int_of_z d, nm)] | None -> [])
        [(TTotal, "total"); (TConn, "ctx"); (TSock, "ctx"); (TRead, "read")]) ids in
  let tm = List.sort compare tm in
  let out = List.concat_map (fun t ->
      match (s.tasks (n_of_int t)).pcs with
      | PDone -> [Printf.sprintf "%d:ok" t]
      | PFailed (f, a) -> [Printf.sprintf "%d:%s:%d" t (fail_s f) (int_of_z a)]
      | _ -> []) ids in
  let livel = List.filter (fun t -> pending (s.tasks (n_of_int t)).pcs) ids in
  let pcs = String.concat "," (List.map (fun t -> Printf.sprintf "%d=%s" t (pc_s (s.tasks (n_of_int t)).pcs)) ids) in
  Printf.sprintf "now=%d acq=%d idle=%d wait=%d open=%d created=%d writers=%d lookup=%d cached=%d timers=%s out=%s live=%s pcs=%s"
    (int_of_z s.now) (List.length s.acq) (List.length s.idle) (List.length s.waiters)
    (int_of_n s.nconn - List.length s.closedc) (int_of_n s.nconn) (int_of_nat (count_writers s))
    (match s.dns with DInflight -> 1 | _ -> 0) (match s.dns with DCached -> 1 | _ -> 0)
    (if tm = [] then "-" else String.concat "," (List.map (fun (d, k) -> Printf.sprintf "%d:%s" d k) tm))
    (if out = [] then "-" else String.concat "," out)
    (if livel = [] then "-" else String.concat "," (List.map string_of_int livel))
    (if pcs = "" then "-" else pcs)
let handle line =
  match words line with
  | "RUN" :: u :: l :: evs ->
    let g = { u = zi u; limit = zi l } in
    let rec go s i acc = function
      | [] -> String.concat " | " (List.rev acc)
      | w :: r ->
        let e = ev_of w in
        let res = (match e with EFire _ -> step g s e | _ -> apply g s e) in
        (match res with
         | None -> String.concat " | " (List.rev (("STUCK@" ^ string_of_int i) :: acc))
         | Some s' -> go s' (i + 1) (snapshot s' :: acc) r) in
    go init 0 [] evs
  | ["WHEN"; k; u; nw; t; thr] ->
    let r = (match k with
        | "total" -> total_when (zi u) (zi nw) (zi t) (zi thr)
        | "ctx" -> ctx_when (zi u) (zi nw) (zi t) (zi thr)
        | "read" -> read_when (zi nw) (zi t)
        | _ -> failwith "kind") in
    string_of_int (int_of_z r)
  | ["EN"; k; t] ->
    string_of_bool_01 (match k with
        | "total" -> total_enabled (oz t) | "ctx" -> ctx_enabled (oz t) | "read" -> read_enabled (oz t) | _ -> failwith "kind")
  | ["EFF"; a; b; c; d] ->
    (match effective_total (oz a) (oz b) (oz c) (oz d) with Some z -> string_of_int (int_of_z z) | None -> "_")
  | _ -> "BADREQ"
let () = serve handle
