(* request line:
     RUN <max> <allow01> <meth> <body> <auth> <cookiehdr> <pauth> <reqck> <clen01> <url> <jar> <resp> <resp> ...
   meth: 0..6 = GET HEAD POST PUT DELETE PATCH OPTIONS, 7+n = other method n
   body: N | R<id> | O<id>            optional number: _ | <n>
   cookie list option: ~ (None) | - (Some []) | n:v,n:v
   url: sch.host.port.cred.path (port, cred: _ or number)      jar: - | h:n:v[:pathscope],...
   resp: status/setcookies/loc[/unsent01]   setcookies: - | n:v,..   loc: N | I | H | A<url> | R<path> | S<host>.<port>.<path>
   answer:
     <sent>|<sent>|... # <disp letters> # <outcome>
   sent: org;path;urlcred;meth;body;auth;hdrcookie;pauth;reqck;jar;clen;cookiepairs;destport;secret01
   outcome: P | D<status>:<hist> | F<err>:<hist>     hist: - | status.sch.host.port.path,...  *)
let split c s = String.split_on_char c s
let optn s = if s = "_" then None else Some (n_of_int (int_of_string s))
let str_optn = function None -> "_" | Some x -> string_of_int (int_of_n x)
let pair s = match split ':' s with [a; b] -> (n_of_int (int_of_string a), n_of_int (int_of_string b)) | _ -> failwith "pair"
let cklist s = if s = "-" then [] else List.map pair (split ',' s)
let ckopt s = if s = "~" then None else Some (cklist s)
let str_cklist l = if l = [] then "-" else String.concat "," (List.map (fun (a, b) -> string_of_int (int_of_n a) ^ ":" ^ string_of_int (int_of_n b)) l)
let str_ckopt = function None -> "~" | Some l -> str_cklist l
let url_of s = match split '.' s with
  | [sc; h; p; c; pa] -> { u_org = { o_sch = n_of_int (int_of_string sc); o_host = n_of_int (int_of_string h); o_port = optn p };
                           u_cred = optn c; u_path = n_of_int (int_of_string pa) }
  | _ -> failwith "url"
let str_org o = Printf.sprintf "%d.%d.%s" (int_of_n o.o_sch) (int_of_n o.o_host) (str_optn o.o_port)
let meth_of i = match i with 0 -> MGet | 1 -> MHead | 2 -> MPost | 3 -> MPut | 4 -> MDelete | 5 -> MPatch | 6 -> MOptions
  | k -> MOther (n_of_int (k - 7))
let str_meth = function MGet -> "0" | MHead -> "1" | MPost -> "2" | MPut -> "3" | MDelete -> "4" | MPatch -> "5" | MOptions -> "6"
  | MOther k -> string_of_int (7 + int_of_n k)
let body_of s = if s = "N" then BNone else
  let k = n_of_int (int_of_string (String.sub s 1 (String.length s - 1))) in
  if s.[0] = 'R' then BReplay k else if s.[0] = 'O' then BOnce k else failwith "body"
let str_body = function BNone -> "N" | BReplay k -> "R" ^ string_of_int (int_of_n k) | BOnce k -> "O" ^ string_of_int (int_of_n k)
let jar_of s = if s = "-" then [] else List.map (fun e -> match split ':' e with
  | [h; n; v] -> (((n_of_int (int_of_string h), n_of_int (int_of_string n)), n_of_int (int_of_string v)), None)
  | [h; n; v; p] -> (((n_of_int (int_of_string h), n_of_int (int_of_string n)), n_of_int (int_of_string v)), Some (n_of_int (int_of_string p)))
  | _ -> failwith "jar") (split ',' s)
let loc_of s =
  let rest = String.sub s 1 (String.length s - 1) in
  match s.[0] with
  | 'N' -> LNone | 'I' -> LInvalid | 'H' -> LNoHost
  | 'A' -> LAbs (url_of rest)
  | 'R' -> LRel (n_of_int (int_of_string rest))
  | 'S' -> (match split '.' rest with [h; p; pa] -> LSchemeRel (n_of_int (int_of_string h), optn p, n_of_int (int_of_string pa)) | _ -> failwith "srel")
  | _ -> failwith "loc"
let resp_of s = match split '/' s with
  | [st; sc; l] -> { rs_status = n_of_int (int_of_string st); rs_setcookie = cklist sc; rs_loc = loc_of l; rs_unsent = false }
  | [st; sc; l; u] -> { rs_status = n_of_int (int_of_string st); rs_setcookie = cklist sc; rs_loc = loc_of l; rs_unsent = (u = "1") }
  | _ -> failwith "resp"
let str_auth = function None -> "_" | Some (ACaller t) -> "C" ^ string_of_int (int_of_n t) | Some (AUrl t) -> "U" ^ string_of_int (int_of_n t)
let str_sent s =
  let ((_, _), port) = dest s.s_org in
  String.concat ";" [ str_org s.s_org; string_of_int (int_of_n s.s_path); str_optn s.s_urlcred; str_meth s.s_meth;
    str_body s.s_body; str_auth s.s_auth; str_ckopt s.s_hdrcookie; str_optn s.s_pauth; str_ckopt s.s_reqck;
    str_cklist s.s_jar; string_of_bool_01 s.s_clen; str_cklist (cookie_pairs s); string_of_int (int_of_n port);
    string_of_bool_01 (carries_caller_secretb s) ]
let str_hist h = if h = [] then "-" else
  String.concat "," (List.map (fun ((st, o), p) -> Printf.sprintf "%d.%s.%d" (int_of_n st) (str_org o) (int_of_n p)) h)
let str_err = function EAuthConflict -> "AuthConflict" | ETooManyRedirects -> "TooManyRedirects" | EPayloadConsumed -> "PayloadConsumed"
  | EInvalidRedirect -> "InvalidRedirect" | ENonHttpRedirect -> "NonHttpRedirect"
let str_outcome = function Pending -> "P" | Done (st, h) -> Printf.sprintf "D%d:%s" (int_of_n st) (str_hist h)
  | Failed (e, h) -> Printf.sprintf "F%s:%s" (str_err e) (str_hist h)
let str_disp = function DReleased -> "r" | DClosed -> "c" | DReturned -> "t"
let handle line =
  match words line with
  | "RUN" :: mx :: allow :: m :: b :: au :: ch :: pa :: rc :: cl :: u :: j :: resps ->
    let c = { c_max = z_of_int (int_of_string mx); c_allow = (allow = "1") } in
    let q = { q_meth = meth_of (int_of_string m); q_url = url_of u; q_auth = optn au; q_cookie = ckopt ch; q_pauth = optn pa;
              q_reqck = ckopt rc; q_body = body_of b; q_clen = (cl = "1"); q_jar = jar_of j } in
    let t = run c q (List.map resp_of resps) in
    let ds = String.concat "" (List.map str_disp t.disps) in
    String.concat "|" (List.map str_sent t.sents) ^ " # " ^ (if ds = "" then "-" else ds) ^ " # " ^ str_outcome t.result
  | _ -> "BADREQ"
let () = serve handle
