(* requests:
   RUN <max> <compress01> <decode_text01> <seg hex> ...    -> per segment  E:<events>;S:<state>;P:<pause01>   joined by " | "
   SPEC <profile> <max> <compress01> <decode_text01> <stream hex>  -> E:<events>;O:<outcome>
        profile: rfc (hand-written) | aio (comparisons regenerated from the code)
   UTF8 <hex> -> 0|1
   TOY <cap> <hex> <hex> ...   -> successive decompress_sync results on one context: OK:<hex> | TOOMANY | ERR
   numbers that may exceed 62 bits are printed in binary with a 'b' prefix *)
let rec bin_of_pos = function XH -> "1" | XO p -> bin_of_pos p ^ "0" | XI p -> bin_of_pos p ^ "1"
let bin_of_n = function N0 -> "b0" | Npos p -> "b" ^ bin_of_pos p
let b01 b = if b then "1" else "0"
let ev_str = function
  | MText b -> "T:" ^ hex_of_bytes b
  | MBinary b -> "B:" ^ hex_of_bytes b
  | MPing b -> "PI:" ^ hex_of_bytes b
  | MPong b -> "PO:" ^ hex_of_bytes b
  | MClose (c, r) -> "C:" ^ string_of_int (int_of_n c) ^ ":" ^ hex_of_bytes r
let evs_str l = if l = [] then "-" else String.concat "," (List.map ev_str l)
let err_str = function WsErr c -> string_of_int (int_of_n c) | CodecErr -> "codec"
let phase_str = function RH -> "1" | RL -> "2" | RM -> "3" | RP -> "4"
let cx_str (c : toycx) =
  Printf.sprintf "%d/%s/%s/%s" (int_of_n c.t_a) (match c.t_pend with None -> "n" | Some x -> string_of_int (int_of_n x))
    (bin_of_n c.t_rem) (hex_of_bytes c.t_tail)
let state_str (s : toycx rstate) =
  let (((m0, m1), m2), m3) = s.s_mask in
  String.concat ":" [ "L"; phase_str s.s_phase; hex_of_bytes s.s_tail; hex_of_bytes s.s_m.m_partial;
    string_of_int (int_of_n s.s_m.m_opcode); b01 s.s_ffin; string_of_int (int_of_n s.s_fop);
    hex_of_bytes s.s_frags; bin_of_n s.s_nfrags; b01 s.s_hmask; hex_of_bytes [m0; m1; m2; m3];
    bin_of_n s.s_toread; string_of_int (int_of_n s.s_lflag); string_of_int (int_of_n s.s_comp); cx_str s.s_m.m_cx ]
let reader_str = function Live s -> state_str s | Latched e -> "X:" ^ err_str e | Fuel -> "FUEL"
let cls_str = function
  | VRsv -> "rsv" | VOpcode -> "opcode" | VCtlFragmented -> "ctl-fragmented" | VCtlTooLong -> "ctl-too-long"
  | VLen64 -> "len64" | VTooBig -> "too-big" | VContNoMessage -> "cont-no-message" | VDataInMessage -> "data-in-message"
  | VUtf8 -> "utf8" | VCloseCode -> "close-code" | VCloseLen -> "close-len" | VCodec -> "codec" | VTooManyMembers -> "too-many-members"
let mkcfg_ mx cmp dt = { max_msg_size = n_of_int (int_of_string mx); compress = (cmp = "1"); decode_text = (dt = "1") }
let profile_of s = if s = "aio" then aiohttp_profile else rfc_profile
let handle line =
  match words line with
  | "RUN" :: mx :: cmp :: dt :: segs ->
    let c = mkcfg_ mx cmp dt in
    let rd = ref (Live toy_init) in
    let outs = List.map (fun sg ->
      let (ev, rd') = toy_feed c !rd (bytes_of_hex sg) in
      rd := rd';
      let p = (match rd' with Live s -> toy_wants_pause c s | _ -> false) in
      "E:" ^ evs_str ev ^ ";S:" ^ reader_str rd' ^ ";P:" ^ b01 p) segs in
    String.concat " | " outs
  | ["SPEC"; pr; mx; cmp; dt; s] ->
    let c = mkcfg_ mx cmp dt in
    let (ev, o) = toy_decode (profile_of pr) c toy0 (bytes_of_hex s) in
    "E:" ^ evs_str ev ^ ";O:" ^ (match o with Pending -> "pending" | SpecFuel -> "FUEL"
                                  | Violation (e, cls) -> "viol:" ^ err_str e ^ ":" ^ cls_str cls)
  | ["UTF8"; s] -> b01 (utf8_valid (bytes_of_hex s))
  | "TOY" :: cap :: chunks ->
    let cx = ref toy0 in
    let dead = ref false in
    String.concat " " (List.map (fun ch ->
      if !dead then "DEAD" else
      match toy_decomp !cx (bytes_of_hex ch) (n_of_int (int_of_string cap)) with
      | DOk (o, c') -> cx := c'; "OK:" ^ hex_of_bytes o ^ "/" ^ cx_str c'
      | DTooMany -> dead := true; "TOOMANY"
      | DErr -> dead := true; "ERR") chunks)
  | _ -> "BADREQ"
let () = serve handle
