(* RUN <max_line> <max_field> <max_headers> <max_queue> <with_body 0|1> <until_eof 0|1> <eof 0|1> <seg> <seg> ...
   answer: <outcome>#<state before feed_eof>#<message counts before each call>#<records>#<eof result>
   outcome: OK:<unconsumed hex> | ERR:<class>@<call index>
   eof result: - (not run) | EOFOK:~ | EOFOK:<partial message> | EOFERR:<class>
   SPACE <lo> <hi> / LOWER <lo> <hi> / DECODE <hex> / SPLIT <hex> / FIELDS <max_field> <line> ... / TE <hex> : primitives *)
let err_name = function
  | EBadMessage -> "BadHttpMessage" | EBadMethod -> "BadHttpMethod" | EBadStatus -> "BadStatusLine"
  | ELineTooLong -> "LineTooLong" | EInvalidHeader -> "InvalidHeader" | EInvalidUrl -> "InvalidURLError"
  | ETransferEncoding -> "TransferEncodingError" | EContentLength -> "ContentLengthError"
let b01 b = if b then "1" else "0"
let hdrs_str hs =
  if hs = [] then "~" else String.concat "," (List.map (fun (k, v) -> hex_of_bytes k ^ "=" ^ hex_of_bytes v) hs)
let msg_str (m : rmsg) =
  Printf.sprintf "%d.%d:%d:%s:%s%s%s:%s:%s" (int_of_n m.rm_vmaj) (int_of_n m.rm_vmin) (int_of_n m.rm_code)
    (csv_of_ns m.rm_reason) (b01 m.rm_close) (b01 m.rm_chunked) (b01 m.rm_upgrade)
    (match m.rm_compression with None -> "~" | Some c -> hex_of_bytes c) (hdrs_str m.rm_headers)
let rec_str (r : rrec) =
  Printf.sprintf "R:%s:%s:%s:%s:%s:%s" (msg_str r.rr_msg) (b01 r.rr_body) (hex_of_bytes r.rr_data)
    (csv_of_ns r.rr_splits) (b01 r.rr_eof) (match r.rr_exc with None -> "~" | Some e -> err_name e)
let sum_len l = List.fold_left (fun a x -> a + List.length x) 0 l
let state_str (s : rst) =
  let (pk, ct, tl, tlb) = match s.rpayload with
    | None -> ("none", 0, 0, 0)
    | Some p -> ((match p.rpk with RLength _ -> "length" | RUntilEof -> "eof"
                                   | RChunked RSize -> "c-size" | RChunked (RData _) -> "c-data"
                                   | RChunked RDataEnd -> "c-dataend"
                                   | RChunked RTrailers -> "c-trailers"),
                 List.length p.rctail, List.length p.rtlines, sum_len p.rtlines) in
  Printf.sprintf "up=%s tail=%d lines=%d linebytes=%d pk=%s ctail=%d tlines=%d tlbytes=%d inflight=%d close=%s"
    (b01 s.rupgraded) (List.length s.rtail) (List.length s.rlines) (sum_len s.rlines) pk ct tl tlb
    (int_of_n s.rin_flight) (b01 s.rshould_close)
let handle line =
  match words line with
  | "RUN" :: ml :: mf :: mh :: mq :: wb :: ue :: eof :: segs ->
    let lim = { max_line = n_of_int (int_of_string ml); max_field = n_of_int (int_of_string mf);
                max_headers = n_of_int (int_of_string mh); max_queue = n_of_int (int_of_string mq) } in
    let cfg = { c_lim = lim; c_with_body = (wb = "1"); c_until_eof = (ue = "1") } in
    let rec go s i segs a counts left =
      match segs with
      | [] -> (true, "OK:" ^ hex_of_bytes left, s, a, List.rev counts)
      | d :: rest ->
        let counts = List.length a :: counts in
        let ((s', a'), r) = rfeed cfg s (bytes_of_hex d) a in
        (match r with
         | OOk lo -> go s' (i + 1) rest a' counts (left @ lo)
         | OErr e -> (false, Printf.sprintf "ERR:%s@%d" (err_name e) i, s', a', List.rev counts))
    in
    let (ok, out, s, a, counts) = go rinit 0 segs [] [] [] in
    let st = state_str s in
    let (a, eofs) =
      if ok && eof = "1" then
        let ((_, a'), r) = rfeed_eof cfg s a in
        (a', (match r with EofOk None -> "EOFOK:~" | EofOk (Some m) -> "EOFOK:" ^ msg_str m | EofErr e -> "EOFERR:" ^ err_name e))
      else (a, "-") in
    out ^ "#" ^ st ^ "#" ^ String.concat "," (List.map string_of_int counts) ^ "#"
    ^ String.concat "|" (List.map rec_str (List.rev a)) ^ "#" ^ eofs
  | ["SPACE"; lo; hi] ->
    let lo = int_of_string lo and hi = int_of_string hi in
    let acc = ref [] in
    for c = hi - 1 downto lo do if py_isspace (n_of_int c) then acc := string_of_int c :: !acc done;
    if !acc = [] then "-" else String.concat "," !acc
  | ["LOWER"; lo; hi] ->
    let lo = int_of_string lo and hi = int_of_string hi in
    let acc = ref [] in
    for c = hi - 1 downto lo do
      let l = int_of_n (lowerU (n_of_int c)) in
      if l <> c then acc := (string_of_int c ^ ":" ^ string_of_int l) :: !acc done;
    if !acc = [] then "-" else String.concat "," !acc
  | ["DECODE"; h] -> csv_of_ns (decode_se (bytes_of_hex h))
  | ["SPLIT"; h] ->
    (match split_status_line (decode_se (bytes_of_hex h)) with
     | None -> "NONE"
     | Some ((v, st), rs) -> csv_of_ns v ^ "|" ^ csv_of_ns st ^ "|" ^ csv_of_ns rs)
  | "FIELDS" :: mf :: lines ->
    (match parse_headers_lax (n_of_int (int_of_string mf)) (List.map bytes_of_hex lines) with
     | QOk hs -> "OK:" ^ hdrs_str hs
     | QErr e -> "ERR:" ^ err_name e)
  | ["TE"; h] -> b01 (is_chunked_te_resp (bytes_of_hex h))
  | _ -> "BADREQ"
let () = serve handle
