(* request:  RUN <limit> <op> <op> ...      (ops are ':'-separated tokens, bytes in hex, '-' = empty)
     producer: F:<hex> feed_data | B begin_http_chunk_receiving | E end_http_chunk_receiving | Z feed_eof
               X:<id> set_exception | Q:<hex> parser stub holds data | QE parser stub holds a chunk end
     consumer: r:<n> read(n) | a readany | u:<sephex>:<max> readuntil | x:<n> readexactly | c readchunk
               n:<n> read_nowait | U:<hex> unread_data | s:<n> set_read_chunk_size | R loop runs the reader
   answer: one field per op:  <obs>|<paused>|<at_eof>|<total_bytes>|<low>|<high>|<is_eof>|<task pending>
     obs: - | E:<exn> | B | NE | D:b:<hex> | D:c:<hex>:<0|1> | D:n | D:x:<exn>:<lost hex> | D:oom *)
let rec bits_of_pos = function XH -> [1] | XO p -> 0 :: bits_of_pos p | XI p -> 1 :: bits_of_pos p
let bin_of_pos p = String.concat "" (List.rev_map string_of_int (bits_of_pos p))
let str_z = function Z0 -> "0" | Zpos p -> "b" ^ bin_of_pos p | Zneg p -> "-b" ^ bin_of_pos p
let zi s = z_of_int (int_of_string s)
let parse_op tok =
  match String.split_on_char ':' tok with
  | ["F"; h] -> OFeed (bytes_of_hex h)
  | ["B"] -> OBegin | ["E"] -> OEnd | ["Z"] -> OEof
  | ["X"; e] -> OExc (n_of_int (int_of_string e))
  | ["Q"; h] -> OPend (PData (bytes_of_hex h))
  | ["QE"] -> OPend PEndC
  | ["R"] -> ORun
  | ["r"; n] -> OStart (CRead (zi n))
  | ["a"] -> OStart CReadAny
  | ["u"; sep; m] -> OStart (CReadUntil (bytes_of_hex sep, zi m))
  | ["x"; n] -> OStart (CReadExactly (zi n))
  | ["c"] -> OStart CReadChunk
  | ["n"; n] -> OStart (CReadNowait (zi n))
  | ["U"; h] -> OStart (CUnread (bytes_of_hex h))
  | ["s"; n] -> OStart (CSetChunkSize (zi n))
  | _ -> failwith ("bad op " ^ tok)
let str_exn = function
  | ExStream e -> "S" ^ string_of_int (int_of_n e)
  | ExLineTooLong -> "LTL"
  | ExIncomplete (p, e) -> "INC," ^ hex_of_bytes p ^ "," ^ str_z e
  | ExRuntime -> "RT" | ExAssertion -> "AS" | ExValue -> "VE" | ExIndex -> "IX" | ExFuel -> "FUEL"
let str_res = function
  | RBytes b -> "b:" ^ hex_of_bytes b
  | RChunk (b, e) -> "c:" ^ hex_of_bytes b ^ ":" ^ (if e then "1" else "0")
  | RNone -> "n"
  | RRaise (e, lost) -> "x:" ^ str_exn e ^ ":" ^ hex_of_bytes lost
  | ROutOfModel -> "oom"
let str_obs = function
  | ObNone -> "-" | ObErr e -> "E:" ^ str_exn e | ObBlocked -> "B" | ObDone r -> "D:" ^ str_res r
  | ObNotEnabled -> "NE"
let b01 b = if b then "1" else "0"
let handle line =
  match words line with
  | "RUN" :: limit :: toks ->
    let y = ref (init_sys (zi limit)) in
    let out = List.map (fun tok ->
      let (y1, ob) = step (parse_op tok) !y in
      y := y1;
      let s = sst y1 in
      String.concat "|" [str_obs ob; b01 (paused s); b01 (at_eof s); str_z (total s); str_z (low s); str_z (high s);
                         b01 (eof s); (match task y1 with None -> "0" | Some _ -> "1")]) toks in
    if out = [] then "-" else String.concat " " out
  | _ -> "BADREQ"
let () = serve handle
