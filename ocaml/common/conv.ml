(* Glue between OCaml ints/strings and the extracted Coq numerals (positive, n, z, nat stay the
   Coq inductives: ExtrOcamlBasic only).  Concatenated after model.ml, before driver.ml. *)
let rec pos_of_int i = if i <= 1 then XH else if i land 1 = 1 then XI (pos_of_int (i lsr 1)) else XO (pos_of_int (i lsr 1))
let n_of_int i = if i <= 0 then N0 else Npos (pos_of_int i)
let rec int_of_pos = function XH -> 1 | XO p -> 2 * int_of_pos p | XI p -> 2 * int_of_pos p + 1
let int_of_n = function N0 -> 0 | Npos p -> int_of_pos p
let z_of_int i = if i = 0 then Z0 else if i > 0 then Zpos (pos_of_int i) else Zneg (pos_of_int (- i))
let int_of_z = function Z0 -> 0 | Zpos p -> int_of_pos p | Zneg p -> - (int_of_pos p)
let nat_of_int i = let rec go acc k = if k <= 0 then acc else go (S acc) (k - 1) in go O i
let int_of_nat n = let rec go acc = function O -> acc | S m -> go (acc + 1) m in go 0 n
let byte_table = Array.init 256 n_of_int
let bytes_of_hex (s : string) : n list =
  if s = "-" then [] else begin
    let l = String.length s / 2 in
    let rec go i acc = if i < 0 then acc else
      go (i - 1) (byte_table.(int_of_string ("0x" ^ String.sub s (2 * i) 2)) :: acc) in
    go (l - 1) [] end
let hex_of_bytes (b : n list) : string =
  if b = [] then "-" else begin
    let buf = Buffer.create 64 in
    List.iter (fun x -> Buffer.add_string buf (Printf.sprintf "%02x" (int_of_n x land 255))) b;
    Buffer.contents buf end
(* code points / arbitrary naturals as comma separated decimals; "-" is the empty list *)
let ns_of_csv (s : string) : n list =
  if s = "-" then [] else List.map (fun t -> n_of_int (int_of_string t)) (String.split_on_char ',' s)
let csv_of_ns (l : n list) : string =
  if l = [] then "-" else String.concat "," (List.map (fun x -> string_of_int (int_of_n x)) l)
let words (line : string) : string list =
  List.filter (fun w -> w <> "") (String.split_on_char ' ' line)
let string_of_bool_01 b = if b then "1" else "0"
(* main loop helper: f maps one request line to one answer line *)
let serve (f : string -> string) : unit =
  (try
    while true do
      let line = input_line stdin in
      let ans = (try f line with e -> "EXN " ^ Printexc.to_string e) in
      print_string ans; print_char '\n'
    done
  with End_of_file -> ());
  flush stdout
