(* requests (space separated):
   RT <mask01> <compress> <notakeover01> <max_msg_size> <decode_text01> <cuts csv|-> <op> ...
        op = S:<opcode>:<override>:<rbits>:<payload hex>   |   C:<code>:<rbits>:<reason hex>
      -> W:<wire hex>;T:<outcome tags>;L:<wire payload lengths of the accepted ops>;M:<messages>;R:<LIVE|X:code|X:codec|FUEL>;
         V:<op_wf of every op 01..>;O:<safe_overrides01>;F:<all_fit01>;E:<expected messages | NONE>
      the reader is the peer's (compress iff compress<>0) and is fed the wire cut at the given segment lengths
   HDR <mask01> <rsv> <opcode> <len>      -> header hex
   TOYC <wbits> <full01> <hex> ...        -> compress+flush outputs on one context
   TOYD <hex> ...                         -> decompress results on one context (OK:<hex> | ERR)
   LTS <mask01> <compress> <notakeover01> <ev> ...   ev = A/<t> | K/<t>/<op> | W/<t> | R/<t> | P/<op>
      -> OK|REJ:<index of the first event that is not enabled>;W:<wire hex>;H:<none|idle|comp>;N:<#operations on the wire>
   FIFO <mask01> <compress> <notakeover01> <ev> ...  as LTS plus  E/<t>/<op> (send_frame called: lock requested)
      -> as LTS, plus ;Q:<waiters left>;C:<none|some>
   QUEUE <ev> ...   ev = F/<payload hex> | R | T | X      (feed_data of a binary message, read() called, read() returned, cancelled)
      -> OK|REJ:<i>;G:<returned payloads, comma separated hex>;B:<#buffered>;P:<reading01> *)
let b01 b = if b then "1" else "0"
let ev_str = function
  | MText b -> "T:" ^ hex_of_bytes b
  | MBinary b -> "B:" ^ hex_of_bytes b
  | MPing b -> "PI:" ^ hex_of_bytes b
  | MPong b -> "PO:" ^ hex_of_bytes b
  | MClose (c, r) -> "C:" ^ string_of_int (int_of_n c) ^ ":" ^ hex_of_bytes r
let evs_str l = if l = [] then "-" else String.concat "," (List.map ev_str l)
let err_str = function WsErr c -> string_of_int (int_of_n c) | CodecErr -> "codec"
let reader_str = function Live _ -> "LIVE" | Latched e -> "X:" ^ err_str e | Fuel -> "FUEL"
let tag_str = function TRefused -> "R" | TSent PPlain -> "P" | TSent PSync -> "S" | TSent PAsync -> "A" | TLayout -> "L"
let n_of_s s = n_of_int (int_of_string s)
let parse_op s =
  match String.split_on_char ':' s with
  | ["S"; op; ov; rb; p] -> Send (n_of_s op, bytes_of_hex p, n_of_s ov, n_of_s rb)
  | ["C"; code; rb; r] -> Close (n_of_s code, bytes_of_hex r, n_of_s rb)
  | _ -> failwith ("bad op " ^ s)
let handle line =
  match words line with
  | "RT" :: mk :: cmp :: ntk :: mx :: dt :: cuts :: ops ->
    let c = { w_mask = (mk = "1"); w_compress = n_of_s cmp; w_notakeover = (ntk = "1") } in
    let rc = peer_cfg c (n_of_s mx) (dt = "1") in
    let ops = List.map parse_op ops in
    let (w, (msgs, rd)) = toy_roundtrip c rc (ns_of_csv cuts) ops in
    String.concat ";" [
      "W:" ^ hex_of_bytes w.wo_wire;
      "T:" ^ String.concat "" (List.map tag_str w.wo_tags);
      "L:" ^ csv_of_ns (List.map snd w.wo_sent);
      "M:" ^ evs_str msgs;
      "R:" ^ reader_str rd;
      "V:" ^ String.concat "" (List.map (fun o -> b01 (op_wf rc o)) ops);
      "O:" ^ b01 (safe_overrides c ops);
      "F:" ^ b01 (all_fit rc w.wo_sent);
      "E:" ^ (match expect_all w.wo_sent with None -> "NONE" | Some l -> evs_str l) ]
  | "LTS" :: mk :: cmp :: ntk :: evs ->
    let c = { w_mask = (mk = "1"); w_compress = n_of_s cmp; w_notakeover = (ntk = "1") } in
    let parse_ev s =
      match String.split_on_char '/' s with
      | ["A"; t] -> EAcq (n_of_s t)
      | ["K"; t; o] -> EComp (n_of_s t, parse_op o)
      | ["W"; t] -> EWrite (n_of_s t)
      | ["R"; t] -> ERel (n_of_s t)
      | ["P"; o] -> EPlain (parse_op o)
      | _ -> failwith ("bad event " ^ s) in
    let (st, bad) = toy_crun_trace c (List.map parse_ev evs) in
    String.concat ";" [
      (match bad with None -> "OK" | Some i -> "REJ:" ^ string_of_int (int_of_n i));
      "W:" ^ hex_of_bytes st.c_wire;
      "H:" ^ (match st.c_lock with None -> "none" | Some (_, HIdle) -> "idle" | Some (_, HComp _) -> "comp");
      "N:" ^ string_of_int (List.length st.c_order) ]
  | "FIFO" :: mk :: cmp :: ntk :: evs ->
    let c = { w_mask = (mk = "1"); w_compress = n_of_s cmp; w_notakeover = (ntk = "1") } in
    let parse_ev s =
      match String.split_on_char '/' s with
      | ["E"; t; o] -> FEnq (n_of_s t, parse_op o)
      | ["A"; t] -> FEv (EAcq (n_of_s t))
      | ["K"; t; o] -> FEv (EComp (n_of_s t, parse_op o))
      | ["W"; t] -> FEv (EWrite (n_of_s t))
      | ["R"; t] -> FEv (ERel (n_of_s t))
      | ["P"; o] -> FEv (EPlain (parse_op o))
      | _ -> failwith ("bad event " ^ s) in
    let (st, bad) = toy_frun_trace c (List.map parse_ev evs) in
    String.concat ";" [
      (match bad with None -> "OK" | Some i -> "REJ:" ^ string_of_int (int_of_n i));
      "W:" ^ hex_of_bytes st.f_c.c_wire;
      "H:" ^ (match st.f_c.c_lock with None -> "none" | Some (_, HIdle) -> "idle" | Some (_, HComp _) -> "comp");
      "N:" ^ string_of_int (List.length st.f_c.c_order);
      "Q:" ^ string_of_int (List.length st.f_q);
      "C:" ^ (match st.f_cur with None -> "none" | Some _ -> "some") ]
  | "FLOW" :: lim :: evs ->
    (* FLOW <_limit> <F:size | P> ...  -> NONE | paused01;size;buffered *)
    let parse_ev s = match String.split_on_char ':' s with
      | ["F"; z] -> FlFeed (n_of_s z) | ["P"] -> FlPop | _ -> failwith ("bad event " ^ s) in
    (match flrun (n_of_s lim) flinit (List.map parse_ev evs) with
     | None -> "NONE"
     | Some st -> String.concat ";" [b01 st.fl_paused; string_of_int (int_of_n st.fl_size); string_of_int (List.length st.fl_buf)])
  | "QUEUE" :: evs ->
    let parse_ev s =
      match String.split_on_char '/' s with
      | ["F"; p] -> QFeed (MBinary (bytes_of_hex p))
      | ["R"] -> QRead | ["T"] -> QReturn | ["X"] -> QCancel
      | _ -> failwith ("bad event " ^ s) in
    let (st, bad) = qrun_trace qinit (List.map parse_ev evs) N0 in
    String.concat ";" [
      (match bad with None -> "OK" | Some i -> "REJ:" ^ string_of_int (int_of_n i));
      "G:" ^ (if st.q_got = [] then "-" else String.concat "," (List.map (function MBinary b -> hex_of_bytes b | _ -> "?") st.q_got));
      "B:" ^ string_of_int (List.length st.q_buf);
      "P:" ^ b01 st.q_reading ]
  | ["HDR"; mk; rsv; op; len] -> hex_of_bytes (encode_header (mk = "1") (n_of_s rsv) (n_of_s op) (n_of_s len))
  | "TOYC" :: wb :: full :: ms ->
    let cx = ref (toy_cinit (n_of_s wb)) in
    String.concat " " (List.map (fun m -> let (z, c') = toy_comp (full = "1") !cx (bytes_of_hex m) in cx := c'; hex_of_bytes z) ms)
  | "TOYD" :: zs ->
    let cx = ref N0 in
    let dead = ref false in
    String.concat " " (List.map (fun z ->
      if !dead then "DEAD" else
      match toy_decomp2 !cx (bytes_of_hex z) N0 with
      | DOk (o, c') -> cx := c'; "OK:" ^ hex_of_bytes o
      | _ -> dead := true; "ERR") zs)
  | _ -> "BADREQ"
let () = serve handle
