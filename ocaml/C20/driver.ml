(* requests:
   LIFE <R|A> <fails> <tree tokens...>    R = run_app, A = AppRunner
     fails: comma separated steps (en<c> ex<c> su<u> sd<u> cl<u> site) or "-"
     tree : "(" { c<id> | s<id> | d<id> | l<id> | tree } ")"
   answer: the event log, space separated; for R followed by FIN:<err|none> *)
let num s = n_of_int (int_of_string (String.sub s 1 (String.length s - 1)))
let num2 s = n_of_int (int_of_string (String.sub s 2 (String.length s - 2)))
let step_of_string s =
  if s = "site" then SSite else
  match String.sub s 0 2 with
  | "en" -> SEnter (num2 s) | "ex" -> SExit (num2 s) | "su" -> SStartup (num2 s)
  | "sd" -> SShutdown (num2 s) | "cl" -> SCleanup (num2 s)
  | _ -> failwith ("bad step " ^ s)
let rec parse_app toks =
  match toks with
  | "(" :: rest -> let (regs, rest') = parse_regs rest in (App regs, rest')
  | _ -> failwith "expected ("
and parse_regs toks =
  match toks with
  | ")" :: rest -> ([], rest)
  | "(" :: _ -> let (a, rest) = parse_app toks in let (rs, rest') = parse_regs rest in (RSub a :: rs, rest')
  | t :: rest ->
    let r = (match t.[0] with
      | 'c' -> RCtx (num t) | 's' -> RSu (num t) | 'd' -> RSd (num t) | 'l' -> RCl (num t)
      | _ -> failwith ("bad token " ^ t)) in
    let (rs, rest') = parse_regs rest in (r :: rs, rest')
  | [] -> failwith "unterminated tree"
let i n = string_of_int (int_of_n n)
let str_step = function
  | SEnter c -> "en" ^ i c | SExit c -> "ex" ^ i c | SStartup u -> "su" ^ i u
  | SShutdown u -> "sd" ^ i u | SCleanup u -> "cl" ^ i u | SSite -> "site"
let str_err = function ErrStep s -> str_step s | ErrMulti -> "multi" | ErrModel -> "MODEL"
let pm b = if b then "+" else "-"
let str_event = function
  | EEnter (c, b) -> "en" ^ i c ^ pm b | EExit (c, b) -> "ex" ^ i c ^ pm b
  | ESu (u, b) -> "su" ^ i u ^ pm b | ESd (u, b) -> "sd" ^ i u ^ pm b | ECl (u, b) -> "cl" ^ i u ^ pm b
  | ESite b -> "site" ^ pm b | EPre -> "pre" | ESrv -> "srv"
  | ESetupRaised e -> "SR:" ^ str_err e | ECleanupRaised e -> "CR:" ^ str_err e
let str_log l = if l = [] then "-" else String.concat " " (List.map str_event l)
(* SHUT <t> <s> <abs0> <phase>            -> closed=<ms|never> handler=<none|done@ms|cancel@ms|stuck>
   LATE <t> <s> <abs0> <phase> <delta>    -> 0|1
   RET  <t> <s> <abs0> <phase> ...        -> <ms>|never
   phase: idle | h<ms> | hinf | u<ms> | uinf | r<ms> ; all times in integral milliseconds *)
let zi s = z_of_int (int_of_string s)
let phase_of_string s =
  if s = "idle" then PIdle
  else if s = "hinf" then PHandling None
  else if s = "uinf" then PUpload None
  else let v = zi (String.sub s 1 (String.length s - 1)) in
    (match s.[0] with 'h' -> PHandling (Some v) | 'u' -> PUpload (Some v) | 'r' -> PReadLater v | _ -> failwith ("bad phase " ^ s))
let cfg_of t s a = { t_ms = zi t; s_ms = zi s; abs0 = zi a }
let zs z = string_of_int (int_of_z z)
let str_outcome o =
  "closed=" ^ (match o.closed_at with None -> "never" | Some a -> zs a) ^ " handler=" ^
  (match o.handler with HNone -> "none" | HCompleted a -> "done@" ^ zs a | HCancelled a -> "cancel@" ^ zs a | HStuck -> "stuck")
let handle line =
  match words line with
  | ["SHUT"; t; s; a; p] -> str_outcome (conn_outcome (cfg_of t s a) (phase_of_string p))
  | ["LATE"; t; s; a; p; d] -> string_of_bool_01 (late_accepted (cfg_of t s a) (phase_of_string p) (zi d))
  | "RET" :: t :: s :: a :: ps ->
    (match server_shutdown_returns (cfg_of t s a) (List.map phase_of_string ps) with None -> "never" | Some r -> zs r)
  | "LIFE" :: d :: fails :: tree ->
    let fl = if fails = "-" then [] else List.map step_of_string (String.split_on_char ',' fails) in
    let f s = List.mem s fl in
    let (a, rest) = parse_app tree in
    if rest <> [] then "BADREQ trailing tokens" else
    (match d with
     | "A" -> str_log (via_apprunner f a)
     | "R" -> let (l, fin) = via_run_app f a in
       str_log l ^ " FIN:" ^ (match fin with None -> "none" | Some e -> str_err e)
     | _ -> "BADREQ driver")
  | _ -> "BADREQ"
let () = serve handle
