(* requests:
   RUN <limit> <lph> <force_close 0|1> <H keys> <ev> <ev> ...
     events: S.t.k  R.t.order  C.t  O.t  F.t.order  L.t.cl.order  X     (order = k-k-k or _ )
     answer: one snapshot per event separated by " | "; a disabled event ends the answer with NONE@i
   AVAIL <limit> <lph> <nacq> <nhost>  -> integer *)
let order_of s = if s = "_" then [] else List.map (fun x -> n_of_int (int_of_string x)) (String.split_on_char '-' s)
let ev_of w =
  match String.split_on_char '.' w with
  | ["S"; t; k] -> EStart (n_of_int (int_of_string t), n_of_int (int_of_string k))
  | ["R"; t; o] -> EResume (n_of_int (int_of_string t), order_of o)
  | ["C"; t] -> ECancel (n_of_int (int_of_string t))
  | ["O"; t] -> ECreateOk (n_of_int (int_of_string t))
  | ["F"; t; o] -> ECreateFail (n_of_int (int_of_string t), order_of o)
  | ["L"; t; cl; o] -> ERelease (n_of_int (int_of_string t), cl = "1", order_of o)
  | ["X"] -> EClose
  | _ -> failwith ("bad event " ^ w)
let ints l = String.concat "," (List.map string_of_int l)
let slots l =
  let ph = List.length (List.filter (function SPh _ -> true | _ -> false) l) in
  let cs = List.sort compare (List.concat_map (function SConn c -> [int_of_n c] | _ -> []) l) in
  "P" ^ string_of_int ph ^ (if cs = [] then "" else "," ^ ints cs)
let fst3 = function FPending -> "p" | FWoken -> "w" | FCancelled -> "c" | FWokenCancel -> "wc"
let pc_s = function
  | PIdle -> "idle" | PWaiting (k, f) -> "wait" ^ string_of_int (int_of_n k) ^ fst3 f
  | PCreating k -> "creating" ^ string_of_int (int_of_n k)
  | PHolding (k, c) -> "hold" ^ string_of_int (int_of_n k) ^ "c" ^ string_of_int (int_of_n c)
  | PDone -> "done" | PFailed -> "failed" | PCancelled -> "cancelled"
let snapshot cfg hk s =
  let keys = List.init hk (fun i -> i) in
  let host = String.concat ";" (List.concat_map (fun k ->
      let l = List.filter_map (fun (sl, k') -> if int_of_n k' = k then Some sl else None) s.hostacq in
      if l = [] then [] else [string_of_int k ^ ":" ^ slots l]) keys) in
  let idle = String.concat ";" (List.concat_map (fun k ->
      let l = List.filter_map (fun (c, k') -> if int_of_n k' = k then Some (int_of_n c) else None) s.idle in
      if l = [] then [] else [string_of_int k ^ ":" ^ ints l]) keys) in
  let wait = String.concat ";" (List.concat_map (fun k ->
      let l = List.filter (fun ((_, k'), _) -> int_of_n k' = k) s.waiters in
      if l = [] then [] else [string_of_int k ^ ":" ^ String.concat "," (List.map (fun ((t, _), c) -> string_of_int (int_of_n t) ^ (if c then "x" else "")) l)]) keys) in
  let woken = ints (List.sort compare (List.map int_of_n s.woken)) in
  let tasks = List.sort_uniq compare (List.map (fun (t, _) -> int_of_n t) s.pcs) in
  let pcs = String.concat "," (List.map (fun t -> string_of_int t ^ "=" ^ pc_s (get_pc s.pcs (n_of_int t))) tasks) in
  let av = String.concat "," (List.map (fun k -> string_of_int (int_of_z (avail cfg s (n_of_int k)))) keys) in
  Printf.sprintf "acq=%s host=%s idle=%s wait=%s woken=%s closed=%d nconn=%d closedc=%s avail=%s pcs=%s"
    (slots s.acquired) host idle wait woken (if s.closed then 1 else 0) (int_of_n s.nconn)
    (ints (List.sort compare (List.map int_of_n s.closedc))) av pcs
let handle line =
  match words line with
  | "RUN" :: l :: lh :: fc :: hk :: evs ->
    let cfg = { limit = z_of_int (int_of_string l); lph = z_of_int (int_of_string lh); force_close = (fc = "1") } in
    let hk = int_of_string hk in
    let rec go s i acc = function
      | [] -> String.concat " | " (List.rev acc)
      | w :: r ->
        (match step cfg s (ev_of w) with
         | None -> String.concat " | " (List.rev (("NONE@" ^ string_of_int i) :: acc))
         | Some s' -> go s' (i + 1) (snapshot cfg hk s' :: acc) r) in
    go init 0 [] evs
  | ["AVAIL"; l; lh; a; h] ->
    string_of_int (int_of_z (available_connections (z_of_int (int_of_string l)) (z_of_int (int_of_string lh)) (z_of_int (int_of_string a)) (z_of_int (int_of_string h))))
  | _ -> "BADREQ"
let () = serve handle
