(* C15 driver.  One request per line, tokens separated by spaces.
   strings: comma separated code points ("-" empty), "NONE" = absent header; bytes: hex ("-" empty)
   ints: decimal; paths: segments (csv) joined by "/", "/" alone = root of the file system.
   HR <hdr|NONE>                          -> OK <s|N> <e|N> | VE
   RANGE <size> <gate01> <hdr|NONE>       -> D200 n | D206 st cnt crhex | D416 crhex
   RESP <head01> <chunk> <contenthex> <mtime> <etag> <ifmatch> <unmod> <ifnone> <modsince> <ifrange> <range>
        etag lists: NONE | E<w01>:<csv>;<w01>:<csv>...   ints: NONE | decimal
                                          -> <status> <len|N> <crhex|N> <bodyhex|FUEL>
   FS <path>:<F|D|L|S>:<data> ...         -> OK <n>     (replaces the current file system)
   GET <root> <follow01> <show01> <accept> <filename>     -> 404 | 403 | 500 | FUEL | LIST <path> <names> | FILE <path> <enc|-> <hex>
   SERVE <prefix> <root> <follow01> <show01> <accept> <path_safe> -> same
   RESOLVE <path> -> OK <path> | LOOP | NUL | FUEL
   NORM <s> -> <s>      SRES <prefix> <path_safe> -> NONE | SOME <s>     PARSE <s> -> <abs01> <path> *)
let cur_fs : (n list list * node) list ref = ref []

let opt_str s = if s = "NONE" then None else Some (ns_of_csv s)
let opt_int s = if s = "NONE" then None else Some (z_of_int (int_of_string s))
let b01 s = (s = "1")
let path_of s = if s = "/" then [] else List.map ns_of_csv (String.split_on_char '/' s)
let str_of_path p = if p = [] then "/" else String.concat "/" (List.map csv_of_ns p)
let etags_of s =
  if s = "NONE" then None else begin
    let body = String.sub s 1 (String.length s - 1) in
    if body = "" then Some [] else
      Some (List.map (fun it ->
        match String.index_opt it ':' with
        | Some i -> { et_weak = (String.sub it 0 i = "1"); et_value = ns_of_csv (String.sub it (i + 1) (String.length it - i - 1)) }
        | None -> failwith "etag") (String.split_on_char ';' body))
  end
(* exact decimal printing of arbitrarily large Z through the model's own printer *)
let zstr z = String.concat "" (List.map (fun c -> String.make 1 (Char.chr (int_of_n c))) (dec_of_Z z))
let zs = function None -> "N" | Some z -> zstr z
let entry tok =
  match String.split_on_char ':' tok with
  | [p; "F"; d] -> (path_of p, NFile (bytes_of_hex d))
  | [p; "D"; _] -> (path_of p, NDir)
  | [p; "L"; d] -> (path_of p, NLink (ns_of_csv d))
  | [p; "S"; _] -> (path_of p, NSpecial)
  | _ -> failwith ("bad fs entry " ^ tok)
let show_sresp = function
  | S404 -> "404" | S403 -> "403" | S500 -> "500" | SFuel -> "FUEL"
  | SListing (p, names) -> "LIST " ^ str_of_path p ^ " " ^ (if names = [] then "-" else String.concat "/" (List.map csv_of_ns names))
  | SFile (p, enc, c) -> "FILE " ^ str_of_path p ^ " " ^ (match enc with None -> "-" | Some e -> csv_of_ns e) ^ " " ^ hex_of_bytes c
let handle line =
  match words line with
  | ["HR"; h] ->
    (match http_range (opt_str h) with
     | HR_ok (s, e) -> "OK " ^ zs s ^ " " ^ zs e
     | HR_ValueError -> "VE")
  | ["RANGE"; sz; gate; h] ->
    (match range_decision (z_of_int (int_of_string sz)) (b01 gate) (opt_str h) with
     | D200 n -> "D200 " ^ zstr n
     | D206 (st, cnt, cr) -> Printf.sprintf "D206 %s %s %s" (zstr st) (zstr cnt) (hex_of_bytes cr)
     | D416 cr -> "D416 " ^ hex_of_bytes cr)
  | ["RESP"; head; chunk; content; mtime; etag; ifm; unm; ifn; ms; ifr; rng] ->
    let r = file_response (b01 head) (z_of_int (int_of_string chunk)) (bytes_of_hex content) (z_of_int (int_of_string mtime))
        (ns_of_csv etag) (etags_of ifm) (opt_int unm) (etags_of ifn) (opt_int ms) (opt_int ifr) (opt_str rng) in
    Printf.sprintf "%d %s %s %s" (int_of_n r.r_status) (zs r.r_length)
      (match r.r_range with None -> "N" | Some c -> hex_of_bytes c)
      (match r.r_body with None -> "FUEL" | Some b -> hex_of_bytes b)
  | "FS" :: entries -> cur_fs := List.map entry entries; "OK " ^ string_of_int (List.length !cur_fs)
  | ["GET"; root; follow; show; accept; fn] ->
    show_sresp (handle !cur_fs (path_of root) (b01 follow) (b01 show) (ns_of_csv accept) (ns_of_csv fn))
  | ["SERVE"; prefix; root; follow; show; accept; ps] ->
    show_sresp (serve_path !cur_fs (ns_of_csv prefix) (path_of root) (b01 follow) (b01 show) (ns_of_csv accept) (ns_of_csv ps))
  | ["RESOLVE"; p] ->
    (match resolve !cur_fs (path_of p) with
     | RP_ok q -> "OK " ^ str_of_path q | RP_loop -> "LOOP" | RP_nul -> "NUL" | RP_fuel -> "FUEL" | RP_partial _ -> "PARTIAL")
  | ["NORM"; s] -> csv_of_ns (py_normpath (ns_of_csv s))
  | ["SRES"; prefix; ps] ->
    (match static_resolve (ns_of_csv prefix) (ns_of_csv ps) with None -> "NONE" | Some s -> "SOME " ^ csv_of_ns s)
  | ["PARSE"; s] -> let (a, p) = parse_posix (ns_of_csv s) in (if a then "1 " else "0 ") ^ str_of_path p
  | _ -> "BADREQ"
let () = serve handle
