(* C14 driver.  One request per line, fields separated by spaces; strings are comma separated
   code points ("-" = empty).
   TABLE <ops> { ; Q <host|~> <path_safe> <method> | ; IDX }*
        ops in prefix form:  R <method> <path> <hid> | S <prefix> <hid> | SUB <prefix> <n> <n ops> | DOM <domain> <n> <n ops>
        -> answers joined by " ; " :  BUILD ok|EValue|ERuntime|EAssert|EKey ; IX=<res> RULE=<res> ; <json index dump>
           res = OK <hid> k=v&k=v | 404 | 405 m|m | BROKEN
   TMPL <template> { ; M <path> | ; F k v k v ... }*  -> ERR | OK <formatter> <index key> ; NONE | k=v&... ; NONE | <url>
   QUOTE <s> -> <quote|ERR> <requote|ERR> <unquote_path_safe> <path_safe>
   NORM <s> -> normpath     ANC <s> -> ancestors joined by |
   MW <append 0/1> <remove 0/1> <merge 0/1> <path> <dec_slash 0/1> -> candidates joined by | *)
let s_of = csv_of_ns
let rec take n l = if n = 0 then ([], l) else match l with [] -> failwith "short" | x :: r -> let (a, b) = take (n - 1) r in (x :: a, b)
let rec parse_op toks =
  match toks with
  | "R" :: m :: p :: h :: r -> (ORoute (ns_of_csv m, ns_of_csv p, n_of_int (int_of_string h)), r)
  | "S" :: p :: h :: r -> (OStatic (ns_of_csv p, n_of_int (int_of_string h)), r)
  | "SUB" :: p :: n :: r -> let (ops, r') = parse_ops (int_of_string n) r in (OSub (ns_of_csv p, ops), r')
  | "DOM" :: d :: n :: r -> let (ops, r') = parse_ops (int_of_string n) r in (ODom (ns_of_csv d, ops), r')
  | _ -> failwith "bad op"
and parse_ops n toks =
  if n = 0 then ([], toks) else
    let (o, r) = parse_op toks in let (os, r') = parse_ops (n - 1) r in (o :: os, r')
let rec parse_all toks = match toks with [] -> [] | _ -> let (o, r) = parse_op toks in o :: parse_all r
let dict_s d = if d = [] then "-" else String.concat "&" (List.map (fun (k, v) -> s_of k ^ "=" ^ s_of v) d)
let res_s = function
  | Found (h, mi) -> "OK " ^ string_of_int (int_of_n h) ^ " " ^ dict_s mi
  | NotFound -> "404"
  | NotAllowed l -> "405 " ^ String.concat "|" (List.map s_of l)
  | Broken -> "BROKEN"
let err_s = function EValue -> "EValue" | ERuntime -> "ERuntime" | EAssert -> "EAssert" | EKey -> "EKey"
let rec dump rs ix =
  let ent = List.filter (fun (_, l) -> l <> []) ix in
  let ixs = String.concat "," (List.map (fun (k, l) ->
      "\"" ^ s_of k ^ "\":[" ^ String.concat "," (List.map (fun i -> string_of_int (int_of_nat i)) l) ^ "]") ent) in
  let subs = List.concat (List.mapi (fun i r -> match r with
      | RSub (_, rs', ix') | RDom (_, rs', ix') -> ["\"" ^ string_of_int i ^ "\":" ^ dump rs' ix']
      | _ -> []) rs) in
  let canon = String.concat "," (List.map (fun r -> "\"" ^ s_of (canonical r) ^ "\"") rs) in
  "{\"ix\":{" ^ ixs ^ "},\"sub\":{" ^ String.concat "," subs ^ "},\"canon\":[" ^ canon ^ "]}"
let split_semis toks =
  let rec go cur acc = function
    | [] -> List.rev (List.rev cur :: acc)
    | ";" :: r -> go [] (List.rev cur :: acc) r
    | x :: r -> go (x :: cur) acc r in
  go [] [] toks
let rec pairs = function k :: v :: r -> (ns_of_csv k, ns_of_csv v) :: pairs r | _ -> []
let join_bar l = String.concat "|" (List.map s_of l)
let b01 s = s = "1"
let handle line =
  match split_semis (words line) with
  | ("TABLE" :: optoks) :: qs ->
    (match build_app (parse_all optoks) with
     | BErr e -> "BUILD " ^ err_s e
     | BOk rt ->
       String.concat " ; " ("BUILD ok" :: List.map (fun q -> match q with
         | ["Q"; h; p; m] ->
           let host = if h = "~" then None else Some (ns_of_csv h) in
           "IX=" ^ res_s (resolve_ix rt host (ns_of_csv p) (ns_of_csv m)) ^ " RULE=" ^ res_s (resolve_rule rt host (ns_of_csv p) (ns_of_csv m))
         | ["IDX"] -> dump rt.r_res rt.r_ix
         | _ -> "BADQ") qs))
  | ["TMPL"; t] :: qs ->
    (match parse_template (ns_of_csv t) with
     | None -> "ERR"
     | Some its ->
       let f = formatter_of its in
       String.concat " ; " (("OK " ^ s_of f ^ " " ^ s_of (index_key_of f)) :: List.map (fun q -> match q with
         | ["M"; p] -> (match match_items its (ns_of_csv p) with None -> "NONE" | Some d -> dict_s (unquote_dict d))
         | "F" :: kv -> (match format_items its (pairs kv) with None -> "NONE" | Some u -> s_of u)
         | _ -> "BADQ") qs))
  | [["QUOTE"; s]] ->
    let v = ns_of_csv s in
    (match quote_path v with None -> "ERR" | Some q -> s_of q) ^ " " ^
    (match requote_path v with None -> "ERR" | Some q -> s_of q) ^ " " ^ s_of (unquote_path_safe v) ^ " " ^ s_of (path_safe_dec v)
  | [["NORM"; s]] -> s_of (normpath (ns_of_csv s))
  | [["ANC"; s]] -> join_bar (ancestors (ns_of_csv s))
  | [["MW"; a; r; m; p; d]] -> join_bar (redirect_candidates (b01 a) (b01 r) (b01 m) (ns_of_csv p) (b01 d))
  | _ -> "BADREQ"
let () = serve handle
