(* requests (space separated; strings are comma-separated code points, "-" = empty):
   SER <status_line> <k1> <v1> <k2> <v2> ...   -> NONE | SOME <hex>
   REASON <s> -> 0|1      METHOD <s> -> 0|1     SAFE <s> -> 0|1 *)
let rec pairs = function
  | k :: v :: r -> (ns_of_csv k, ns_of_csv v) :: pairs r
  | _ -> []
let handle line =
  match words line with
  | "SER" :: sl :: rest ->
    (match serialize_headers (ns_of_csv sl) (pairs rest) with
     | None -> "NONE" | Some b -> "SOME " ^ hex_of_bytes b)
  | ["REASON"; s] -> string_of_bool_01 (reason_ok (ns_of_csv s))
  | ["METHOD"; s] -> string_of_bool_01 (method_ok (ns_of_csv s))
  | ["SAFE"; s] -> string_of_bool_01 (safe_header (ns_of_csv s))
  | "WRUN" :: ops ->
    let op_of t = match String.split_on_char ':' t with
      | ["H"; h] -> WHeaders (bytes_of_hex h) | ["S"] -> WSendHeaders | ["W"; h] -> WWrite (bytes_of_hex h)
      | ["E"; h] -> WEof (bytes_of_hex h) | ["X"] -> WSetEof | ["C"] -> WEnableChunking
      | ["L"; "none"] -> WSetLength None | ["L"; n] -> WSetLength (Some (n_of_int (int_of_string n)))
      | _ -> failwith "op" in
    let (s, out) = wrun winit (List.map op_of ops) in
    Printf.sprintf "%s %s%s%s %s" (hex_of_bytes out) (string_of_bool_01 s.w_chunked) (string_of_bool_01 s.w_hwritten)
      (string_of_bool_01 s.w_eof) (match s.w_length with None -> "none" | Some n -> string_of_int (int_of_n n))
  | _ -> "BADREQ"
let () = serve handle
