(* requests (space separated):
   RUN <limit> <lax> <maxline> <maxfield> <maxtrailers> <flow> <L|C|E> <len> <enc> <fuel> <ev>...
       ev: D<hex> data | X close | A readany | R<n> read(n) | S<n> set_read_chunk_size(n)
       -> one token per event:  <obs>/<tpaused><rpaused><payload parser open><eof><has_more>.<rsize>.<low>
          obs: - nothing | s skipped | b blocked | d<hex> | e<kind>
   HS <mode> <hex>:<maxlen> ...   ZLibDecompressor calls -> per call  <hex>/<avail><eof>  | ERR | FUEL
   GATE <7 bits>                  dg_srv_closing_feeds nonempty has_req at_eof has_tr has_parser custom_pp upgraded -> 0|1
   RR <cms> <hex> <hex> ...       BaseRequest.read loop over readany() results -> TOOLARGE.<peak> | OK.<len>.<peak> *)
let kind = function
  | EContentEncoding -> "ContentEncoding" | ETransferEncoding -> "TransferEncoding" | ELineTooLong -> "LineTooLong"
  | EContentLength -> "ContentLength" | EBadMessage -> "BadMessage" | EAssertion -> "Assertion"
  | ECodecFlush -> "CodecFlush" | EConnClosed -> "ConnClosed" | EOutOfModel -> "OutOfModel" | EFuel -> "FUEL"
let b01 b = if b then "1" else "0"
let num s = n_of_int (int_of_string s)
let tail1 s = String.sub s 1 (String.length s - 1)
let ev_of tok =
  match tok.[0] with
  | 'D' -> EvData (bytes_of_hex (tail1 tok))
  | 'X' -> EvClose
  | 'A' -> EvOp OpReadAny
  | 'R' -> EvOp (OpRead (num (tail1 tok)))
  | 'S' -> EvOp (OpSetChunk (num (tail1 tok)))
  | _ -> failwith "bad event"
let obs_str = function
  | ONone -> "-" | OSkipped -> "s"
  | ORes RBlocked -> "b"
  | ORes (RData d) -> "d" ^ hex_of_bytes d
  | ORes (RErr e) -> "e" ^ kind e
let snap y =
  let s = core y in
  let p = pr s and r = re s in
  Printf.sprintf "%s%s%s%s%s.%d.%d" (b01 (tpaused p)) (b01 (rpaused p)) (b01 (pp_present p && parser_alive p)) (b01 (reof r)) (b01 (has_more p && parser_alive p))
    (int_of_n (rsize r)) (int_of_n (low r))
let handle line =
  match words line with
  | "RUN" :: limit :: lax :: maxline :: maxfield :: maxtr :: flow :: pt :: len :: enc :: fuel :: evs ->
    let t = (match pt with "L" -> PLength | "C" -> PChunked | _ -> PUntilEof) in
    let y0 = toy_init (num limit) (lax = "1") (num maxline) (num maxfield) (num maxtr) (flow = "1") t (num len) (num enc) in
    let fu = nat_of_int (int_of_string fuel) in
    let _, out = List.fold_left (fun (y, acc) tok ->
        let (y1, o) = toy_step fu y (ev_of tok) in
        (y1, (obs_str o ^ "/" ^ snap y1) :: acc)) (y0, []) evs in
    String.concat " " (List.rev out)
  | "HS" :: mode :: calls ->
    let z0 = toy_hnew (num mode) in
    let rec go z = function
      | [] -> []
      | c :: rest ->
        (match String.split_on_char ':' c with
         | [h; ml] ->
           (match toy_hstep z (bytes_of_hex h) (num ml) with
            | None -> ["ERR"]
            | Some None -> ["FUEL"]
            | Some (Some (z1, out)) -> (hex_of_bytes out ^ "/" ^ b01 (toy_havail z1) ^ b01 (zh_eof tm_eof z1) ^ b01 (z_mid z1) ^ b01 (toy_heof z1)) :: go z1 rest)
         | _ -> ["BADCALL"]) in
    String.concat " " (go z0 calls)
  | "RR" :: cms :: chunks ->
    (match request_read (num cms) (List.map bytes_of_hex chunks) [] N0 with
     | (None, peak) -> "TOOLARGE." ^ string_of_int (int_of_n peak)
     | (Some b, peak) -> Printf.sprintf "OK.%d.%d" (List.length b) (int_of_n peak))
  | ["GATE"; bits] when String.length bits = 7 ->
    let b i = bits.[i] = '1' in
    b01 (dg_srv_closing_feeds (b 0) (b 1) (b 2) (b 3) (b 4) (b 5) (b 6))
  | _ -> "BADREQ"
let () = serve handle
