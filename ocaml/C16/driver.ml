(* C16 driver.  Strings are hex ("-" = empty); fields of one op are separated by ':' , morsels by '+',
   morsel fields by '/'.
     (instants -- t0, T:<dt>, expires v<int> -- are in ticks of 1/8 s; maxage v<int> is in seconds)
     H <unsafe01> <t0> <op> <op> ...      -> one answer per OFilter, joined by '|':
                                              J=<n~v,n~v,...>;R=<n~v,...>   (jar dict / RFC reference set, sorted)
     HD <unsafe01> <t0> <op> ...           -> same, followed by " # " and a dump of the final jar
   ops:  S:<sec01>:<host>:<urlpath>:<m>+<m>...    m = name/value/domain/path/sec01/maxage/expires
                                                   maxage, expires = n | x | v<int>
         T:<dt>   C   D:<domain>   L   F:<sec01>:<host>:<path>
     DM <d> <h> -> jar _is_domain_match d h, rfc domain-match      PM <c> <r> -> rfc path-match
     IP <h>   SUF <h>   PRE <p>   DEF <p>   RS <p> *)
let split c s = String.split_on_char c s
let b01 s = (s = "1")
let exp_of s = if s = "n" then None else if s = "x" then Some None
  else Some (Some (z_of_int (int_of_string (String.sub s 1 (String.length s - 1)))))
let morsel_of s =
  match split '/' s with
  | [n; v; d; p; sec; ma; ex] ->
    { m_name = bytes_of_hex n; m_value = bytes_of_hex v; m_domain = bytes_of_hex d; m_path = bytes_of_hex p;
      m_secure = b01 sec;
      m_maxage = (match exp_of ma with None -> MA_none | Some None -> MA_invalid | Some (Some z) -> MA_val z);
      m_expires = (match exp_of ex with None -> EX_none | Some None -> EX_invalid | Some (Some z) -> EX_val z) }
  | _ -> failwith ("bad morsel " ^ s)
let url_of sec h p = { u_secure = b01 sec; u_host = bytes_of_hex h; u_path = bytes_of_hex p }
let op_of w =
  match split ':' w with
  | ["S"; sec; h; p; ms] -> OSet (url_of sec h p, List.map morsel_of (split '+' ms))
  | ["T"; dt] -> OAdvance (n_of_int (int_of_string dt))
  | ["C"] -> OClear
  | ["D"; d] -> OClearDomain (bytes_of_hex d)
  | ["L"] -> OSaveLoad
  | ["F"; sec; h; p] -> OFilter (url_of sec h p)
  | _ -> failwith ("bad op " ^ w)
let pairs l =
  let l = List.sort_uniq compare (List.map (fun (n, v) -> hex_of_bytes n ^ "~" ^ hex_of_bytes v) l) in
  if l = [] then "-" else String.concat "," l
let string_of_z z = string_of_int (int_of_z z)
let key_s ((d, p), n) = hex_of_bytes d ^ ":" ^ hex_of_bytes p ^ ":" ^ hex_of_bytes n
let dump j =
  let c = List.sort compare (List.map (fun (k, c) -> key_s k ^ "=" ^ hex_of_bytes c.c_value ^ "/" ^ hex_of_bytes c.c_path ^ "/" ^ string_of_bool_01 c.c_secure) j.j_cookies) in
  let h = List.sort compare (List.map (fun (d, n) -> hex_of_bytes d ^ ":" ^ hex_of_bytes n) j.j_host_only) in
  let e = List.sort compare (List.map (fun (k, w) -> key_s k ^ "@" ^ string_of_z w) j.j_expirations) in
  "cookies=" ^ String.concat "," c ^ " host_only=" ^ String.concat "," h ^ " deadlines=" ^ String.concat "," e
  ^ " heap=" ^ string_of_int (List.length j.j_heap)
let history dumpit unsafe t0 ops =
  let ops = List.map op_of ops in
  let t0 = z_of_int (int_of_string t0) in
  let ((j, _), outs) = run (empty_jar (b01 unsafe), t0) ops in
  let (_, routs) = rfc_run (b01 unsafe) ([], t0) ops in
  let ans = List.map2 (fun a b -> "J=" ^ pairs a ^ ";R=" ^ pairs b) outs routs in
  (if ans = [] then "-" else String.concat "|" ans) ^ (if dumpit then " # " ^ dump j else "")
let strs l = if l = [] then "<none>" else String.concat "," (List.map hex_of_bytes l)
let handle line =
  match words line with
  | "H" :: unsafe :: t0 :: ops -> history false unsafe t0 ops
  | "HD" :: unsafe :: t0 :: ops -> history true unsafe t0 ops
  | ["DM"; d; h] -> string_of_bool_01 (is_domain_match (bytes_of_hex d) (bytes_of_hex h)) ^ " "
                    ^ string_of_bool_01 (rfc_domain_match (bytes_of_hex d) (bytes_of_hex h))
  | ["PM"; c; r] -> string_of_bool_01 (rfc_path_match (bytes_of_hex c) (bytes_of_hex r))
  | ["IP"; h] -> string_of_bool_01 (is_ip (bytes_of_hex h))
  | ["SUF"; h] -> strs (dot_suffixes (bytes_of_hex h))
  | ["PRE"; p] -> strs (path_prefixes (bytes_of_hex p))
  | ["DEF"; p] -> hex_of_bytes (default_path (bytes_of_hex p))
  | ["RS"; p] -> hex_of_bytes (rstrip (n_of_int 47) (bytes_of_hex p))
  | _ -> "BADREQ"
let () = serve handle
