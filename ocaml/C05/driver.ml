(* requests:
   RUN <keepalive> <linger> <tok> <tok> ...
     tokens:  D<items>   items: h<c><b> (head, close 0|1, body-open 0|1) | e (body end) | x (error) | X (error that stays in the tail), joined by ','  ; "D-" = no item
              S          handler starts a streamed response
              F<o>       handler ends: r<keep><status> | s | h<status> | e | t | c | w
              R          body read -> data_received(b"")       W   lingering readany() returned
              T<dt>      clock
              P          peer closes
              |          snapshot
     answer: snapshots separated by " | "; a disabled event ends the answer with NONE@<index of token>
   CONSTS -> "max=<n> resume=<n>" *)
let item_of w =
  if w = "e" then IBodyEnd else if w = "x" then IBad false else if w = "X" then IBad true
  else if String.length w = 3 && w.[0] = 'h' then IHead (w.[1] = '1', w.[2] = '1')
  else failwith ("bad item " ^ w)
let num s = n_of_int (int_of_string s)
let outcome_of w =
  match w.[0] with
  | 'r' -> ORet (w.[1] = '1', num (String.sub w 2 (String.length w - 2)))
  | 's' -> OStreamed
  | 'h' -> OHttp (num (String.sub w 1 (String.length w - 1)))
  | 'e' -> OExc | 't' -> OTimeout | 'c' -> OCancel | 'w' -> OSwallow
  | _ -> failwith ("bad outcome " ^ w)
let ev_of w =
  let rest = String.sub w 1 (String.length w - 1) in
  match w.[0] with
  | 'D' -> EData (if rest = "-" then [] else List.map item_of (String.split_on_char ',' rest))
  | 'S' -> EStart
  | 'F' -> EDone (outcome_of rest)
  | 'R' -> EReparse
  | 'W' -> EWake
  | 'T' -> ETick (num rest)
  | 'P' -> EPeerClose
  | _ -> failwith ("bad event " ^ w)
let b01 b = if b then "1" else "0"
let idstr = function None -> "-" | Some n -> string_of_int (int_of_n n)
let pc_s = function
  | PWait -> "wait"
  | PHandler (c, st) -> "handler" ^ (match c with QMsg m -> string_of_int (int_of_n m.m_id) | QErr -> "E") ^ (if st then "s" else "")
  | PLinger (m, u) -> "linger" ^ string_of_int (int_of_n m.m_id)
  | PExit -> "exit"
let snapshot s =
  let w = wire s in
  Printf.sprintf "q=%d msgs=%d infl=%d paused=%s closed=%s force=%s ka=%s pc=%s out=%s"
    (List.length s.q) (int_of_n (nmsgs s.q)) (int_of_n s.ps.p_infl) (b01 s.paused) (b01 s.closed) (b01 s.forcef) (b01 s.ka) (pc_s s.pc)
    (if w = [] then "-" else String.concat "," (List.map (fun r -> idstr r.r_id ^ ":" ^ string_of_int (int_of_n r.r_status) ^ ":" ^ b01 r.r_done) w))
let handle line =
  match words line with
  | "RUN" :: k :: l :: toks ->
    let cfg = { c_keepalive = num k; c_linger = num l } in
    let rec go s i acc = function
      | [] -> String.concat " | " (List.rev acc)
      | "|" :: r -> go s (i + 1) (snapshot s :: acc) r
      | w :: r ->
        (match step cfg s (ev_of w) with
         | None -> String.concat " | " (List.rev (("NONE@" ^ string_of_int i) :: acc))
         | Some s' -> go s' (i + 1) acc r) in
    go init 0 [] toks
  | ["CONSTS"] -> Printf.sprintf "max=%d resume=%d" (int_of_n maxq) (int_of_n resume_mark)
  | _ -> "BADREQ"
let () = serve handle
