"""C15 — static file serving stays inside its root and serves exact bytes.

Suites (model = extracted Coq model bin/modelrun_C15, implementation = the real aiohttp static route
served in-process through an in-memory transport on a temp directory under /tmp):
  http_range      BaseRequest.http_range        vs Model http_range            (function correspondence)
  pathfuncs       os.path.normpath / pathlib parsing / StaticResource.resolve / Path.resolve vs model
  range_response  GET/HEAD with Range, If-Range and conditional headers on files of size 0,1,2,10,300
                  vs Model file_response; independent RFC oracle on the implementation's answer
  traversal       traversal-grammar targets x (follow, show_index) x Accept-Encoding on a tree with
                  files inside, outside and linked across the root vs Model serve_path; independent
                  location oracle (every file's content names its real location)
"""
from __future__ import annotations

import asyncio
import concurrent.futures
import email.utils
import glob
import html
import json
import os
import posixpath
import re
import shutil
import socket
import tempfile
import urllib.parse

from harness.common import framework as fw

PROP = "C15"
GENERATED = ["StaticGen.v"]
RULE = ("range suites: every (start, end) pair over the boundary values of each file size (0,1,2,10,300) plus suffix, "
        "open-ended and malformed spellings, x GET/HEAD, x conditional-header combinations drawn from a fixed menu with "
        "known semantics (PRNG seeded by VERIF_SEED for the combinations); traversal suite: targets generated from a "
        "segment grammar (names in the tree, dot segments, percent-encoded dots/separators/NUL, backslashes, repeated "
        "slashes, absolute/drive/UNC forms, prefix tricks) x 4 (follow, show_index) routes x Accept-Encoding.  "
        "Non-trivial = the route answered 200/206 with content or a listing; distinct by hash of (request, observable).")
TRUSTED = [
    "translator/gen_static.py (Range pattern via re._parser, integer formulas and comparisons of http_range/_prepare_open_file, "
    "f-string pieces, status codes, ENCODING_EXTENSIONS, ast shape checks of _sendfile_fallback, _handle, _resolve_path_to_response, resolve)",
    "extraction: ExtrOcamlBasic only; ocaml/common/conv.ml + ocaml/C15/driver.ml (decimal/hex I/O)",
    "correspondence harness harness/c15.py: sampled, not proved",
    "oracles assumed, validated only on the generated cases: yarl (request target -> path_safe), CPython os.path/pathlib/os.lstat and the "
    "kernel's path resolution (modelled by Model/Static.v kwalk/joinreal), aiohttp's own ETag/HTTP-date header parsers, "
    "CPython int() digit limit 4300, mimetypes.encodings_map",
    "the loop.sendfile()/aiofastnet path is not exercised (NOSENDFILE forced harness-side; offset/count passed to it are the modelled ones)",
    "POSIX only (IS_WINDOWS False); permissions (PermissionError -> 403) and races between stat and open are outside the model",
]
ASSUMPTIONS = [
    "AIOHTTP_NO_EXTENSIONS=1; CPython 3.12 semantics of Path.resolve (RuntimeError on symlink loops).",
    "The configured root is a real directory at its physical location (what StaticResource.__init__ establishes) and the tree does not change during a request.",
    "Model/implementation agreement is validated on the generated cases only.",
]

PREFIXES = {(0, 0): "/s00", (0, 1): "/s01", (1, 0): "/s10", (1, 1): "/s11"}
T0 = 1_600_000_000          # whole-second mtime used for the range files
CHUNK = 3                   # chunk_size of the range route: the copy loop runs several times


# ----------------------------------------------------------------------------------------------
# known findings

def _sig_sibling_escape(case, params):
    """Sandbox-mode escape through the PRE-COMPRESSED SIBLING (a Content-Encoding was served) on a request whose
    realpath resolution gave up at a symlink loop.  A plain-file or listing escape after a loop (the defect repaired
    by 706b3e0) does not match and is reported as new."""
    return (case.get("suite") == "traversal" and not case.get("follow") and case.get("realpath_gave_up_at_loop") is True
            and case.get("served_encoding") is not None)


SIGNATURES: dict = {"sandbox_sibling_escape_after_symlink_loop": _sig_sibling_escape}


def build_model():
    return fw.ocaml_model("C15", ["Model/Static.vo"])


def csv(s) -> str:
    if isinstance(s, bytes):
        s = s.decode("latin1")
    return ",".join(str(ord(c)) for c in s) if s else "-"


def dec(n) -> str:
    """str(int) that does not trip CPython's 4300-digit conversion limit (the limit itself stays in force for aiohttp)."""
    if n is None:
        return "N"
    if n < 0:
        return "-" + dec(-n)
    base = 10 ** 4000
    parts = []
    while True:
        n, r = divmod(n, base)
        if n == 0:
            parts.append(str(r))
            break
        parts.append(str(r).rjust(4000, "0"))
    return "".join(reversed(parts))


def num(ds: str) -> int:
    """int(ds) for a digit string of any length."""
    n = 0
    for i in range(0, len(ds), 4000):
        chunk = ds[i:i + 4000]
        n = n * 10 ** len(chunk) + int(chunk)
    return n


def opt_csv(s):
    return "NONE" if s is None else csv(s)


# ----------------------------------------------------------------------------------------------
# the test bed: temp tree + real static routes served in-process

class _Inline(concurrent.futures.ThreadPoolExecutor):
    """run_in_executor work runs inline: deterministic and fast (harness-side only)."""

    def submit(self, fn, *a, **k):  # type: ignore[override]
        f: concurrent.futures.Future = concurrent.futures.Future()
        try:
            f.set_result(fn(*a, **k))
        except BaseException as e:  # noqa
            f.set_exception(e)
        return f


def _w(path, data: bytes, mtime_ns=None):
    with open(path, "wb") as f:
        f.write(data)
    if mtime_ns is not None:
        os.utime(path, ns=(mtime_ns, mtime_ns))


class Bed:
    def __init__(self):
        from harness.common.loop import VLoop
        self.base = os.path.realpath(tempfile.mkdtemp(prefix="c15-", dir="/tmp"))
        self.loop = VLoop()
        self.last_path_safe = None
        self._sock = None
        try:
            self._make_tree()
            self._start()
        except BaseException:
            self.close()
            raise

    # -- tree ------------------------------------------------------------------------------
    def _make_tree(self):
        b = self.base
        root = os.path.join(b, "root")
        for d in ("root", "root/sub", "root/sub/deep", "root/emptydir", "outside", "outside/sub2", "root2", "range"):
            os.mkdir(os.path.join(b, d))

        def named(rel, tag="FILE"):
            _w(os.path.join(b, rel), f"{tag}:{rel}\n".encode())
        for rel in ("root/f.txt", "root/sub/g.txt", "root/sub/deep/h.txt", "root/a b.txt", "root/\u00e9.txt", "root/k.txt",
                    "root/noext", "root/.hidden", "root/trail.", "outside/secret.txt", "outside/sub2/x.txt", "root2/z.txt",
                    "outside/f.txt", "outside/k.txt"):
            named(rel)
        for rel in ("root/f.txt.gz", "root/k.txt.br", "root/noext.gz", "root/.hidden.gz", "root/trail..gz", "outside/secret.txt.gz",
                    "outside/k.txt.br", "outside/brk.gz", "root/sub/brk_in.gz"):
            named(rel, "ENC")
        os.mkdir(os.path.join(b, "root/sub/deep/h.txt.gz"))                      # sibling that is a directory
        os.symlink("../../outside/secret.txt", os.path.join(b, "root/sub/g.txt.gz"))   # sibling that is a link out
        os.symlink("f.txt.gz", os.path.join(b, "root/f2.txt.gz"))                # sibling link to an inside file
        named("root/f2.txt")
        links = {
            "root/link_in": "sub/g.txt", "root/link_dir_in": "sub", "root/link_out_file": "../outside/secret.txt",
            "root/link_out_abs": os.path.join(b, "outside/secret.txt"), "root/link_out_dir": "../outside",
            "root/link_up": "..", "root/link_self_dir": ".", "root/loop1": "loop2", "root/loop2": "loop1",
            "root/selfloop": "selfloop", "root/dangling": "nonexistent", "root/chain1": "chain2", "root/chain2": "sub//./g.txt",
            "root/link_root2": "../root2", "root/sub/up_out": "../../outside/sub2/x.txt", "root/link_back": "../root/f.txt",
            "root/link_dev": "/dev/null", "root/link_abs_in": os.path.join(b, "root/sub/deep"),
            "root/link_slashes": "//" + os.path.join(b, "outside").lstrip("/") + "//secret.txt",
            "outside/back_in": "../root/f.txt", "root/link_k_out": "../outside/k.txt",
            # a link that sends realpath back to itself AFTER a missing component: stat() says ENOENT, not ELOOP
            "outside/brk": "nonexistent2/../brk/../../root/link_out_dir/brk",
            "root/sub/brk_in": "nonexistent2/../brk_in/../../sub/brk_in",
        }
        for rel, tgt in links.items():
            os.symlink(tgt, os.path.join(b, rel))
        self._sock = socket.socket(socket.AF_UNIX)
        self._sock.bind(os.path.join(root, "sock"))
        # range files
        rg = os.path.join(b, "range")
        self.range_files = {}
        for name, data, mt in (("e0", b"", T0 * 10**9), ("e1", b"A", T0 * 10**9), ("e2", b"AB", T0 * 10**9),
                               ("e10", b"0123456789", T0 * 10**9), ("e300", bytes((i * 7 + 3) % 251 for i in range(300)), T0 * 10**9),
                               ("frac", b"abcdefghij", T0 * 10**9 + 500_000_000)):
            p = os.path.join(rg, name)
            _w(p, data, mt)
            st = os.stat(p)
            self.range_files[name] = {"content": data, "mtime_ns": st.st_mtime_ns, "etag": f"{st.st_mtime_ns:x}-{st.st_size:x}"}
        self.root = root

    def fs_entries(self):
        """The tree as the model sees it: absolute paths from / (ancestors as directories)."""
        ents = []
        parts = [p for p in self.base.split("/") if p]
        for i in range(1, len(parts) + 1):
            ents.append(("/".join(parts[:i]), "D", ""))
        ents.append(("dev", "D", ""))
        ents.append(("dev/null", "S", ""))
        for dirpath, dirnames, filenames in os.walk(self.base, followlinks=False):
            for nm in sorted(dirnames + filenames):
                full = os.path.join(dirpath, nm)
                rel = full.lstrip("/")
                st = os.lstat(full)
                import stat as S
                if S.S_ISLNK(st.st_mode):
                    ents.append((rel, "L", os.readlink(full)))
                elif S.S_ISDIR(st.st_mode):
                    ents.append((rel, "D", ""))
                elif S.S_ISREG(st.st_mode):
                    ents.append((rel, "F", open(full, "rb").read()))
                else:
                    ents.append((rel, "S", ""))
        return ents

    def fs_line(self):
        toks = []
        for rel, kind, data in self.fs_entries():
            p = "/".join(csv(seg) for seg in rel.split("/"))
            d = fw.hexs(data) if kind == "F" else (csv(data) if kind == "L" else "-")
            toks.append(f"{p}:{kind}:{d}")
        return "FS " + " ".join(toks)

    def root_tok(self):
        return "/".join(csv(seg) for seg in self.root.strip("/").split("/"))

    # -- server ----------------------------------------------------------------------------
    def _start(self):
        from aiohttp import web
        import aiohttp.web_fileresponse as wf
        from harness.common.transport import start_server
        self._old_nosendfile = wf.NOSENDFILE
        wf.NOSENDFILE = True          # harness-side: take aiohttp's own chunked copy loop (the modelled code)
        asyncio.set_event_loop(self.loop)
        self.loop.set_default_executor(_Inline(max_workers=1))
        import logging
        self._log_levels = {n: logging.getLogger(n).level for n in ("aiohttp.server", "aiohttp.web", "aiohttp.access")}
        for n in self._log_levels:
            logging.getLogger(n).setLevel(logging.CRITICAL + 1)     # 500s are observed through the response
        bed = self

        @web.middleware
        async def record(request, handler):
            bed.last_path_safe = request.rel_url.path_safe
            return await handler(request)

        async def go():
            app = web.Application(middlewares=[record])
            for (follow, show), prefix in PREFIXES.items():
                # the keyword's public name differs between aiohttp versions
                import inspect
                params = inspect.signature(app.router.add_static).parameters
                kw = {"show_index": bool(show)}
                kw["break_symlink_sandbox" if "break_symlink_sandbox" in params else "follow_symlinks"] = bool(follow)
                app.router.add_static(prefix, self.root, **kw)
            app.router.add_static("/r", os.path.join(self.base, "range"), chunk_size=CHUNK)
            self.runner, self.connect = await start_server(app, self.loop)
        self.loop.run_until_complete(go())

    def request(self, raw: bytes):
        """Send one request (Connection: close) and return (status, headers{lower: value}, body, path_safe)."""
        self.last_path_safe = None

        async def go():
            proto, tr = self.connect()
            proto.data_received(raw)
            for _ in range(2000):
                if tr.closed:
                    break
                await asyncio.sleep(0)
            else:
                tr.close()
                raise RuntimeError("no complete response")
            return bytes(tr.buf)
        out = self.loop.run_until_complete(go())
        return parse_response(out) + (self.last_path_safe,)

    def close(self):
        try:
            import aiohttp.web_fileresponse as wf
            if hasattr(self, "_old_nosendfile"):
                wf.NOSENDFILE = self._old_nosendfile
            if hasattr(self, "runner"):
                self.loop.run_until_complete(self.runner.cleanup())
            import logging
            for n, lv in getattr(self, "_log_levels", {}).items():
                logging.getLogger(n).setLevel(lv)
        except Exception:  # noqa
            pass
        finally:
            try:
                if self._sock is not None:
                    self._sock.close()
            except Exception:  # noqa
                pass
            try:
                asyncio.set_event_loop(None)
                self.loop.close()
            except Exception:  # noqa
                pass
            shutil.rmtree(self.base, ignore_errors=True)


def parse_response(out: bytes):
    head, sep, rest = out.partition(b"\r\n\r\n")
    if not sep:
        raise RuntimeError(f"malformed response {out[:200]!r}")
    lines = head.split(b"\r\n")
    status = int(lines[0].split()[1])
    hs = {}
    for ln in lines[1:]:
        k, _, v = ln.partition(b":")
        hs[k.decode("latin1").lower()] = v.strip().decode("latin1")
    if hs.get("transfer-encoding", "").lower() == "chunked":
        body = b""
        while rest:
            ln, _, rest = rest.partition(b"\r\n")
            n = int(ln.split(b";")[0], 16)
            if n == 0:
                break
            body += rest[:n]
            rest = rest[n + 2:]
    else:
        body = rest
    return status, hs, body


def seen_value(v: str) -> str:
    """A header value as the HTTP parser hands it to the application (OWS around it is removed)."""
    return v.strip(" \t")


def make_request(method: str, target: str, headers: list) -> bytes:
    req = f"{method} {target} HTTP/1.1\r\nHost: x\r\nConnection: close\r\n".encode("utf-8", "surrogateescape")
    for k, v in headers:
        req += k.encode() + b": " + (v if isinstance(v, bytes) else v.encode("utf-8")) + b"\r\n"
    return req + b"\r\n"


# ----------------------------------------------------------------------------------------------
# suite: http_range (function correspondence)

def range_header_values(sizes=(0, 1, 2, 10, 300)):
    vals = set()
    for sz in sizes:
        vals |= {0, 1, 2, 3, sz - 2, sz - 1, sz, sz + 1, sz + 5}
    vals = sorted(v for v in vals if v >= 0)
    hs = []
    for a in [None] + vals:
        for b in [None] + vals:
            hs.append(f"bytes={'' if a is None else a}-{'' if b is None else b}")
    return hs


MALFORMED = ["", "bytes", "bytes=", "bytes=-", "bytes=--1", "bytes=-1-", "bytes=a-b", "bytes=1-2,4-5", "bytes= 1-2", "bytes=1-2 ",
             " bytes=1-2", "Bytes=1-2", "BYTES=1-2", "bytes=1 -2", "bytes=1- 2", "bytes=+1-2", "bytes=1-+2", "items=1-2", "bytes=1",
             "bytes=1_0-2_0", "bytes=0x1-0x2", "bytes=1.0-2", "bytes=-0", "bytes=-00", "bytes=-000000", "bytes=0-0", "bytes=00-01",
             "bytes=007-0009", "bytes=5-2", "bytes=2-1", "bytes=1-1", "bytes=-1", "bytes=-999999999999999999999", "bytes=0-",
             "bytes=99999999999999999999999-", "bytes=0-99999999999999999999999999", "bytes=1-2-3", "bytes==1-2", "bytes=1--2",
             "bytes=1-2;", "xbytes=1-2", "bytes=\u0661-\u0662", "bytes=\uff11-\uff12", "bytes=1-\u00b2"]


_BASE_REQ = None


def mocked(headers: dict):
    """A request object carrying these headers (one mocked request, cloned: cheap)."""
    global _BASE_REQ
    from aiohttp.test_utils import make_mocked_request
    from multidict import CIMultiDict
    if _BASE_REQ is None:
        _BASE_REQ = make_mocked_request("GET", "/")
    return _BASE_REQ.clone(headers=CIMultiDict(headers))


def suite_http_range(ctx, exe):
    hs = [None] + range_header_values() + MALFORMED
    hs += ["bytes=1-2\n", "bytes=-3\n", "bytes=1-2\n\n", "bytes=1-2\r\n", "\nbytes=1-2", "bytes=1-\n2", "bytes=0-" + "9" * 4300,
           "bytes=0-" + "9" * 4301, "bytes=" + "0" * 4300 + "1-", "bytes=" + "0" * 4299 + "1-5", "bytes=-" + "0" * 4301,
           "bytes=" + "1" * 4301 + "-" + "2" * 4301]
    rng = ctx.rng
    alphabet = "0123456789-=bytes ,\n+"
    for _ in range(300 if ctx.quick else 20000):
        if rng.random() < 0.5:
            hs.append("bytes=" + "".join(rng.choice("0123456789-") for _ in range(rng.randint(0, 7))))
        else:
            hs.append("".join(rng.choice(alphabet) for _ in range(rng.randint(0, 12))))
    lines = ["HR " + opt_csv(h) for h in hs]
    model = fw.run_model(exe, lines) if exe else [None] * len(hs)
    ran = 0
    for h, m in zip(hs, model):
        req = mocked({} if h is None else {"Range": h})
        try:
            s = req.http_range
            impl = f"OK {dec(s.start)} {dec(s.stop)}"
            if s.step != 1:
                impl += f" step={s.step}"
        except ValueError:
            impl = "VE"
        except Exception as e:  # noqa
            impl = f"EXC {type(e).__name__}"
        ran += 1
        ctx.case(("hr", h, impl), nontrivial=impl.startswith("OK") and h is not None)
        ctx.count("http_range:" + impl.split()[0])
        case = {"suite": "http_range", "range": h}
        if m is not None and m != impl:
            ctx.disagreement("http_range", case, m, impl)
        bad = oracle_http_range(h, impl)
        if bad:
            ctx.violation(case, f"http_range({h!r}) -> {impl}: {bad}")
    ctx.sample({"suite": "http_range", "range": "bytes=2-5", "model": "OK 2 6"})
    if exe:
        ctx.close_suite("http_range", ran)


_RANGE_RE = re.compile(r"bytes=([0-9]*)-([0-9]*)\Z")


def rfc_slice(size: int, h: str):
    """Independent RFC 9110 §14.1 reading of one byte-range: ('slice', first, count) | ('unsat',) | ('malformed',)."""
    m = _RANGE_RE.match(h)
    if not m or (m.group(1) == "" and m.group(2) == ""):
        return ("malformed",)
    a, b = m.group(1), m.group(2)
    if a == "":
        n = num(b)
        if n == 0 or size == 0:
            return ("unsat",)
        n = min(n, size)
        return ("slice", size - n, n)
    first = num(a)
    if b != "":
        last = num(b)
        if last < first:
            return ("malformed",)
    else:
        last = size - 1
    if first >= size:
        return ("unsat",)
    last = min(last, size - 1)
    return ("slice", first, last - first + 1)


def oracle_http_range(h, impl):
    """What http_range may return, from the RFC reading alone."""
    if h is None:
        return None if impl == "OK N N" else "no Range header must give slice(None, None)"
    if impl.startswith("EXC"):
        return "unexpected exception class"
    hh = h[:-1] if h.endswith("\n") else h          # `$` quirk: not reachable through the HTTP parser
    m = _RANGE_RE.match(hh)
    if impl == "VE":
        return None                                  # refusing is always safe (416)
    if not m:
        return "accepted a value outside the byte-range grammar"
    a, b = m.group(1), m.group(2)
    _, s, e = impl.split()[:3]
    if a == "" and b == "":
        return "accepted an empty range"
    if a == "":
        if num(b) == 0:
            return "suffix length 0 accepted (selects the whole file)"
        return None if (s, e) == (dec(-num(b)), "N") else "wrong suffix slice"
    if b == "":
        return None if (s, e) == (dec(num(a)), "N") else "wrong open-ended slice"
    if num(b) < num(a):
        return "last < first accepted"
    return None if (s, e) == (dec(num(a)), dec(num(b) + 1)) else "wrong closed slice"


# ----------------------------------------------------------------------------------------------
# suite: range_response

def httpdate(t: int) -> str:
    return email.utils.formatdate(t, usegmt=True)


def cond_menu(info):
    """name -> (header value, semantic) for each conditional header; semantics are known by construction."""
    et = info["etag"]
    sec = info["mtime_ns"] // 10**9
    frac = info["mtime_ns"] % 10**9 != 0
    # dates relative to the file time: 'before' means the header date is earlier than the modification time
    dates = {"before": httpdate(sec - 1), "equal": httpdate(sec), "after": httpdate(sec + 1), "garbage": "yesterday-ish"}
    if frac:
        dates["before"] = httpdate(sec)        # mtime = sec + 0.5 is later than `sec`
        del dates["equal"]
    return {
        "If-Match": {"strong": f'"{et}"', "weak": f'W/"{et}"', "nomatch": '"nomatch"', "star": "*", "list": f'"zzz", "{et}"',
                     "listno": '"a", W/"b"'},
        "If-None-Match": {"strong": f'"{et}"', "weak": f'W/"{et}"', "nomatch": '"nomatch"', "star": "*", "list": f'W/"q", W/"{et}"'},
        "If-Unmodified-Since": dates, "If-Modified-Since": dates,
        "If-Range": dict(dates, etag=f'"{et}"', etagno='"other"'),
    }


def expected_response(size, method, range_h, conds):
    """Acceptable answers per RFC 9110 §13/§14 for one request; conds: header -> semantic tag.
    Returns list of ('412',), ('304',), ('200',), ('206', first, count), ('416',)."""
    im, ius = conds.get("If-Match"), conds.get("If-Unmodified-Since")
    inm, ims = conds.get("If-None-Match"), conds.get("If-Modified-Since")
    ir = conds.get("If-Range")
    if im in ("weak", "nomatch", "listno"):
        return [("412",)]
    if im is None and ius == "before":
        return [("412",)]
    if inm in ("strong", "weak", "star", "list"):
        return [("304",)]
    if inm is None and ims in ("equal", "after"):
        return [("304",)]
    if range_h is None:
        return [("200",)]
    if ir == "before":
        return [("200",)]
    r = rfc_slice(size, range_h)
    if r[0] == "malformed":
        ans = [("416",), ("200",)]          # RFC lets a server ignore an invalid Range; 416 is what this code promises
    elif r[0] == "unsat":
        ans = [("416",)]
    else:
        ans = [("206", r[1], r[2])]
        if any(len(g) > 4300 for g in re.findall(r"[0-9]+", range_h)):
            ans.append(("416",))            # CPython int() digit limit: refusing is tolerated
    if ir in ("etag", "etagno"):
        ans.append(("200",))                # entity-tag If-Range is not implemented (ignored): both answers are consistent
    return ans


def check_response(size, content, method, resp, acceptable):
    status, hs, body = resp
    for a in acceptable:
        if str(status) != a[0]:
            continue
        cl, cr = hs.get("content-length"), hs.get("content-range")
        if a[0] == "206":
            first, count = a[1], a[2]
            want_body = b"" if method == "HEAD" else content[first:first + count]
            if cr != f"bytes {first}-{first + count - 1}/{size}":
                return f"206 with Content-Range {cr!r}, expected 'bytes {first}-{first + count - 1}/{size}'"
            if cl != str(count):
                return f"206 with Content-Length {cl!r}, expected {count}"
            if body != want_body:
                return f"206 body {body[:40]!r} is not bytes [{first},{first + count}) of the file"
        elif a[0] == "200":
            if cr is not None:
                return f"200 with a Content-Range {cr!r}"
            if cl != str(size):
                return f"200 with Content-Length {cl!r}, file has {size} bytes"
            if body != (b"" if method == "HEAD" else content):
                return "200 body is not the file content"
        elif a[0] == "416":
            if cr != f"bytes */{size}":
                return f"416 with Content-Range {cr!r}, expected 'bytes */{size}'"
            if body != b"":
                return "416 with a body"
        else:
            if body != b"":
                return f"{status} with a body"
            if cr is not None:
                return f"{status} with a Content-Range"
        return None
    return f"status {status} (Content-Range {hs.get('content-range')!r}, {len(body)} body bytes) but the request calls for {acceptable}"


def impl_parsed_conditionals(headers):
    """The parsed form of the conditional headers, using aiohttp's own header parsers (not modelled)."""
    req = mocked({k: v for k, v in headers if k != "Range"})

    def etags(t):
        if t is None:
            return "NONE"
        return "E" + ";".join(f"{1 if e.is_weak else 0}:{csv(e.value)}" for e in t)

    def date(d):
        return "NONE" if d is None else str(int(d.timestamp()) * 10**9)
    return etags(req.if_match), date(req.if_unmodified_since), etags(req.if_none_match), date(req.if_modified_since), date(req.if_range)


def model_resp_line(info, method, headers):
    headers = [(k, seen_value(v)) for k, v in headers]
    rng = next((v for k, v in headers if k == "Range"), None)
    ifm, unm, ifn, ms, ifr = impl_parsed_conditionals(headers)
    return " ".join(["RESP", "1" if method == "HEAD" else "0", str(CHUNK), fw.hexs(info["content"]), str(info["mtime_ns"]),
                     csv(info["etag"]), ifm, unm, ifn, ms, ifr, opt_csv(rng)])


def canon_model_resp(m: str):
    st, ln, cr, body = m.split()
    return (int(st), None if ln == "N" else ln, None if cr == "N" else fw.unhex(cr).decode("latin1"),
            body if body == "FUEL" else fw.unhex(body))


def canon_impl_resp(resp):
    status, hs, body = resp
    cl = hs.get("content-length")
    if status in (304, 416):
        cl = None                      # not set by the file response code (framing chosen by StreamResponse)
    return (status, cl, hs.get("content-range"), body)


def run_range_case(bed, exe, case):
    info = bed.range_files[case["file"]]
    headers = [tuple(h) for h in case["headers"]]
    raw = make_request(case["method"], "/r/" + case["file"], [(k, v.encode("utf-8", "surrogateescape")) for k, v in headers])
    status, hs, body, _ = bed.request(raw)
    resp = (status, hs, body)
    rng = next((seen_value(v) for k, v in headers if k == "Range"), None)
    acceptable = expected_response(len(info["content"]), case["method"], rng, case["conds"])
    bad = check_response(len(info["content"]), info["content"], case["method"], resp, acceptable)
    model = None
    if exe:
        model = canon_model_resp(fw.run_model(exe, [model_resp_line(info, case["method"], headers)])[0])
    return resp, model, bad


def suite_range_response(ctx, exe, bed):
    rng = ctx.rng
    cases = []
    for fname, info in bed.range_files.items():
        size = len(info["content"])
        menu = cond_menu(info)
        specs = range_header_values((size,)) + MALFORMED[1:]
        if fname in ("e10",):
            specs += ["bytes=0-" + "9" * 4300, "bytes=0-" + "9" * 4301, "bytes=" + "0" * 4301 + "-", "bytes=-" + "0" * 4200 + "3"]
        if fname == "frac":
            specs = ["bytes=2-5", "bytes=-3", "bytes=20-"]
        for h in [None] + specs:
            for method in ("GET", "HEAD") if (h is None or h in ("bytes=0-0", "bytes=1-", "bytes=-1", "bytes=-0", f"bytes={size}-")) else ("GET",):
                cases.append({"suite": "range_response", "file": fname, "method": method,
                              "headers": [] if h is None else [["Range", h]], "conds": {}})
        # If-Range x range
        for tag, val in menu["If-Range"].items():
            for h in (None, "bytes=0-0", "bytes=1-", "bytes=-1", "bytes=-0", f"bytes={size}-", "bytes=x"):
                cases.append({"suite": "range_response", "file": fname, "method": "GET",
                              "headers": ([] if h is None else [["Range", h]]) + [["If-Range", val]], "conds": {"If-Range": tag}})
        # every single conditional header, and random combinations
        for hn in ("If-Match", "If-None-Match", "If-Unmodified-Since", "If-Modified-Since"):
            for tag, val in menu[hn].items():
                for h in (None, "bytes=0-0"):
                    cases.append({"suite": "range_response", "file": fname, "method": "GET",
                                  "headers": ([] if h is None else [["Range", h]]) + [[hn, val]], "conds": {hn: tag}})
        ncomb = (60 if ctx.quick else 3000)
        for _ in range(ncomb):
            hdrs, conds = [], {}
            for hn in menu:
                if rng.random() < 0.45:
                    tag = rng.choice(sorted(menu[hn]))
                    hdrs.append([hn, menu[hn][tag]])
                    if tag != "garbage":
                        conds[hn] = tag
            h = rng.choice([None, None] + specs[:40] + ["bytes=0-0", "bytes=-1", "bytes=1-"])
            if h is not None:
                hdrs.insert(rng.randint(0, len(hdrs)), ["Range", h])
            cases.append({"suite": "range_response", "file": fname, "method": rng.choice(["GET", "GET", "HEAD"]), "headers": hdrs, "conds": conds})
    for c in cases:   # garbage dates carry no semantics: drop the tag
        c["conds"] = {k: v for k, v in c["conds"].items() if v != "garbage"}
    lines = []
    if exe:
        lines = [model_resp_line(bed.range_files[c["file"]], c["method"], [tuple(h) for h in c["headers"]]) for c in cases]
        models = fw.run_model(exe, lines)
    else:
        models = [None] * len(cases)
    ran = 0
    for c, m in zip(cases, models):
        info = bed.range_files[c["file"]]
        size = len(info["content"])
        headers = [tuple(h) for h in c["headers"]]
        try:
            status, hs, body, _ = bed.request(make_request(c["method"], "/r/" + c["file"],
                                                           [(k, v.encode("utf-8", "surrogateescape")) for k, v in headers]))
        except Exception as e:  # noqa
            ctx.violation(c, f"static route did not answer: {e!r}")
            continue
        resp = (status, hs, body)
        ran += 1
        rh = next((seen_value(v) for k, v in headers if k == "Range"), None)
        ctx.case(("rr", c["file"], c["method"], tuple(headers), status, hs.get("content-range"), body), nontrivial=status in (200, 206))
        ctx.count(f"range_response:status:{status}")
        ctx.count(f"range_response:size:{size}")
        if m is not None:
            mo, io = canon_model_resp(m), canon_impl_resp(resp)
            if mo != io:
                ctx.disagreement("range_response", c, repr(mo), repr(io))
        bad = check_response(size, info["content"], c["method"], resp, expected_response(size, c["method"], rh, c["conds"]))
        if bad:
            ctx.violation(c, f"{c['method']} /r/{c['file']} {headers}: {bad}")
    ctx.sample({"suite": "range_response", "case": cases[3], "model": models[3]})
    if exe:
        ctx.close_suite("range_response", ran)


# ----------------------------------------------------------------------------------------------
# suite: traversal

NAMES = ["f.txt", "sub", "g.txt", "deep", "h.txt", "a%20b.txt", "%C3%A9.txt", "k.txt", "noext", ".hidden", "trail.", "emptydir", "f2.txt",
         "link_in", "link_dir_in", "link_out_file", "link_out_abs", "link_out_dir", "link_up", "link_self_dir", "loop1", "selfloop",
         "dangling", "chain1", "link_root2", "up_out", "link_back", "link_dev", "link_abs_in", "link_slashes", "link_k_out", "sock",
         "nonexistent", "brk", "brk_in", "secret.txt", "outside", "root", "root2", "z.txt", "sub2", "x.txt", "f.txt.gz", "back_in"]
DOTS = ["..", ".", "%2e%2e", "%2E%2E", ".%2e", "%2e.", "%2e", "...", "..%00", "%00", "..;", "..\\", "%5c..", "..%5c", "%252e%252e", "%c0%ae%c0%ae",
        "..%252f", "%2e%2e%2f", "..%2f", "..%2F..", "%2f", "%2F", "%5c", "\\", "\\..\\", "C:", "c:%5c", "%20", "~", "*", "%", "%zz", "%25", "%252F"]
SEPS = ["/", "/", "/", "//", "%2F", "%2f", "/./", "\\", "%5C", "///"]
ACCEPTS = [None, None, "gzip", "br", "gzip, br", "GZIP", "identity", "x-gzip;q=0", "deflate, br;q=1.0"]


def gen_targets(bed, rng, n):
    out = []
    b = bed.base
    fixed = ["", "/", "/f.txt", "/sub/g.txt", "/sub/", "/sub", "/emptydir", "/emptydir/", "/nonexistent", "/link_in", "/link_dir_in/g.txt",
             "/link_out_file", "/link_out_abs", "/link_out_dir/secret.txt", "/link_out_dir", "/link_out_dir/", "/link_up/outside/secret.txt",
             "/link_up/root/f.txt", "/link_self_dir/f.txt", "/link_self_dir/link_self_dir/sub/g.txt", "/loop1", "/loop1/x", "/selfloop",
             "/dangling", "/chain1", "/link_root2/z.txt", "/sub/up_out", "/link_back", "/link_dev", "/link_abs_in/h.txt", "/link_abs_in",
             "/link_slashes", "/sock", "/a%20b.txt", "/%C3%A9.txt", "/k.txt", "/noext", "/.hidden", "/trail.", "/f2.txt", "/link_k_out",
             "/sub/deep/h.txt", "/f.txt.gz", "/f.txt/", "/f.txt/.", "/f.txt/..", "/f.txt/../sub/g.txt", "/sub/g.txt/../../f.txt",
             "/../outside/secret.txt", "/..%2Foutside/secret.txt", "/..%2foutside%2fsecret.txt", "/%2e%2e/outside/secret.txt",
             "/%2E%2E%2Foutside%2Fsecret.txt", "/sub/../../outside/secret.txt", "/sub/..%2F..%2Foutside/secret.txt",
             "/link_out_dir/../root/f.txt", "/link_out_dir/../f.txt", "/link_dir_in/../f.txt", "/link_dir_in/../../outside/secret.txt",
             "/nonexistent/../f.txt", "/nonexistent/../../outside/secret.txt", "/dangling/../f.txt", "/loop1/../f.txt",
             "/../root/f.txt", "/../root2/z.txt", "/..%2Froot2/z.txt", "/%2e%2e%2Froot2%2Fz.txt", "/..%2F..%2F..%2F..%2F..%2F..%2Fetc/passwd",
             "/%2Fetc%2Fpasswd", "//etc/passwd", "/%2F%2Fhost%2Fshare", "/%2f" + b.lstrip("/") + "/outside/secret.txt",
             "/%2F" + urllib.parse.quote(b.lstrip("/"), safe="") + "%2Foutside%2Fsecret.txt", "/C:/x", "/c:%5Cx", "/%5C%5Chost%5Cshare",
             "/\\\\host\\share", "/..\\outside\\secret.txt", "/..%5Coutside%5Csecret.txt", "/f.txt%00", "/f.txt%00.gz", "/%00", "/sub%00/../f.txt",
             "/x%00/../f.txt", "/%252e%252e/outside/secret.txt", "/..%252Foutside/secret.txt", "/%25", "/%", "/%zz", "/sub//g.txt", "/sub/./g.txt",
             "///f.txt", "/sub///deep//h.txt", "/f.txt?x=1", "/sub/g.txt?../../outside/secret.txt", "/link_up", "/link_up/", "/link_up/root",
             "/link_up/root2/z.txt", "/sub/deep/h.txt.gz", "/sub/deep/h.txt.gz/", "/link_root2", "/link_root2/", "/outside/back_in",
             "/link_out_dir/brk", "/link_out_dir/brk.gz", "/sub/brk_in", "/link_dir_in/brk_in", "/loop1/../link_out_dir/brk"]
    for (follow, show), prefix in PREFIXES.items():
        for t in fixed:
            out.append((follow, show, prefix + t))
        out += [(follow, show, f"/other/../{prefix[1:]}/f.txt"), (follow, show, f"{prefix}/../{prefix[1:]}/f.txt"),
                (follow, show, f"{prefix}/../{prefix[1:]}/../outside/secret.txt"), (follow, show, f"/.{prefix}/f.txt"),
                (follow, show, f"/{prefix}/f.txt"), (follow, show, f"{prefix}x/f.txt"), (follow, show, f"{prefix}/..{prefix}/sub/g.txt"),
                (follow, show, f"{prefix}%2Ff.txt"), (follow, show, f"{prefix}/sub/../../{prefix[1:]}/f.txt"), (follow, show, f"/x/../..{prefix}/f.txt")]
    # every name, stepped back over with "..", then every way out (dot-dot after links, loops, files, missing names)
    outs = ["link_out_file", "link_out_dir/secret.txt", "link_out_dir", "link_up/outside/secret.txt", "f.txt", "link_out_abs", "link_k_out",
            "link_out_dir/brk"]
    for (follow, show), prefix in PREFIXES.items():
        for x in NAMES:
            for y in outs:
                if follow and rng.random() < 0.7:
                    continue
                out.append((follow, show, f"{prefix}/{x}/{rng.choice(['..', '..', '%2e%2e', '.%2E'])}/{y}"))
    for _ in range(n):
        follow, show = rng.choice(list(PREFIXES))
        k = rng.randint(1, 5)
        segs = []
        for _ in range(k):
            r = rng.random()
            segs.append(rng.choice(NAMES) if r < 0.6 else rng.choice(DOTS))
        t = PREFIXES[(follow, show)] + rng.choice(["/", "/", "/", "//", "%2F", ""])
        for i, s in enumerate(segs):
            t += s + (rng.choice(SEPS) if i < k - 1 else rng.choice(["", "", "", "/", "?a=b"]))
        out.append((follow, show, t))
    return out


def classify_impl(bed, status, hs, body):
    if status == 200:
        ctype = hs.get("content-type", "")
        if ctype.startswith("text/html") and b"<title>Index of" in body:
            text = body.decode("utf-8", "replace")
            title = html.unescape(re.search(r"<title>Index of /(.*?)</title>", text, re.S).group(1))
            names = sorted(html.unescape(x).rstrip("/") for x in re.findall(r'<li><a href="[^"]*">(.*?)</a></li>', text))
            return ("LIST", "" if title == "." else title, tuple(names))
        return ("FILE", hs.get("content-encoding"), body)
    return (str(status),)


def classify_model(bed, m):
    w = m.split()
    if w[0] == "FILE":
        enc = None if w[2] == "-" else "".join(chr(int(x)) for x in w[2].split(","))
        return ("FILE", enc, fw.unhex(w[3]))
    if w[0] == "LIST":
        def dec(p):
            return "/".join("".join(chr(int(c)) for c in seg.split(",")) for seg in p.split("/")) if p != "/" else ""
        d = "/" + dec(w[1])
        rel = os.path.relpath(d, bed.root)
        names = () if w[2] == "-" else tuple(sorted("".join(chr(int(c)) for c in seg.split(",")) for seg in w[2].split("/")))
        return ("LIST", "" if rel == "." else rel, names)
    return (w[0],)


def lexical_inside(bed, prefix, target):
    """Independent check used in follow mode: does the fully decoded request text stay below the route lexically?"""
    path = target.split("?", 1)[0].split("#", 1)[0]
    dec = urllib.parse.unquote(path, errors="surrogateescape")
    n = posixpath.normpath(dec) if dec else "."
    return n == prefix or n.startswith(prefix + "/")


def realpath_gave_up(bed, follow, show, path_safe):
    """Did os.path.realpath (the OS, not the model) give up at a symlink loop for root/filename?  Then its result
    still has a symbolic link on it."""
    if path_safe is None:
        return False
    prefix = PREFIXES[(follow, show)]
    fn = path_safe[len(prefix) + 1:].replace("%2F", "/").replace("%25", "%")
    if fn.startswith("/"):
        return False
    try:
        r = os.path.realpath(os.path.join(bed.root, fn))
    except ValueError:
        return False
    parts = [x for x in r.split("/") if x]
    return any(os.path.islink("/" + "/".join(parts[:i])) for i in range(1, len(parts) + 1))


def oracle_traversal(bed, follow, show, target, obs):
    """Property predicate on the implementation's answer alone."""
    if obs[0] == "LIST":
        if not show:
            return "directory listing although show_index is off"
        d = os.path.normpath(os.path.join(bed.root, obs[1]))
        if not (d == bed.root or d.startswith(bed.root + "/")):
            return f"listing of a directory outside the root: {d}"
        if os.path.realpath(d) != d and not follow:
            return f"listing of {d} whose real location {os.path.realpath(d)} is elsewhere"
        return None
    if obs[0] != "FILE":
        return None
    body = obs[2]
    m = re.match(rb"(FILE|ENC):(.*)\n\Z", body, re.S)
    if not m:
        return f"served bytes that are not the content of any regular file of the tree: {body[:60]!r}"
    rel = m.group(2).decode()
    real = os.path.join(bed.base, rel)
    try:
        import stat as S
        st = os.lstat(real)
        if not S.S_ISREG(st.st_mode) or open(real, "rb").read() != body:
            return f"served content does not come from a regular file at its named location {rel}"
    except OSError:
        return f"served content names a location that does not exist: {rel}"
    inside = rel.startswith("root/")
    if not follow and not inside:
        return f"sandbox route served a file whose real location is outside the root: {rel}"
    if m.group(1) == b"FILE" and obs[1] is not None:
        return f"Content-Encoding {obs[1]!r} on the plain file {rel}"
    if not follow:
        if not inside:
            return f"sandbox route served a file whose real location is outside the root: {rel}"
    else:
        prefix = PREFIXES[(follow, show)]
        if not inside and not lexical_inside(bed, prefix, target):
            return f"request text walks out of the root (no link involved lexically) and {rel} was served"
    return None


def run_traversal_case(bed, exe, follow, show, target, accept):
    hdrs = [] if accept is None else [("Accept-Encoding", accept)]
    status, hs, body, path_safe = bed.request(make_request("GET", target, hdrs))
    obs = classify_impl(bed, status, hs, body)
    model = None
    if exe and path_safe is not None:
        line = " ".join(["SERVE", csv(PREFIXES[(follow, show)]), bed.root_tok(), str(follow), str(show), csv(accept or ""), csv(path_safe)])
        model = classify_model(bed, fw.run_model(exe, [bed.fs_line(), line])[1])
    return obs, model, path_safe


def suite_traversal(ctx, exe, bed):
    rng = ctx.rng
    targets = gen_targets(bed, rng, 2500 if ctx.quick else 60000)
    cases = []
    for i, (follow, show, t) in enumerate(targets):
        accept = rng.choice(ACCEPTS) if i % 3 else None
        cases.append((follow, show, t, accept))
        if "brk" in t or (i < 600 and any(x in t for x in ("f.txt", "k.txt", "g.txt", "h.txt", "noext", ".hidden", "trail.", "secret", "link_k_out", "f2.txt"))):
            cases.append((follow, show, t, "gzip, br"))
    impl = []
    for follow, show, t, accept in cases:
        try:
            status, hs, body, path_safe = bed.request(make_request("GET", t, [] if accept is None else [("Accept-Encoding", accept)]))
            impl.append((classify_impl(bed, status, hs, body), path_safe))
        except Exception as e:  # noqa
            impl.append((("EXC", repr(e)), None))
    models = [None] * len(cases)
    if exe:
        lines, idx = [bed.fs_line()], []
        for i, ((follow, show, t, accept), (obs, ps)) in enumerate(zip(cases, impl)):
            if ps is None:
                continue
            idx.append(i)
            lines.append(" ".join(["SERVE", csv(PREFIXES[(follow, show)]), bed.root_tok(), str(follow), str(show), csv(accept or ""), csv(ps)]))
        ans = fw.run_model(exe, lines)
        for i, a in zip(idx, ans[1:]):
            models[i] = a
    ran = 0
    for (follow, show, t, accept), (obs, ps), m in zip(cases, impl, models):
        case = {"suite": "traversal", "follow": follow, "show_index": show, "target": t, "accept_encoding": accept,
                "realpath_gave_up_at_loop": realpath_gave_up(bed, follow, show, ps),
                "served_encoding": obs[1] if obs[0] == "FILE" else None}
        if obs[0] == "EXC":
            ctx.violation(case, f"static route did not answer: {obs[1]}")
            continue
        ran += 1
        ctx.case(("tr", follow, show, t, accept, obs), nontrivial=obs[0] in ("FILE", "LIST"))
        ctx.count(f"traversal:{obs[0]}")
        ctx.count(f"traversal:route:{follow}{show}")
        if ps is None:
            ctx.count("traversal:rejected-before-routing")
        if m is not None:
            if m in ("FUEL", "BADREQ") or m.startswith("EXN"):
                ctx.disagreement("traversal", case, m, repr(obs))
            else:
                mo = classify_model(bed, m)
                if mo != obs:
                    ctx.disagreement("traversal", dict(case, path_safe=ps), repr(mo), repr(obs))
        bad = oracle_traversal(bed, follow, show, t, obs)
        if bad:
            ctx.violation(case, f"GET {t} (follow={follow}, show_index={show}, Accept-Encoding={accept}): {bad}")
    ctx.sample({"suite": "traversal", "follow": cases[7][0], "show_index": cases[7][1], "target": cases[7][2], "impl": repr(impl[7][0])[:120], "model": models[7]})
    if exe:
        ctx.close_suite("traversal", ran)


# ----------------------------------------------------------------------------------------------
# suite: pathfuncs (os.path.normpath, pathlib parsing, StaticResource.resolve, Path.resolve vs the model)

def suite_pathfuncs(ctx, exe, bed):
    import pathlib
    from aiohttp.web_urldispatcher import _unquote_path_safe
    rng = ctx.rng
    pieces = ["a", "b", "..", ".", "", "/", "//", "///", "%2F", "%25", "%", "%2f", "x.y", "\\", "\x00", "..a", "a..", " "]
    strs = ["", "/", "//", "///", ".", "..", "/..", "//..", "a/..", "a/../..", "/a/../..", "//a//b/./../c/", "../a", "../../a/..", "a//b", "./a", "a/.", "/./", "/../a"]
    for _ in range(600 if ctx.quick else 20000):
        strs.append("".join(rng.choice(pieces) + rng.choice(["", "/", "/"]) for _ in range(rng.randint(0, 6))))
    lines = []
    for s in strs:
        lines += ["NORM " + csv(s), "PARSE " + csv(s), "SRES " + csv("/static") + " " + csv(s)]
    ans = fw.run_model(exe, lines)
    ran = 0
    for i, s in enumerate(strs):
        mn, mp, mr = ans[3 * i], ans[3 * i + 1], ans[3 * i + 2]
        imn = csv(os.path.normpath(s))
        pp = pathlib.PurePosixPath(s)
        parts = [x for x in pp.parts if x not in ("/", "//")]
        imp = ("1 " if pp.is_absolute() else "0 ") + ("/".join(csv(x) for x in parts) if parts else "/")
        norm = os.path.normpath(s)
        imr = ("SOME " + csv(_unquote_path_safe(s[len("/static") + 1:]))) if (norm.startswith("/static/") or norm == "/static") else "NONE"
        ran += 1
        ctx.case(("pf", s), nontrivial=True)
        for suite, a, b in (("normpath", mn, imn), ("pathlib_parse", mp, imp), ("static_resolve", mr, imr)):
            if a != b:
                ctx.disagreement("pathfuncs", {"suite": "pathfuncs", "fn": suite, "input": s}, a, b)
    # Path.resolve on the tree
    ents = bed.fs_entries()
    names = sorted({seg for rel, _, _ in ents if rel.startswith(bed.base.lstrip("/")) for seg in rel.split("/")[-1:]}) + ["..", ".", "nonexistent", "x\x00y"]
    rlines, rpaths = [bed.fs_line()], []
    for _ in range(500 if ctx.quick else 10000):
        segs = [rng.choice(names) for _ in range(rng.randint(0, 5))]
        p = bed.root + "".join("/" + s for s in segs)
        rpaths.append(p)
        rlines.append("RESOLVE " + ("/".join(csv(x) for x in p.strip("/").split("/"))))
    rans = fw.run_model(exe, rlines)[1:]
    for p, m in zip(rpaths, rans):
        try:
            r = pathlib.Path(p).resolve()
            im = "OK " + ("/".join(csv(x) for x in str(r).strip("/").split("/")) if str(r) != "/" else "/")
        except RuntimeError:
            im = "LOOP"
        except ValueError:
            im = "NUL"
        ran += 1
        ctx.case(("resolve", p, im), nontrivial=im.startswith("OK"))
        ctx.count("resolve:" + im.split()[0])
        if m != im:
            ctx.disagreement("pathfuncs", {"suite": "pathfuncs", "fn": "resolve", "input": p}, m, im)
    ctx.close_suite("pathfuncs", ran)


# ----------------------------------------------------------------------------------------------

def run_corpus(ctx, exe, bed):
    ran = 0
    for fn in sorted(glob.glob(os.path.join(fw.VERIF, "corpus", "C15", "*.json"))):
        payload = json.load(open(fn))
        case = payload.get("case", payload)
        r = _replay_on(bed, exe, case)
        ran += 1
        ctx.case(("corpus", os.path.basename(fn)), nontrivial=True)
        ctx.count("corpus")
        if r.get("violates"):
            ctx.violation(r.get("case", case), f"corpus case {os.path.basename(fn)}: {r.get('why')}")
        if exe and r.get("model") is not None and r.get("model") != r.get("impl"):
            ctx.disagreement("corpus", case, r.get("model"), r.get("impl"))
    if exe:
        ctx.close_suite("corpus", ran)


def _replay_on(bed, exe, case):
    suite = case.get("suite")
    if suite == "http_range":
        h = case["range"]
        req = mocked({} if h is None else {"Range": h})
        try:
            s = req.http_range
            impl = f"OK {dec(s.start)} {dec(s.stop)}"
        except ValueError:
            impl = "VE"
        m = fw.run_model(exe, ["HR " + opt_csv(h)])[0] if exe else None
        bad = oracle_http_range(h, impl)
        return {"impl": impl, "model": m, "violates": bool(bad), "why": bad}
    if suite == "range_response":
        resp, model, bad = run_range_case(bed, exe, case)
        return {"impl": repr(canon_impl_resp(resp)), "model": None if model is None else repr(model), "violates": bool(bad), "why": bad}
    if suite == "traversal":
        obs, model, ps = run_traversal_case(bed, exe, case["follow"], case["show_index"], case["target"], case.get("accept_encoding"))
        bad = oracle_traversal(bed, case["follow"], case["show_index"], case["target"], obs)
        case = dict(case, realpath_gave_up_at_loop=realpath_gave_up(bed, case["follow"], case["show_index"], ps),
                    served_encoding=obs[1] if obs[0] == "FILE" else None)
        return {"impl": repr(obs), "model": None if model is None else repr(model), "path_safe": ps, "violates": bool(bad), "why": bad,
                "case": case}
    return {"violates": None, "note": f"suite {suite!r} is replayed from the seed"}


def _timed(ctx, name, fn, *a):
    import time
    t = time.time()
    fn(*a)
    ctx.notes.append(f"suite {name}: {time.time() - t:.1f}s")


def run(ctx):
    ok, exe = build_model()
    ctx.oblige("model-runner-build", "correspondence", ok, "" if ok else exe)
    if not ok:
        exe = None          # the oracles below still search the implementation for a failing input
    bed = Bed()
    try:
        _timed(ctx, "corpus", run_corpus, ctx, exe, bed)
        _timed(ctx, "http_range", suite_http_range, ctx, exe)
        if exe:
            _timed(ctx, "pathfuncs", suite_pathfuncs, ctx, exe, bed)
        _timed(ctx, "range_response", suite_range_response, ctx, exe, bed)
        _timed(ctx, "traversal", suite_traversal, ctx, exe, bed)
        if bed.loop.exceptions:
            ctx.notes.append(f"{len(bed.loop.exceptions)} loop exception-handler calls, first: {str(bed.loop.exceptions[0])[:300]}")
    finally:
        bed.close()


def replay(ctx, case):
    ok, exe = build_model()
    bed = Bed()
    try:
        return _replay_on(bed, exe if ok else None, case)
    finally:
        bed.close()
