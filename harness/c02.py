"""C02 — wire round trip: what one aiohttp endpoint sends, the other receives.

Priority-1 machinery: an end-to-end differential harness on the REAL endpoints.  A real
aiohttp.ClientSession talks to a real web.Application through an in-memory duplex pipe that
re-segments the byte stream in BOTH directions (one-shot, byte-at-a-time, random k-cuts, cuts
around CRLF, cuts around the 2 KiB / 64 KiB thresholds), honours pause_reading()/pause_writing()
flow control, and runs on the virtual-time loop, so a hang is detected by the virtual clock.

The oracle is evaluated on IMPLEMENTATION output only:
  * the handler observes the same method, request target (raw and decoded path/query), version,
    supplied header fields (names case-insensitively, values exactly), cookies and body bytes;
  * the caller observes the same status, reason, version, supplied headers and body bytes;
  * the two ends agree on keep-alive (both reusable - and the next request really reuses the
    transport - or both closed), a requested close is honoured, and nothing hangs;
  * no exception escapes other than the expected refusals.
A second suite ties coq/Model/Wire.v to the code: for the modelled subset the bytes the real client
puts on the wire are compared with the extracted model's `client_serialize`, and the model's parse of
those bytes with what the real handler saw.
"""
from __future__ import annotations

import asyncio
import concurrent.futures
import http
import io
import json
import logging
import os
import random
import shutil
import tempfile
import zlib

from harness.common import framework as fw

PROP = "C02"
GENERATED = ["WireGen.v", "WriterGen.v", "HttpGen.v"]
RULE = ("requests and responses are generated from a grammar (methods incl. HEAD/OPTIONS/custom tokens; URL "
        "shapes with escapes/non-ASCII/queries; header sets; cookies; body kinds none/bytes/str/json/form/"
        "multipart/BytesIO/file/async-generator; chunked / compress / Expect: 100-continue; HTTP/1.0 and 1.1; "
        "keep-alive choices; response kinds fixed/text/json/stream/payload/file/HTTPException with statuses "
        "incl. 204/304, reasons, compression, chunking, explicit length, HEAD) times a segmentation policy "
        "per direction; sizes are drawn around 0, 2 KiB, 64 KiB and 256 KiB.  Every case is one full "
        "exchange plus a follow-up request on the same session.  Non-trivial = the exchange completed "
        "(no refusal); distinct by hash of (what the handler saw, what the caller saw, keep-alive outcome).")
TRUSTED = [
    "harness/c02.py: in-memory duplex pipe (segmentation, flow control, EOF propagation), grammar and oracle: "
    "sampled, not proved",
    "yarl (URL quoting/unquoting on both ends), http.cookies, zlib: real libraries at both ends; the oracle "
    "compares decoded path/query/cookies, so a symmetric library error is not seen",
    "executor work (file reads, large compress calls) runs inline on the loop thread (harness-side executor) so "
    "that the virtual clock is sound; web_fileresponse.NOSENDFILE is forced on (aiohttp's own copy loop)",
    "translator/gen_wire.py (constant tables and ast shape checks feeding Generated/WireGen.v)",
    "extraction: ExtrOcamlBasic only; ocaml/common/conv.ml + ocaml/C02/driver.ml",
    "the C accelerators (_http_parser, _http_writer) are out of scope (AIOHTTP_NO_EXTENSIONS=1)",
]
ASSUMPTIONS = [
    "Pure-Python parser/writer (AIOHTTP_NO_EXTENSIONS=1); CPython 3.12 (transport.writelines is not used).",
    "Segmentations are sampled (policies x random cuts), not enumerated; the all-segmentations claim is the Coq "
    "theorem C02_request_roundtrip for the modelled request subset.",
    "The response direction is covered by the end-to-end harness and by the response-head framing model only.",
]

LINGERING_TIME = 10.0        # web.RequestHandler default lingering_time
HANG = 60.0                  # virtual seconds; nothing in an exchange sleeps, so this is a hang
BASE_HOST = "example.test"
SIZES = [0, 1, 2, 3, 17, 100, 1000, 2047, 2048, 2049, 4096, 16384, 65535, 65536, 65537, 70000, 131073, 262147]
SIZE_W = [6, 6, 4, 4, 8, 10, 8, 4, 4, 4, 4, 3, 2, 2, 2, 2, 1, 1]


# ------------------------------------------------------------------------------------------------
# deterministic data

_bytes_cache: dict = {}


def gen_bytes(pat: str, size: int, seed: int) -> bytes:
    key = (pat, size, seed & 0xFF)
    b = _bytes_cache.get(key)
    if b is None:
        if pat == "rand":
            b = random.Random(key[2]).randbytes(size)
        elif pat == "zeros":
            b = bytes(size)
        elif pat == "crlf":
            unit = b"\r\n0\r\n\r\nHTTP/1.1 200 OK\r\nContent-Length: 0\r\n\r\nGET /x HTTP/1.1\r\nHost: h\r\n\r\n5\r\n"
            b = (unit * (size // len(unit) + 1))[:size]
        else:  # text
            unit = b"The quick brown fox jumps over the lazy dog. "
            b = (unit * (size // len(unit) + 1))[:size]
        if len(_bytes_cache) > 300:
            _bytes_cache.clear()
        _bytes_cache[key] = b
    return b


TEXT_ALPHA = "abcdefghij KLMNOP0123456789-_.~!*'();:@&=+$,/?#[]éüß→中\U0001d11e\r\n\t\"\\%"


def gen_text(size: int, seed: int) -> str:
    r = random.Random(seed)
    return "".join(r.choice(TEXT_ALPHA) for _ in range(size))


def gen_json(seed: int, depth=0):
    r = random.Random(seed)

    def val(d):
        k = r.randint(0, 6 if d < 2 else 3)
        if k == 0:
            return r.randint(-10**12, 10**12)
        if k == 1:
            return gen_text(r.randint(0, 12), r.getrandbits(30))
        if k == 2:
            return r.choice([True, False, None])
        if k == 3:
            return ""
        if k == 4:
            return [val(d + 1) for _ in range(r.randint(0, 4))]
        return {gen_text(r.randint(1, 6), r.getrandbits(30)): val(d + 1) for _ in range(r.randint(0, 4))}

    return {"k": val(0), "l": [val(1) for _ in range(r.randint(0, 3))]}


def split_sizes(total: int, rng, maxparts=6, allow_empty=True):
    n = rng.randint(1, maxparts)
    cuts = sorted(rng.randint(0, total) for _ in range(n - 1))
    sizes = [b - a for a, b in zip([0] + cuts, cuts + [total])]
    if allow_empty and rng.random() < 0.3:
        sizes.insert(rng.randint(0, len(sizes)), 0)
    return sizes


def pieces_of(raw: bytes, sizes):
    out, p = [], 0
    for s in sizes:
        out.append(raw[p:p + s])
        p += s
    return out


class ShortReadStream(io.RawIOBase):
    """Raw stream without fileno whose read(n)/readinto hand out random non-empty pieces shorter than requested
    before EOF (seeded from the case).  `seekable=False`: tell()/seek() raise like a pipe's."""

    def __init__(self, data: bytes, seed: int, maxpiece: int, seekable: bool, fault=None, on_cancel=None):
        super().__init__()
        self._data, self._pos, self._rng, self._max, self._seekable = data, 0, random.Random(seed), max(1, maxpiece), seekable
        self._fault, self._on_cancel = fault, on_cancel

    def readable(self):
        return True

    def seekable(self):
        return self._seekable

    def tell(self):
        if not self._seekable:
            raise io.UnsupportedOperation("tell")
        return self._pos

    def seek(self, pos, whence=0):
        if not self._seekable:
            raise io.UnsupportedOperation("seek")
        self._pos = {0: pos, 1: self._pos + pos, 2: len(self._data) + pos}[whence]
        return self._pos

    def readinto(self, b):
        left = len(self._data) - self._pos
        if self._fault is not None and self._pos >= self._fault["after"]:
            raise make_fault(self._fault["exc"])
        if left <= 0 or len(b) == 0:
            return 0
        n = min(len(b), left, self._rng.randint(1, self._max))
        if self._fault is not None:
            n = min(n, max(1, self._fault["after"] - self._pos))
        b[:n] = self._data[self._pos:self._pos + n]
        self._pos += n
        return n


def pre_encode(raw: bytes, coding: str) -> bytes:
    """Body as a peer that is not aiohttp's writer would send it: already content-coded."""
    if coding == "gzip":
        c = zlib.compressobj(wbits=16 + zlib.MAX_WBITS)
        return c.compress(raw) + c.flush()
    return zlib.compress(raw)


ENC_TOKENS = {"gzip": ("gzip", "GZip", "GZIP", "Gzip"), "deflate": ("deflate", "Deflate", "DEFLATE", "deFlate")}


def make_fault(name):
    """The exception a failing body source raises."""
    if name == "OSError":
        return OSError(5, "Input/output error (injected)")
    if name == "OSError-noerrno":
        return OSError("injected")
    return {"RuntimeError": RuntimeError, "ValueError": ValueError, "KeyError": KeyError}[name]("injected body source failure")


def short_stream(b, seekable):
    raw = gen_bytes(b["pat"], b["size"], b["seed"])
    maxpiece = b.get("maxpiece", 4096)
    if b["size"] // maxpiece > 3000:
        maxpiece = b["size"] // 3000 + 1
    return ShortReadStream(raw, b["seed"], maxpiece, seekable, fault=b.get("fault"))


def pipe_stream(b, cleanups):
    """Read end of a real os.pipe() opened with buffering=0, fed by a writer thread in seeded chunks."""
    import threading
    raw = gen_bytes(b["pat"], b["size"], b["seed"])
    rfd, wfd = os.pipe()
    rng = random.Random(b["seed"])

    def feed():
        try:
            p = 0
            while p < len(raw):
                n = rng.choice((1, 100, 4096, 30000, 65536, 100000))
                os.write(wfd, raw[p:p + n])
                p += n
        except OSError:
            pass
        finally:
            try:
                os.close(wfd)
            except OSError:
                pass

    f = os.fdopen(rfd, "rb", buffering=0)
    t = threading.Thread(target=feed, daemon=True)
    t.start()

    def cleanup():
        try:
            f.close()            # a blocked writer gets EPIPE
        except OSError:
            pass
        t.join(5)
    cleanups.append(cleanup)
    return f


STREAM_KINDS = ("rawio", "rawio_unseek", "pipe")


# ------------------------------------------------------------------------------------------------
# the duplex pipe

class Segmenter:
    """Chooses how many of the buffered bytes are delivered next (>= 1)."""

    THRESH = (0, 1, 2047, 2048, 2049, 65535, 65536, 65537)

    def __init__(self, spec: dict, seed: int):
        self.kind = spec["kind"]
        self.spec = spec
        self.rng = random.Random(seed)
        self.pos = 0
        self.hdr_end = None
        self.tail = b""
        self.cuts: list[int] = sorted(set(self.THRESH)) if self.kind == "thresh" else []

    def next(self, buf) -> int:
        n = self._next(buf)
        n = max(1, min(int(n), len(buf)))
        if self.kind == "thresh" and self.hdr_end is None:
            w = self.tail + bytes(buf[:n])
            j = w.find(b"\r\n\r\n")
            if j >= 0:
                self.hdr_end = self.pos - len(self.tail) + j + 4
                if self.hdr_end < self.pos + n:
                    n = self.hdr_end - self.pos if self.hdr_end > self.pos else n
                self.cuts = sorted(set(self.cuts) | {self.hdr_end + t for t in self.THRESH})
            self.tail = w[-3:]
        self.pos += n
        return n

    def _next(self, buf) -> int:
        k, r, L = self.kind, self.rng, len(buf)
        if k == "mixed":
            k = r.choice(("oneshot", "byte1", "kcuts", "crlf", "kcuts", "crlf"))
        if k == "oneshot":
            return L
        if k == "byte":
            return 1 if self.pos < self.spec.get("limit", 2500) else L
        if k == "byte1":
            return 1
        if k == "kcuts":
            return r.choice(self.spec.get("sizes") or (1, 2, 3, 5, 7, 16, 64, 100, 1000, 1460, 4096, 16384, 65536))
        if k == "crlf":
            i = buf.find(b"\r\n", 0, 4096)
            if i < 0:
                if L > 1 and buf[min(L, 4096) - 1] == 13:
                    return min(L, 4096) - 1          # stop right before a CR whose LF is not here yet
                return min(L, 4096)
            if i == 0:
                return r.choice((1, 2, 2))
            return r.choice((i, i + 1, i + 2))
        if k == "thresh":
            for c in self.cuts:
                if c > self.pos:
                    return c - self.pos
            return L
        raise ValueError(k)


class End(asyncio.Transport):
    """One end of an in-memory duplex connection.  Bytes written here are delivered to the peer's
    protocol in segments chosen by `seg`, one segment per loop iteration; close() flushes, then the
    peer sees EOF (eof_received, then its transport closes) like a socket transport."""

    HIGH, LOW = 65536, 16384

    def __init__(self, loop, name, seg: Segmenter):
        super().__init__({"peername": ("127.0.0.1", 50000), "sockname": ("127.0.0.1", 80), "sslcontext": None})
        self.loop, self.name, self.seg = loop, name, seg
        self.protocol = None
        self.peer: "End" = None  # type: ignore[assignment]
        self.out = bytearray()
        self.total = bytearray()
        self.closed = False
        self.lost = False
        self.reading = True
        self.wpaused = False
        self.eof_sent = False
        self.sched = False
        self.nseg = 0
        self.closed_at = None

    def set_protocol(self, p):
        self.protocol = p

    def get_protocol(self):
        return self.protocol

    def is_closing(self):
        return self.closed

    def write(self, data):
        if self.closed or not data:
            return
        self.out += data
        self.total += data
        if not self.wpaused and len(self.out) > self.HIGH:
            self.wpaused = True
            self.protocol.pause_writing()
        self.kick()

    def writelines(self, chunks):
        self.write(b"".join(bytes(c) for c in chunks))

    def can_write_eof(self):
        return False

    def get_write_buffer_size(self):
        return len(self.out)

    def get_write_buffer_limits(self):
        return (self.LOW, self.HIGH)

    def set_write_buffer_limits(self, high=None, low=None):
        pass

    def pause_reading(self):
        self.reading = False

    def resume_reading(self):
        self.reading = True
        self.peer.kick()

    def is_reading(self):
        return self.reading

    def close(self):
        if self.closed:
            return
        self.closed = True
        self.closed_at = self.loop.time()
        self.loop.call_soon(self._lost, None)
        self.kick()

    def abort(self):
        self.out.clear()
        self.close()

    def _lost(self, exc):
        if not self.lost:
            self.lost = True
            if self.protocol is not None:
                self.protocol.connection_lost(exc)

    def kick(self):
        if not self.sched:
            self.sched = True
            self.loop.call_soon(self.pump)

    def idle(self):
        return not self.sched and (not self.out or not self.peer.reading or self.peer.closed)

    def pump(self):
        self.sched = False
        peer = self.peer
        if peer.closed:
            self.out.clear()
            return
        if not peer.reading:
            return
        if self.out:
            n = self.seg.next(self.out)
            data = bytes(self.out[:n])
            del self.out[:n]
            self.nseg += 1
            if self.wpaused and len(self.out) <= self.LOW and not self.closed:
                self.wpaused = False
                self.protocol.resume_writing()
            peer.protocol.data_received(data)
            self.kick()
        elif self.closed and not self.eof_sent:
            self.eof_sent = True
            if not peer.protocol.eof_received():
                peer.close()


class _Inline(concurrent.futures.ThreadPoolExecutor):
    """run_in_executor work runs inline (harness-side): no real threads, so the virtual clock is sound."""

    def submit(self, fn, *a, **k):  # type: ignore[override]
        f: concurrent.futures.Future = concurrent.futures.Future()
        try:
            f.set_result(fn(*a, **k))
        except BaseException as e:  # noqa
            f.set_exception(e)
        return f


class _LogCatch(logging.Handler):
    def __init__(self):
        super().__init__(level=logging.WARNING)
        self.records: list = []

    def emit(self, record):
        msg = record.getMessage()
        if record.exc_info and record.exc_info[1] is not None:
            msg += f" [{type(record.exc_info[1]).__name__}: {record.exc_info[1]}]"
        self.records.append((record.levelname, msg[:300]))


# ------------------------------------------------------------------------------------------------
# test bed

class Bed:
    def __init__(self):
        from harness.common.loop import VLoop, patched_time
        self.loop = VLoop()
        asyncio.set_event_loop(self.loop)
        self.loop.set_default_executor(_Inline(max_workers=1))
        self.pt = patched_time(self.loop)
        self.pt.__enter__()
        import aiohttp.web_fileresponse as wf
        self._old_nosendfile = wf.NOSENDFILE
        wf.NOSENDFILE = True
        self.tmp = tempfile.mkdtemp(prefix="c02-", dir="/tmp")
        self.files: dict = {}
        self.cur: dict | None = None
        self.srv: dict = {}
        self.cleanups: list = []
        self.log = _LogCatch()
        self._loggers = []
        for n in ("aiohttp.server", "aiohttp.web", "aiohttp.access", "aiohttp.client", "aiohttp.internal", "asyncio"):
            lg = logging.getLogger(n)
            self._loggers.append((lg, lg.level, lg.propagate))
            lg.addHandler(self.log)
            lg.propagate = False
        self.runner = None
        self.loop.run_until_complete(self._start())

    async def _start(self):
        from aiohttp import web
        app = web.Application(client_max_size=1 << 22)
        app.router.add_route("*", "/{tail:.*}", self._handler)
        self.runner = web.AppRunner(app, access_log=None)
        await self.runner.setup()

    def close(self):
        import aiohttp.web_fileresponse as wf
        try:
            self.loop.run_until_complete(self.runner.cleanup())
            pending = [t for t in asyncio.all_tasks(self.loop) if not t.done()]
            for t in pending:
                t.cancel()
            if pending:
                self.loop.run_until_complete(asyncio.gather(*pending, return_exceptions=True))
            self.loop.run_until_complete(self.loop.shutdown_asyncgens())
        except Exception:  # noqa
            pass
        finally:
            wf.NOSENDFILE = self._old_nosendfile
            for lg, lvl, prop in self._loggers:
                lg.removeHandler(self.log)
                lg.propagate = prop
            self.pt.__exit__(None, None, None)
            asyncio.set_event_loop(None)
            self.loop.close()
            shutil.rmtree(self.tmp, ignore_errors=True)

    def file_for(self, pat, size, seed):
        key = (pat, size, seed & 0xFF)
        p = self.files.get(key)
        if p is None:
            p = os.path.join(self.tmp, f"f{len(self.files)}.bin")
            with open(p, "wb") as f:
                f.write(gen_bytes(pat, size, seed))
            self.files[key] = p
        return p

    # -- server side -------------------------------------------------------------------------
    async def _handler(self, request):
        from aiohttp import web
        if request.path == "/__second":
            self.srv2 = {"method": request.method}
            return web.Response(body=b"second", headers={"X-Second": "1"})
        case = self.cur
        obs = self.srv
        obs["calls"] = obs.get("calls", 0) + 1
        obs.update(method=request.method, raw_path=request.raw_path, path=request.path,
                   query=[[k, v] for k, v in request.query.items()],
                   version=f"{request.version.major}.{request.version.minor}",
                   headers=[[k.decode("utf-8", "surrogateescape"), v.decode("utf-8", "surrogateescape")] for k, v in request.raw_headers],
                   keep_alive=request.keep_alive, cookies=dict(request.cookies))
        rs = case["resp"]
        mode = rs.get("read", "read")
        try:
            if mode == "read":
                obs["body"] = await request.read()
            elif mode == "iter":
                parts = []
                n = rs.get("read_n", 0)
                it = request.content.iter_chunked(n) if n else request.content.iter_any()
                async for ch in it:
                    parts.append(ch)
                obs["body"] = b"".join(parts)
            elif mode == "text":
                obs["text"] = await request.text()
            elif mode == "json":
                obs["json"] = await request.json()
            elif mode == "post":
                post = await request.post()
                items = []
                for k, v in post.items():
                    if isinstance(v, web.FileField):
                        items.append([k, {"filename": v.filename, "content_type": v.content_type,
                                          "data": v.file.read().hex()}])
                    elif isinstance(v, (bytes, bytearray)):
                        items.append([k, {"bytes": bytes(v).hex()}])
                    else:
                        items.append([k, v])
                obs["post"] = items
            obs["read_done"] = True
        except Exception as e:  # noqa
            obs["read_exc"] = f"{type(e).__name__}: {e}"
            raise
        return await self._respond(request, rs)

    async def _respond(self, request, rs):
        from aiohttp import web
        from multidict import CIMultiDict
        kind = rs["kind"]
        status = rs.get("status", 200)
        reason = rs.get("reason")
        headers = CIMultiDict([(k, v) for k, v in rs.get("headers", [])])
        b = rs.get("body") or {"pat": "text", "size": 0, "seed": 0}
        raw = gen_bytes(b["pat"], b["size"], b["seed"])
        if kind == "fixed" and rs.get("pre_encoded"):
            headers.add("Content-Encoding", rs["pre_encoded"]["token"])
            resp = web.Response(body=pre_encode(raw, rs["pre_encoded"]["coding"]), status=status, reason=reason, headers=headers)
        elif kind == "fixed":
            resp = web.Response(body=raw if (raw or not rs.get("none_body")) else None, status=status, reason=reason, headers=headers)
        elif kind == "text":
            resp = web.Response(text=gen_text(b["size"], b["seed"]), status=status, reason=reason, headers=headers)
        elif kind == "json":
            resp = web.json_response(gen_json(b["seed"]), status=status, reason=reason, headers=headers)
        elif kind == "exc":
            cls = {404: web.HTTPNotFound, 403: web.HTTPForbidden, 400: web.HTTPBadRequest, 409: web.HTTPConflict,
                   500: web.HTTPInternalServerError, 503: web.HTTPServiceUnavailable, 302: web.HTTPFound,
                   301: web.HTTPMovedPermanently, 304: web.HTTPNotModified, 204: web.HTTPNoContent,
                   200: web.HTTPOk, 202: web.HTTPAccepted}[status]
            kw = dict(headers=headers, reason=reason)
            if status in (301, 302):
                raise cls("/elsewhere?x=1", text=None if rs.get("none_body") else gen_text(b["size"], b["seed"]), **kw)
            if status in (204, 304):
                raise cls(**kw)
            raise cls(text=None if rs.get("none_body") else gen_text(b["size"], b["seed"]), **kw)
        elif kind == "payload":
            pk = rs.get("payload", "bytesio")
            if pk == "bytesio":
                body = io.BytesIO(raw)
            elif pk == "file":
                body = open(self.file_for(b["pat"], b["size"], b["seed"]), "rb")
            elif pk == "stringio":
                body = io.StringIO(gen_text(b["size"], b["seed"]))
            elif pk in ("rawio", "rawio_unseek"):
                body = short_stream(dict(b, maxpiece=rs.get("maxpiece", 4096)), pk == "rawio")
            elif pk == "pipe":
                body = pipe_stream(b, self.cleanups)
            else:  # agen
                ps = pieces_of(raw, rs.get("pieces") or [len(raw)])

                async def agen():
                    for p in ps:
                        yield p
                body = agen()
            resp = web.Response(body=body, status=status, reason=reason, headers=headers)
        elif kind == "file":
            resp = web.FileResponse(self.file_for(b["pat"], b["size"], b["seed"]), status=status, reason=reason,
                                    headers=headers, chunk_size=rs.get("chunk_size", 256 * 1024))
        elif kind == "stream":
            resp = web.StreamResponse(status=status, reason=reason, headers=headers)
        else:
            raise ValueError(kind)
        for ck in rs.get("set_cookies", []):
            resp.set_cookie(ck[0], ck[1])
        comp = rs.get("compression")
        if comp:
            resp.enable_compression(None if comp == "auto" else web.ContentCoding(comp))
        if rs.get("chunked"):
            resp.enable_chunked_encoding()
        if rs.get("force_close"):
            resp.force_close()
        if kind == "stream":
            if rs.get("content_length"):
                resp.content_length = max(0, len(raw) - rs.get("cl_short", 0))
            await resp.prepare(request)
            ps = pieces_of(raw, rs.get("pieces") or [len(raw)])
            if not rs.get("no_write"):
                last = None
                if rs.get("eof_with_data") and ps:
                    last = ps.pop()
                for p in ps:
                    await resp.write(p)
                if last is not None:
                    await resp.write_eof(last)
                elif rs.get("explicit_eof"):
                    await resp.write_eof()
        return resp

    # -- client side -------------------------------------------------------------------------
    def _connector(self, case, conns):
        import aiohttp
        bed = self
        sg = case["seg"]

        class PipeConnector(aiohttp.TCPConnector):
            async def _create_connection(self, req, traces, timeout):
                proto = self._factory()
                i = len(conns)
                c = End(bed.loop, "c", Segmenter(sg["c2s"], sg["seed"] * 4 + 2 * i))
                s = End(bed.loop, "s", Segmenter(sg["s2c"], sg["seed"] * 4 + 2 * i + 1))
                c.peer, s.peer = s, c
                sp = bed.runner.server()
                c.protocol, s.protocol = proto, sp
                sp.connection_made(s)
                proto.connection_made(c)
                conns.append((c, s))
                return proto

        return PipeConnector(force_close=bool(case["req"].get("force_close")))

    def _request_kwargs(self, rq):
        from aiohttp import FormData
        from multidict import CIMultiDict
        kw: dict = {"allow_redirects": False}
        if rq.get("headers"):
            kw["headers"] = CIMultiDict([(k, v) for k, v in rq["headers"]])
        if rq.get("conn"):
            kw.setdefault("headers", CIMultiDict()).add("Connection", rq["conn"])
        if rq.get("params") is not None:
            kw["params"] = [(k, v) for k, v in rq["params"]]
        if rq.get("cookies") is not None:
            kw["cookies"] = dict(rq["cookies"])
        for k in ("chunked", "compress"):
            if rq.get(k) is not None:
                kw[k] = rq[k]
        if rq.get("expect100"):
            kw["expect100"] = True
        if rq.get("skip_auto"):
            kw["skip_auto_headers"] = list(rq["skip_auto"])
        if rq.get("auto_decompress") is False:
            kw["auto_decompress"] = False
        b = rq.get("body") or {"kind": "none"}
        k = b["kind"]
        if k == "none":
            return kw
        if k in ("bytes", "bytearray", "memoryview", "bytesio", "file", "agen"):
            raw = gen_bytes(b["pat"], b["size"], b["seed"])
            if k == "bytes" and rq.get("pre_encoded"):
                kw["data"] = pre_encode(raw, rq["pre_encoded"]["coding"])
                kw.setdefault("headers", CIMultiDict()).add("Content-Encoding", rq["pre_encoded"]["token"])
            elif k == "bytes":
                kw["data"] = raw
            elif k == "bytearray":
                kw["data"] = bytearray(raw)
            elif k == "memoryview":
                kw["data"] = memoryview(raw)
            elif k == "bytesio":
                kw["data"] = io.BytesIO(raw)
            elif k == "file":
                kw["data"] = open(self.file_for(b["pat"], b["size"], b["seed"]), "rb")
            else:
                ps = pieces_of(raw, b.get("pieces") or [len(raw)])
                fault = b.get("fault")
                bed = self

                async def agen():
                    for i, p in enumerate(ps):
                        if fault is not None and i == fault["after"]:
                            if fault["exc"] == "cancel":
                                bed.req_task.cancel()
                                await asyncio.sleep(0)
                                await asyncio.sleep(0)
                            else:
                                raise make_fault(fault["exc"])
                        yield p
                    if fault is not None and fault["after"] >= len(ps):
                        if fault["exc"] == "cancel":
                            bed.req_task.cancel()
                            await asyncio.sleep(0)
                            await asyncio.sleep(0)
                        else:
                            raise make_fault(fault["exc"])
                kw["data"] = agen()
        elif k in ("rawio", "rawio_unseek"):
            kw["data"] = short_stream(b, k == "rawio")
        elif k == "pipe":
            kw["data"] = pipe_stream(b, self.cleanups)
        elif k == "str":
            kw["data"] = gen_text(b["size"], b["seed"])
        elif k == "stringio":
            kw["data"] = io.StringIO(gen_text(b["size"], b["seed"]))
        elif k == "json":
            kw["json"] = gen_json(b["seed"])
        elif k == "form":
            if b.get("as_dict"):
                kw["data"] = {f[0]: f[1] for f in b["fields"]}
            else:
                fd = FormData()
                for f in b["fields"]:
                    fd.add_field(f[0], f[1])
                kw["data"] = fd
        elif k == "multipart":
            fd = FormData()
            for f in b["fields"]:
                if isinstance(f[1], dict):
                    raw = gen_bytes(f[1]["pat"], f[1]["size"], f[1]["seed"])
                    fd.add_field(f[0], io.BytesIO(raw) if f[1].get("io") else raw, filename=f[1]["filename"],
                                 content_type=f[1].get("content_type"))
                else:
                    fd.add_field(f[0], f[1])
            kw["data"] = fd
        else:
            raise ValueError(k)
        return kw

    def url_of(self, rq):
        from yarl import URL
        host = rq.get("host", BASE_HOST)
        port = rq.get("port")
        if rq.get("url") is not None:          # a URL given as one string (yarl canonicalises it)
            return URL(f"http://{host}{':%d' % port if port else ''}{rq['url']}")
        kw = dict(scheme="http", host=host, path=rq["path"])
        if port:
            kw["port"] = port
        u = URL.build(**kw)
        if rq.get("query"):
            u = u.with_query([(k, v) for k, v in rq["query"]])
        if rq.get("fragment"):
            u = u.with_fragment(rq["fragment"])
        return u

    async def _quiesce(self, conns, rounds=400000):
        quiet = 0
        for _ in range(rounds):
            await asyncio.sleep(0)
            if all(c.idle() and s.idle() for c, s in conns) and not any(
                    (c.closed != c.lost) or (s.closed != s.lost) for c, s in conns):
                quiet += 1
                if quiet >= 4:
                    return True
            else:
                quiet = 0
        return False

    async def _exchange(self, case):
        import aiohttp
        from aiohttp.http_writer import HttpVersion10, HttpVersion11
        rq = case["req"]
        conns: list = []
        cl: dict = {}
        out = {"client": cl, "conns": conns}
        t0 = self.loop.time()
        try:
            url = self.url_of(rq)
            kw = self._request_kwargs(rq)
        except Exception as e:  # noqa
            cl["build_exc"] = f"{type(e).__name__}: {e}"
            return out
        connector = self._connector(case, conns)
        session = aiohttp.ClientSession(connector=connector,
                                        version=HttpVersion10 if rq.get("version") == "1.0" else HttpVersion11)
        try:
            cl["url_target"] = url.with_fragment(None).extend_query(kw.get("params") or ()).raw_path_qs
            cl["host_header"] = url.host_port_subcomponent
            async def do_request():
                cl["stage"] = "request"
                async with session.request(rq["method"], url, **kw) as resp:
                    cl["stage"] = "body"
                    cl.update(status=resp.status, reason=resp.reason,
                              version=f"{resp.version.major}.{resp.version.minor}",
                              headers=[[k.decode("utf-8", "surrogateescape"), v.decode("utf-8", "surrogateescape")] for k, v in resp.raw_headers],
                              cookies={k: m.value for k, m in resp.cookies.items()})
                    mode = case.get("cread", "read")
                    if mode == "read":
                        cl["body"] = await resp.read()
                    elif mode == "iter":
                        n = case.get("cread_n", 0)
                        it = resp.content.iter_chunked(n) if n else resp.content.iter_any()
                        parts = []
                        async for ch in it:
                            parts.append(ch)
                        cl["body"] = b"".join(parts)
                    elif mode == "none":
                        pass
                    cl["stage"] = "done"

            self.req_task = self.loop.create_task(do_request())
            try:
                async with asyncio.timeout(HANG):
                    await self.req_task
            except TimeoutError:
                cl["hang"] = cl.get("stage")
            except asyncio.CancelledError:
                if not self.req_task.cancelled():
                    raise
                cl["exc"] = "CancelledError"
                cl["exc_text"] = "request task cancelled"
            except Exception as e:  # noqa
                cl["exc"] = type(e).__name__
                cl["exc_text"] = str(e)[:300]
            if not self.req_task.done():
                self.req_task.cancel()
                try:
                    await self.req_task
                except BaseException:  # noqa
                    pass
            cl["elapsed"] = self.loop.time() - t0
            # the client's decision, taken when the response was complete (before the peer's close can arrive)
            cl["pooled0"] = bool(conns) and any(p.transport is conns[0][0] and p.is_connected()
                                                for dq in connector._conns.values() for (p, _t) in dq)
            async def follow_up(method):
                self.srv2 = None
                try:
                    async with asyncio.timeout(HANG):
                        async with session.request(method, f"http://{rq.get('host', BASE_HOST)}{':%d' % rq['port'] if rq.get('port') else ''}/__second") as r2:
                            b2 = await r2.read()
                            cl["second"] = {"status": r2.status, "body": b2, "n_conns": len(conns)}
                except TimeoutError:
                    cl["second"] = {"hang": True, "n_conns": len(conns)}
                except Exception as e:  # noqa
                    cl["second"] = {"exc": type(e).__name__, "text": str(e)[:200], "n_conns": len(conns)}

            eager = bool(case.get("eager_second")) and "hang" not in cl
            if eager:
                # back-to-back: the next request (not idempotent: no silent retry) goes out before anything still in
                # flight from the first exchange has arrived
                await follow_up("POST")
            cl["quiet"] = await self._quiesce(conns)
            cl["c2s_len"] = len(conns[0][0].total) if conns else 0
            cl["s2c_len"] = len(conns[0][1].total) if conns else 0
            # keep-alive outcome
            pooled = [p for dq in connector._conns.values() for (p, _t) in dq]
            st = {"n_conns": len(conns), "pooled": len(pooled),
                  "client_open": bool(conns) and (not conns[0][0].closed) and any(p.transport is conns[0][0] and p.is_connected() for p in pooled),
                  "client_transport_closed": bool(conns) and conns[0][0].closed,
                  "server_open": bool(conns) and not conns[0][1].closed,
                  "acquired": len(connector._acquired)}
            cl["ka"] = st
            if "hang" not in cl and not eager:
                await follow_up("GET")
        finally:
            try:
                await session.close()
            except Exception as e:  # noqa
                cl["close_exc"] = repr(e)
            await self._quiesce(conns)
        return out

    def run_case(self, case):
        self.cur = case
        self.srv = {}
        self.log.records.clear()
        self.loop.exceptions.clear()
        try:
            out = self.loop.run_until_complete(self._exchange(case))
        finally:
            for fn in self.cleanups:
                fn()
            self.cleanups.clear()
        out["server"] = self.srv
        out["logs"] = list(self.log.records)
        out["loop_exceptions"] = [str(c.get("message")) + " " + repr(c.get("exception")) for c in self.loop.exceptions]
        out["wire_c2s"] = bytes(out["conns"][0][0].total) if out["conns"] else b""
        out["wire_s2c"] = bytes(out["conns"][0][1].total) if out["conns"] else b""
        out["segs"] = [(c.nseg, s.nseg) for c, s in out["conns"]]
        self.cur = None
        return out


# ------------------------------------------------------------------------------------------------
# oracle (implementation output only)

AUTO_REQ = {"host", "accept", "accept-encoding", "user-agent", "content-length", "content-type",
            "transfer-encoding", "connection", "cookie", "expect", "content-encoding"}
AUTO_RESP = {"content-type", "content-length", "transfer-encoding", "date", "server", "connection",
             "content-encoding", "set-cookie", "etag", "last-modified", "accept-ranges", "location", "vary",
             "content-disposition"}
EMPTY_STATUS = {204, 304}


def req_body_expect(rq):
    """('bytes', b) | ('text', s) | ('json', obj) | ('post', items)"""
    b = rq.get("body") or {"kind": "none"}
    k = b["kind"]
    if k == "none":
        return ("bytes", b"")
    if k in ("bytes", "bytearray", "memoryview", "bytesio", "file", "agen") + STREAM_KINDS:
        return ("bytes", gen_bytes(b["pat"], b["size"], b["seed"]))
    if k in ("str", "stringio"):
        return ("bytes", gen_text(b["size"], b["seed"]).encode("utf-8"))
    if k == "json":
        return ("json", gen_json(b["seed"]))
    if k == "form":
        return ("post", [[f[0], f[1]] for f in b["fields"]])
    if k == "multipart":
        items = []
        for f in b["fields"]:
            if isinstance(f[1], dict):
                items.append([f[0], {"filename": f[1]["filename"],
                                     "content_type": f[1].get("content_type") or "application/octet-stream",
                                     "data": gen_bytes(f[1]["pat"], f[1]["size"], f[1]["seed"]).hex()}])
            else:
                items.append([f[0], f[1]])
        return ("post", items)
    raise ValueError(k)


def resp_body_expect(case):
    rs, rq = case["resp"], case["req"]
    status = rs.get("status", 200)
    if rq["method"].upper() == "HEAD" or status in EMPTY_STATUS:
        return b""
    kind = rs["kind"]
    b = rs.get("body") or {"pat": "text", "size": 0, "seed": 0}
    if kind in ("text",) or (kind == "payload" and rs.get("payload") == "stringio"):
        return gen_text(b["size"], b["seed"]).encode("utf-8")
    if kind == "json":
        return json.dumps(gen_json(b["seed"])).encode("utf-8")
    if kind == "exc":
        if status in (204, 304):
            return b""
        if rs.get("none_body"):
            return f"{status}: {rs['reason'] if rs.get('reason') is not None else http.HTTPStatus(status).phrase}".encode()
        return gen_text(b["size"], b["seed"]).encode("utf-8")
    if kind == "stream" and rs.get("no_write"):
        return b""
    raw = gen_bytes(b["pat"], b["size"], b["seed"])
    if kind == "stream" and rs.get("content_length") and rs.get("cl_short"):
        return raw[:max(0, len(raw) - rs["cl_short"])]     # StreamWriter drops what exceeds the declared length
    return raw


def wants_close(case):
    rq, rs = case["req"], case["resp"]
    return bool(rq.get("conn") == "close" or rq.get("force_close") or rs.get("force_close"))


def resp_without_length(case):
    """The response has neither a length nor (on 1.1) chunking available: close-delimited on HTTP/1.0."""
    rs, rq = case["resp"], case["req"]
    status = rs.get("status", 200)
    if rq["method"].upper() == "HEAD" or status in EMPTY_STATUS:
        return False
    kind = rs["kind"]
    comp = rs.get("compression")
    if comp == "auto":
        ae = None
        for k, v in rq.get("headers", []):
            if k.lower() == "accept-encoding":
                ae = v
        comp = "identity" if (ae is not None and "deflate" not in ae.lower() and "gzip" not in ae.lower()) else "deflate"
        if rq.get("skip_auto") and any(h.lower() == "accept-encoding" for h in rq["skip_auto"]) and ae is None:
            comp = "identity"
    compressed = bool(comp) and comp != "identity"
    if kind == "stream":
        return not rs.get("content_length") or compressed
    if kind == "payload":
        return rs.get("payload") in ("agen",) + STREAM_KINDS or compressed
    if kind == "file":
        return compressed
    return False


def multi_get(pairs, name):
    n = name.lower()
    return [v for k, v in pairs if k.lower() == n]


def req_fault(case):
    return (case["req"].get("body") or {}).get("fault")


def oracle_fault(case, out):
    """The request body source fails (or the request is cancelled) while the body is being sent: both ends must
    agree that the message is NOT complete - the handler must not be handed a complete body, the connection must
    not be kept, and the session must stay usable."""
    bad = []
    rq, rs = case["req"], case["resp"]
    cl, sv = out["client"], out["server"]
    if "hang" in cl:
        return [("hang", f"no completion within {HANG:.0f} virtual seconds after the body source failed; client stage={cl['hang']}")]
    reads = rs.get("read", "read") != "none"
    if sv.get("calls", 0) > 2:      # ClientOSError on an idempotent method is retried once on a new connection
        bad.append(("handler-calls", f"handler called {sv.get('calls')} times"))
    if reads and sv.get("read_done"):
        got = sv.get("body")
        bad.append(("truncated-body-accepted",
                    f"the body source failed ({req_fault(case)}) and the client reported "
                    f"{cl.get('exc') or 'status ' + str(cl.get('status'))}, but the handler was handed a COMPLETE body"
                    + ("" if got is None else f" of {len(got)} bytes (the source had {rq['body']['size']})")))
    if reads and "exc" not in cl:
        bad.append(("fault-swallowed", f"the body source failed but the caller got status {cl.get('status')} and no exception"))
    ka = cl.get("ka") or {}
    if ka.get("client_open") or ka.get("server_open") or cl.get("pooled0"):
        bad.append(("keepalive-disagree", f"a connection carrying a half-sent request was kept: {ka}"))
    if ka.get("acquired"):
        bad.append(("leak", "the connector still counts the connection as acquired"))
    sec = cl.get("second") or {}
    if sec.get("hang") or "exc" in sec or sec.get("status") != 200 or sec.get("body") != b"second":
        bad.append(("second-response", f"the follow-up request on the same session failed: {sec}"))
    if out["loop_exceptions"]:
        bad.append(("loop-exception", out["loop_exceptions"][0][:300]))
    return bad


def oracle(case, out):
    """-> list of (kind, message).  Empty list: the exchange satisfies the property."""
    bad = []
    rq, rs = case["req"], case["resp"]
    cl, sv = out["client"], out["server"]
    expect = case.get("expect") or {}
    if req_fault(case):
        return oracle_fault(case, out)
    if "build_exc" in cl:
        if expect.get("client_exc") and cl["build_exc"].startswith(expect["client_exc"]):
            return bad
        return [("client-exception", f"building the request raised {cl['build_exc']}")]
    if expect.get("client_exc"):
        if cl.get("exc") == expect["client_exc"]:
            if sv.get("calls"):
                bad.append(("refusal-leak", "the client refused the request but the handler was called"))
            return bad
        return [("missing-refusal", f"expected the client to refuse with {expect['client_exc']}, got {cl.get('exc') or cl.get('status')}")]
    if "hang" in cl:
        return [("hang", f"no completion within {HANG:.0f} virtual seconds; client stage={cl['hang']} "
                         f"(server handler called={bool(sv.get('calls'))}, body read={bool(sv.get('read_done'))}); "
                         f"keep-alive state: {cl.get('ka')}")]
    if "exc" in cl:
        return [("client-exception", f"{cl['exc']}: {cl.get('exc_text')}")]
    if cl.get("elapsed", 0) >= 1.0:
        # One sleeper is legitimate: the handler answered without reading the request body, the client stopped
        # uploading once it had the response head (ClientSession._request closes the request payload there), and the
        # response is delimited by the end of the connection - the server then ends it only after lingering
        # (RequestHandler lingering_time, 10 s) for the rest of the body.  Only then, and only up to that time.
        ka0 = cl.get("ka") or {}
        lingering_ok = (rs.get("read", "read") == "none" and (rq.get("body") or {"kind": "none"})["kind"] != "none"
                        and not ka0.get("client_open") and not ka0.get("server_open") and not cl.get("pooled0")
                        and cl["elapsed"] <= LINGERING_TIME)
        if not lingering_ok:
            bad.append(("stall", f"the exchange needed {cl['elapsed']:.0f} virtual seconds although nothing sleeps"))
    if not cl.get("quiet"):
        bad.append(("not-quiescent", "the connection did not become quiescent after the exchange"))
    # --- request direction -------------------------------------------------------------------
    if sv.get("calls") != 1:
        bad.append(("handler-calls", f"handler called {sv.get('calls', 0)} times"))
        return bad
    if sv["method"] != rq["method"].upper():
        bad.append(("method", f"handler saw method {sv['method']!r}, client sent {rq['method']!r}"))
    if sv["raw_path"] != cl["url_target"]:
        bad.append(("target", f"handler saw target {sv['raw_path']!r}, client URL target is {cl['url_target']!r}"))
    if rq.get("url") is None:
        if sv["path"] != rq["path"]:
            bad.append(("path", f"handler saw path {sv['path']!r}, intended {rq['path']!r}"))
        want_q = [[k, v] for k, v in (rq.get("query") or [])] + [[k, v] for k, v in (rq.get("params") or [])]
        if sv["query"] != want_q:
            bad.append(("query", f"handler saw query {sv['query']!r}, intended {want_q!r}"))
    if sv["version"] != (rq.get("version") or "1.1"):
        bad.append(("version", f"handler saw HTTP/{sv['version']}"))
    supplied = rq.get("headers") or []
    names = []
    for k, _v in supplied:
        if k.lower() not in names:
            names.append(k.lower())
    for n in names:
        want = [v for k, v in supplied if k.lower() == n]
        got = multi_get(sv["headers"], n)
        if n == "cookie" and rq.get("cookies"):
            continue
        if got != want:
            bad.append(("req-header", f"request header {n!r}: handler saw {got!r}, client supplied {want!r}"))
    for k, _v in sv["headers"]:
        if k.lower() not in names and k.lower() not in AUTO_REQ:
            bad.append(("req-header-extra", f"handler saw a header nobody supplied: {k!r}"))
    if "host" not in names and multi_get(sv["headers"], "host") != [cl["host_header"]]:
        bad.append(("host", f"Host seen {multi_get(sv['headers'], 'host')!r}, expected {cl['host_header']!r}"))
    if rq.get("cookies") is not None and not multi_get(supplied, "cookie"):
        if sv["cookies"] != rq["cookies"]:
            bad.append(("cookies", f"handler saw cookies {sv['cookies']!r}, client sent {rq['cookies']!r}"))
    if sv["keep_alive"] != (not (rq.get("conn") == "close" or rq.get("force_close"))):
        bad.append(("req-keepalive", f"request.keep_alive={sv['keep_alive']} but the client "
                                     f"{'asked to close' if not sv['keep_alive'] is False else 'did not ask to close'}"))
    mode = rs.get("read", "read")
    kind, want = req_body_expect(rq)
    if mode in ("read", "iter"):
        if kind == "bytes" and sv.get("body") != want:
            g = sv.get("body")
            bad.append(("req-body", f"handler read {None if g is None else len(g)} bytes, client sent {len(want)}"
                                    + ("" if g is None else f" (first difference at {first_diff(g, want)})")))
        elif kind == "json" and (sv.get("body") is None or _loads(sv["body"]) != want):
            bad.append(("req-body", "JSON body differs"))
    elif mode == "text":
        if kind == "bytes" and (sv.get("text") is None or sv["text"].encode("utf-8") != want):
            bad.append(("req-body", "text body differs"))
    elif mode == "json":
        if sv.get("json") != want:
            bad.append(("req-body", "JSON body differs"))
    elif mode == "post":
        if sv.get("post") != want:
            bad.append(("req-body", f"form fields differ: handler {str(sv.get('post'))[:200]} vs sent {str(want)[:200]}"))
    # --- response direction ------------------------------------------------------------------
    status = rs.get("status", 200)
    if expect.get("status"):
        status = expect["status"]
        if cl["status"] != status:
            bad.append(("status", f"caller saw {cl['status']}, expected the refusal status {status}"))
    else:
        if cl["status"] != status:
            bad.append(("status", f"caller saw status {cl['status']}, handler returned {status}"))
        want_reason = rs.get("reason")
        if want_reason is None:
            try:
                want_reason = http.HTTPStatus(status).phrase
            except ValueError:
                want_reason = ""
        if cl["reason"] != want_reason:
            bad.append(("reason", f"caller saw reason {cl['reason']!r}, handler set {want_reason!r}"))
        if cl["version"] != (rq.get("version") or "1.1"):
            bad.append(("resp-version", f"caller saw HTTP/{cl['version']}"))
        rsup = rs.get("headers") or []
        rnames = []
        for k, _v in rsup:
            if k.lower() not in rnames:
                rnames.append(k.lower())
        for n in rnames:
            want = [v for k, v in rsup if k.lower() == n]
            got = multi_get(cl["headers"], n)
            if n == "set-cookie" and rs.get("set_cookies"):
                got = got[:len(want)]
            if got != want:
                bad.append(("resp-header", f"response header {n!r}: caller saw {got!r}, handler supplied {want!r}"))
        for k, _v in cl["headers"]:
            if k.lower() not in rnames and k.lower() not in AUTO_RESP:
                bad.append(("resp-header-extra", f"caller saw a header nobody supplied: {k!r}"))
        for ck in rs.get("set_cookies", []):
            if cl["cookies"].get(ck[0]) != ck[1]:
                bad.append(("resp-cookie", f"cookie {ck[0]!r}: caller saw {cl['cookies'].get(ck[0])!r}, handler set {ck[1]!r}"))
        if case.get("cread", "read") != "none":
            wantb = resp_body_expect(case)
            got = cl.get("body")
            if rq.get("auto_decompress") is False and got:
                enc = (multi_get(cl["headers"], "content-encoding") or [""])[0].lower()
                try:
                    if enc == "gzip":
                        got = zlib.decompress(got, 16 + zlib.MAX_WBITS)
                    elif enc == "deflate":
                        got = zlib.decompress(got)
                except zlib.error as e:
                    bad.append(("resp-body", f"undecodable {enc} body: {e}"))
            if got != wantb:
                bad.append(("resp-body", f"caller read {None if got is None else len(got)} bytes, handler sent {len(wantb)}"
                                         + ("" if got is None else f" (first difference at {first_diff(got, wantb)})")))
    # --- keep-alive --------------------------------------------------------------------------
    ka = cl["ka"]
    sec = cl.get("second") or {}
    if case.get("eager_second"):
        # the follow-up was issued back-to-back: it must succeed, on the same transport iff the client pooled it
        if ka["acquired"]:
            bad.append(("leak", "the connector still counts a connection as acquired"))
        if wants_close(case) and cl.get("pooled0"):
            bad.append(("close-ignored", "a close was requested but the client pooled the connection"))
        if plain_keepalive(case) and not expect and not cl.get("pooled0"):
            bad.append(("unexpected-close", "HTTP/1.1, nobody asked to close, bodies fully consumed, response framed - but the connection was not pooled"))
        if sec.get("hang"):
            bad.append(("second-hang", "the back-to-back follow-up request hung"))
        elif "exc" in sec:
            bad.append(("second-exception", f"the back-to-back follow-up request raised {sec['exc']}: {sec.get('text')}"))
        elif sec.get("status") != 200 or sec.get("body") != b"second":
            bad.append(("second-response", f"the back-to-back follow-up request got status={sec.get('status')} body={sec.get('body')!r}"))
        elif bool(cl.get("pooled0")) != (sec.get("n_conns") == 1):
            bad.append(("reuse", f"client pooled the connection={cl.get('pooled0')} but the follow-up used {sec.get('n_conns')} connection(s)"))
    else:
        if ka["n_conns"] != 1:
            bad.append(("connections", f"{ka['n_conns']} connections were opened for one request"))
        if ka["acquired"]:
            bad.append(("leak", "the connector still counts the connection as acquired after the response was released"))
        c_open, s_open = ka["client_open"], ka["server_open"]
        if c_open != s_open or (not c_open and not ka["client_transport_closed"]):
            bad.append(("keepalive-disagree", f"after the exchange: client reusable={c_open} "
                                              f"(transport closed={ka['client_transport_closed']}), server open={s_open}"))
        if cl.get("pooled0") and not s_open:
            bad.append(("keepalive-disagree", "the client put the connection back into its pool as reusable, the server closed it "
                                              "after the same exchange"))
        if wants_close(case) and (c_open or s_open):
            bad.append(("close-ignored", f"a close was requested but the connection stayed open (client={c_open}, server={s_open})"))
        if plain_keepalive(case) and not expect and not (c_open and s_open):
            bad.append(("unexpected-close", "HTTP/1.1, nobody asked to close, bodies fully consumed, response framed - but the connection was closed"))
        if sec.get("hang"):
            bad.append(("second-hang", "the follow-up request on the same session hung"))
        elif "exc" in sec:
            bad.append(("second-exception", f"the follow-up request raised {sec['exc']}: {sec.get('text')}"))
        else:
            if sec.get("status") != 200 or sec.get("body") != b"second":
                bad.append(("second-response", f"the follow-up request got status={sec.get('status')} body={sec.get('body')!r}"))
            reused = sec.get("n_conns") == 1
            if (c_open and s_open) != reused:
                bad.append(("reuse", f"connection considered reusable={c_open and s_open} but the follow-up request "
                                     f"{'reused it' if reused else 'opened a new one'}"))
    # --- nothing escaped ---------------------------------------------------------------------
    errs = [m for lvl, m in out["logs"] if lvl in ("ERROR", "CRITICAL")]
    if errs and not expect.get("server_error") and case.get("cread", "read") != "none":
        # (a caller that drops the response unread makes the handler's next write fail: not an error here)
        bad.append(("server-error-log", f"server logged: {errs[0]}"))
    if out["loop_exceptions"]:
        bad.append(("loop-exception", out["loop_exceptions"][0][:300]))
    return bad


def _loads(b):
    try:
        return json.loads(b)
    except ValueError:
        return ("<not JSON>", bytes(b[:40]))


def first_diff(a: bytes, b: bytes):
    n = min(len(a), len(b))
    for i in range(n):
        if a[i] != b[i]:
            return i
    return n


def plain_keepalive(case):
    rq, rs = case["req"], case["resp"]
    if wants_close(case):
        return False
    if rq.get("version") == "1.0" and resp_without_length(case):
        return False          # close-delimited body: the connection must end (checked by the hang / agreement oracle)
    if rq["method"].upper() == "HEAD":
        return False          # a HEAD response may carry no length at all: the client then closes (both ends agree)
    if rs.get("read", "read") == "none" and (rq.get("body") or {"kind": "none"})["kind"] != "none":
        return False
    if case.get("cread", "read") == "none":
        return False
    if rq.get("expect100"):
        return False          # the final response may outrun the body writer: the client then closes (allowed)
    return True


# ------------------------------------------------------------------------------------------------
# known-finding signatures

def _is_head_stream(case):
    """HEAD answered by a StreamResponse whose last piece is handed to write_eof(data) (fixed by eef6721; kept as a
    named family for the corpus and the distribution)."""
    rq, rs = case.get("req") or {}, case.get("resp") or {}
    ps = [p for p in (rs.get("pieces") or [])]
    return (rq.get("method", "").upper() == "HEAD" and rs.get("kind") == "stream" and not rs.get("no_write")
            and bool(rs.get("eof_with_data")) and bool(ps) and ps[-1] > 0)


# every finding this check has made is repaired in /repo: no signature suppresses anything
SIGNATURES: dict = {}


# ------------------------------------------------------------------------------------------------
# grammar

METHODS = ["GET"] * 8 + ["POST"] * 8 + ["PUT"] * 3 + ["PATCH", "DELETE", "DELETE", "HEAD", "HEAD", "HEAD", "OPTIONS",
                                                      "TRACE", "PROPFIND", "M-SEARCH", "get", "pOsT", "QUERY",
                                                      "X!#$%&'*+-.^_`|~9"]
PATH_SEGS = ["a", "b", "index.html", "a b", "üñî", "中文", "%41", "%2F", "a%20b", "x+y", "q?m", "h#f", "semi;colon",
             "a=b&c", "~user", "...", "A.B-C_D", "@:!$&'()*+,", "\U0001f600", "trailing.", "100%", "[x]", "{y}", "a|b", "\\w"]
Q_KEYS = ["q", "a b", "kéy", "x&y", "e=f", "plus+", "", "arr[]", "%25", "#h"]
Q_VALS = ["1", "", "two words", "ü→", "a&b=c", "x+y", "%41%zz", "#frag?", "\U0001f600", "/p/q", "a;b", "'q'\""]
HDR_NAMES = ["X-Custom", "x-lower", "X-Trace-Id", "Accept", "User-Agent", "Content-Type", "Authorization", "X-Dup", "X-Dup",
             "Accept-Language", "Cache-Control", "If-None-Match", "Referer", "X-!#$%&'*+.^_`|~", "Accept-Encoding", "Cookie",
             "X-Empty", "Range", "Origin", "X-9"]
HDR_VALS = ["v", "two words", "a,b;c=d", "text/plain; charset=utf-8", "Basic dXNlcjpwYXNz", "ümläut → 中", "", "x\ty",
            "W/\"etag\"", "bytes=0-", "*/*;q=0.8", "gzip", "identity", "deflate, gzip", "a=b; c=d", "%0d%0a", "ÿþ",
            "GET / HTTP/1.1", "0", ":colon:", "http://o.test"]
R_HDR_NAMES = ["X-Resp", "x-lower", "Content-Type", "Cache-Control", "ETag", "X-Dup", "X-Dup", "Location", "Vary", "X-Empty",
               "Set-Cookie", "Set-Cookie", "Content-Disposition", "X-!#$%&'*+.^_`|~", "Allow", "Retry-After", "Link"]
R_HDR_VALS = ["v", "two words", "text/html; charset=utf-8", "no-cache, no-store", "\"abc\"", "ümläut →", "", "x\ty",
              "a=b; Path=/", "c=d; HttpOnly", "attachment; filename=\"f.txt\"", "GET, HEAD", "120", "</x>; rel=next", "HTTP/1.1 200 OK",
              "application/octet-stream", "ÿ"]
COOKIE_NAMES = ["sid", "a", "theme", "X_1", "long-name.v2"]
COOKIE_VALS = ["1", "abc", "A.B-C_D", "0123456789", "deadbeefcafe", "x~y", "a!b", "v%20w"]
STATUSES = [200] * 12 + [201, 202, 203, 206, 204, 204, 304, 304, 400, 403, 404, 404, 409, 418, 500, 502, 503, 299, 599, 301, 302, 205]
REASONS = [None] * 8 + ["Very OK", "", "Ünicöde", "Not Found Here", "I'm a teapot", "a  b", "200 OK"]
SEG_KINDS = ["oneshot", "oneshot", "byte", "kcuts", "kcuts", "crlf", "crlf", "thresh", "mixed"]
BODY_PATS = ["rand", "text", "crlf", "zeros"]


def pick_size(rng, cap=None):
    s = rng.choices(SIZES, SIZE_W)[0]
    if rng.random() < 0.25:
        s = max(0, s + rng.randint(-3, 3))
    if cap is not None:
        s = min(s, cap)
    return s


def gen_seg(rng, big):
    k = rng.choice(SEG_KINDS)
    spec = {"kind": k}
    if k == "byte":
        spec["limit"] = rng.choice((400, 1200, 2500)) if big else rng.choice((2500, 6000))
    if k == "kcuts":
        spec["sizes"] = rng.choice(([1, 2, 3, 5, 7, 16, 64, 100, 1000, 1460, 4096, 16384, 65536],
                                    [1, 2, 3], [1460], [7, 64, 512], [4096, 16384, 65536, 65537], [2047, 2048, 2049, 1]))
        if big and max(spec["sizes"]) < 64:
            spec["sizes"] = spec["sizes"] + [8192, 32768]
    if k == "mixed" and big:
        spec["kind"] = "kcuts"
        spec["sizes"] = [1, 2, 64, 1460, 4096, 16384, 65536]
    return spec


def gen_headers(rng, names, vals, lo=0, hi=4, drop=()):
    out = []
    for _ in range(rng.randint(lo, hi)):
        n = rng.choice(names)
        if n.lower() in drop:
            continue
        if n.lower() not in ("x-dup", "set-cookie") and any(h[0].lower() == n.lower() for h in out):
            continue          # only list-valued fields repeat (the strict parser refuses repeated singletons)
        v = rng.choice(vals)
        if n.lower() == "cookie":
            v = "c1=v1; c2=v2"
        if n.lower() == "accept-encoding":
            v = rng.choice(("gzip", "identity", "deflate, gzip", "br", "GZIP"))
        if n.lower() == "content-type":
            v = rng.choice(("text/plain; charset=utf-8", "application/octet-stream", "application/x-custom", "text/html"))
        if n.lower() == "location":
            v = "/moved?x=1"
        if n.lower() == "set-cookie":
            v = rng.choice(("a=b; Path=/", "c=d; HttpOnly", "e=f"))
        out.append([n, v])
    return out


def gen_req(rng):
    rq: dict = {"method": rng.choice(METHODS)}
    if rng.random() < 0.12:
        rq["url"] = rng.choice(["/", "/a%20b?x=%41", "/%7Euser/%2f/x?y=%2B+z", "/p?a=1&a=2&b", "/ü?é=中", "/a/b/../c/./d",
                                "/?", "/x?=v", "/;p=1?q=a;b", "/a//b///c", "/%E4%B8%AD?%E6%96%87=%F0%9F%98%80", "/*", "/a?b=c#frag"])
    else:
        segs = [rng.choice(PATH_SEGS) for _ in range(rng.randint(0, 4))]
        rq["path"] = "/" + "/".join(segs) + ("/" if segs and rng.random() < 0.2 else "")
        if rng.random() < 0.5:
            rq["query"] = [[rng.choice(Q_KEYS), rng.choice(Q_VALS)] for _ in range(rng.randint(1, 3))]
        if rng.random() < 0.1:
            rq["fragment"] = "frag"
    if rng.random() < 0.25:
        rq["params"] = [[rng.choice(Q_KEYS), rng.choice(Q_VALS)] for _ in range(rng.randint(1, 2))]
    if rng.random() < 0.1:
        rq["port"] = rng.choice((8080, 80, 65535))
    rq["headers"] = gen_headers(rng, HDR_NAMES, HDR_VALS, 0, 4)
    if rng.random() < 0.25:
        rq["cookies"] = {rng.choice(COOKIE_NAMES): rng.choice(COOKIE_VALS) for _ in range(rng.randint(1, 3))}
        rq["headers"] = [h for h in rq["headers"] if h[0].lower() != "cookie"]
    if rng.random() < 0.13:
        rq["version"] = "1.0"
    r = rng.random()
    if r < 0.12:
        rq["conn"] = "close"
    elif r < 0.18:
        rq["conn"] = "keep-alive"
    elif r < 0.24:
        rq["force_close"] = True
    # body
    m = rq["method"].upper()
    body_p = 0.85 if m in ("POST", "PUT", "PATCH", "QUERY", "PROPFIND") else (0.0 if m in ("HEAD", "TRACE") else 0.2)
    if rng.random() < body_p:
        k = rng.choice(["bytes"] * 6 + ["str", "str", "json", "json", "form", "form", "multipart", "multipart", "bytesio", "file",
                                       "agen", "agen", "agen", "bytearray", "memoryview", "stringio",
                                       "rawio", "rawio_unseek", "pipe"])
        if k in ("form", "multipart") and m not in ("POST", "PUT", "PATCH", "DELETE"):
            k = "bytes"           # request.post() only decodes forms for these methods
        b: dict = {"kind": k, "pat": rng.choice(BODY_PATS), "seed": rng.getrandbits(16)}
        if k in ("str", "stringio"):
            b["size"] = pick_size(rng, 70000)
        elif k == "json":
            pass
        elif k == "form":
            b["fields"] = [[rng.choice(Q_KEYS) or "k", rng.choice(Q_VALS)] for _ in range(rng.randint(1, 4))]
            b["as_dict"] = rng.random() < 0.3
            if b["as_dict"]:
                b["fields"] = [list(x) for x in {f[0]: f[1] for f in b["fields"]}.items()]
        elif k == "multipart":
            fs = []
            for i in range(rng.randint(1, 3)):
                if rng.random() < 0.6:
                    fs.append([f"file{i}", {"pat": rng.choice(BODY_PATS), "size": pick_size(rng, 70000), "seed": rng.getrandbits(16),
                                            "filename": rng.choice(("a.bin", "report-2.final.txt", "UPPER_lower.dat")),
                                            "content_type": rng.choice((None, "application/x-thing", "text/plain")),
                                            "io": rng.random() < 0.5}])
                else:
                    fs.append([f"field{i}", rng.choice(Q_VALS)])
            b["fields"] = fs
        else:
            b["size"] = pick_size(rng)
            if k == "agen":
                b["pieces"] = split_sizes(b["size"], rng)
            if k in STREAM_KINDS:
                b["size"] = max(1, b["size"]) if rng.random() < 0.7 else rng.choice((65536, 131072, 200000, 262144, 300000))
                b["maxpiece"] = rng.choice((1, 7, 100, 4096, 65536, 300000))
            # a body source that fails (or a request that is cancelled) part of the way
            if k == "agen" and rng.random() < 0.12:
                b["fault"] = {"after": rng.randint(0, len(b["pieces"])),
                              "exc": rng.choice(("OSError", "OSError-noerrno", "RuntimeError", "ValueError", "cancel"))}
            elif k in ("rawio", "rawio_unseek") and rng.random() < 0.2:
                b["fault"] = {"after": rng.randint(0, b["size"]), "exc": rng.choice(("OSError", "OSError-noerrno", "RuntimeError", "KeyError"))}
        rq["body"] = b
        if k in ("form", "multipart", "json"):
            rq["headers"] = [h for h in rq["headers"] if h[0].lower() != "content-type"]
        if k not in ("json",) and rng.random() < 0.12 and not any(h[0].lower() == "content-length" for h in rq["headers"]):
            rq["chunked"] = True
        elif rng.random() < 0.06:
            rq["chunked"] = False         # "don't use chunked encoding": Content-Length when the size is known
        if k == "bytes" and rng.random() < 0.1 and not any(h[0].lower() == "content-encoding" for h in rq["headers"]):
            coding = rng.choice(("gzip", "deflate"))
            rq["pre_encoded"] = {"coding": coding, "token": rng.choice(ENC_TOKENS[coding])}
        if k in ("bytes", "str", "agen", "bytesio", "bytearray") and rng.random() < 0.15 and rq.get("chunked") is None \
                and not rq.get("pre_encoded"):
            if b.get("size", 1) > 0:
                rq["compress"] = rng.choice(("deflate", "gzip", True))
        if rng.random() < 0.12 and not b.get("fault"):
            rq["expect100"] = True
    elif rng.random() < 0.03:
        rq["expect100"] = True
    elif rng.random() < 0.03:
        rq["chunked"] = False
    if rng.random() < 0.04:
        rq["skip_auto"] = rng.sample(["User-Agent", "Accept", "Accept-Encoding", "Content-Type"], rng.randint(1, 2))
        if (rq.get("body") or {}).get("kind") in ("json", "form", "multipart", "str", "stringio"):
            rq["skip_auto"] = [h for h in rq["skip_auto"] if h != "Content-Type"] or ["Accept"]
    return rq


def gen_resp(rng, rq):
    rs: dict = {}
    kind = rng.choice(["fixed"] * 6 + ["text", "text", "json", "stream", "stream", "stream", "stream", "payload", "payload", "file", "exc"])
    rs["kind"] = kind
    status = rng.choice(STATUSES)
    if kind == "exc":
        status = rng.choice((404, 403, 400, 409, 500, 503, 302, 301, 304, 204, 200, 202))
        if rng.random() < 0.3:
            rs["none_body"] = True
    if kind == "file" and status in (204, 304, 206, 205):
        status = 200
    rs["status"] = status
    reason = rng.choice(REASONS)
    if reason is not None:
        rs["reason"] = reason
    rs["headers"] = gen_headers(rng, R_HDR_NAMES, R_HDR_VALS, 0, 4,
                                drop=("content-type", "location") if kind in ("text", "json", "exc") else ())
    if kind == "file":
        rs["headers"] = [h for h in rs["headers"] if h[0].lower() not in ("etag", "content-type")]
    b = {"pat": rng.choice(BODY_PATS), "size": pick_size(rng, 70000 if kind in ("text", "exc") else None), "seed": rng.getrandbits(16)}
    rs["body"] = b
    if kind == "fixed" and b["size"] == 0 and rng.random() < 0.5:
        rs["none_body"] = True
    if kind == "stream":
        rs["pieces"] = split_sizes(b["size"], rng)
        r = rng.random()
        if r < 0.25:
            rs["content_length"] = True
            if rng.random() < 0.25 and b["size"] > 0:
                rs["cl_short"] = rng.choice((1, 1, 2, b["size"]))
        elif r < 0.45 and rq.get("version") != "1.0":
            rs["chunked"] = True
        if rng.random() < 0.2 and not rs.get("cl_short"):
            rs["eof_with_data"] = True
        elif rng.random() < 0.3:
            rs["explicit_eof"] = True
        if status in EMPTY_STATUS:
            rs["no_write"] = True
    if kind == "payload":
        rs["payload"] = rng.choice(("bytesio", "file", "agen", "stringio", "rawio", "rawio_unseek", "pipe"))
        if rs["payload"] in STREAM_KINDS:
            b["size"] = max(1, b["size"]) if rng.random() < 0.7 else rng.choice((65536, 131072, 200000, 262144, 300000))
            rs["maxpiece"] = rng.choice((1, 7, 100, 4096, 65536, 300000))
        if rs["payload"] == "agen":
            rs["pieces"] = split_sizes(b["size"], rng)
        if rs["payload"] == "stringio":
            b["size"] = min(b["size"], 70000)
    if kind == "file":
        rs["chunk_size"] = rng.choice((256 * 1024, 4096, 65536, 100))
        if b["size"] > 70000 and rs["chunk_size"] == 100:
            rs["chunk_size"] = 4096
    if kind == "fixed" and not rs.get("none_body") and rng.random() < 0.1:
        coding = rng.choice(("gzip", "deflate"))
        rs["pre_encoded"] = {"coding": coding, "token": rng.choice(ENC_TOKENS[coding])}
        rs["headers"] = [h for h in rs["headers"] if h[0].lower() != "content-encoding"]
    if kind not in ("exc",) and rng.random() < 0.18 and not (kind == "stream" and rs.get("content_length")) \
            and not rs.get("pre_encoded"):
        rs["compression"] = rng.choice(("auto", "auto", "deflate", "gzip", "identity"))
    if kind in ("fixed", "text", "json", "payload") and rng.random() < 0.06 and rq.get("version") != "1.0" \
            and not any(h[0].lower() == "content-length" for h in rs["headers"]):
        rs["chunked"] = True
    if rng.random() < 0.08 and kind != "exc":
        rs["force_close"] = True
    if rng.random() < 0.08 and kind != "exc":
        rs["set_cookies"] = [[rng.choice(COOKIE_NAMES), rng.choice(COOKIE_VALS)]]
    # how the handler consumes the request body
    bk = (rq.get("body") or {"kind": "none"})["kind"]
    if bk in ("form", "multipart"):
        rs["read"] = "post"
    elif bk == "json":
        rs["read"] = rng.choice(("json", "read", "iter"))
    elif bk in ("str", "stringio"):
        rs["read"] = rng.choice(("text", "read", "iter"))
    else:
        rs["read"] = rng.choice(("read", "read", "read", "iter", "iter", "none"))
    if rs["read"] == "iter":
        rs["read_n"] = rng.choice((0, 1024, 65536, 7))
        if rs["read_n"] == 7 and (rq.get("body") or {}).get("size", 0) > 5000:
            rs["read_n"] = 4096
    return rs


def gen_case(rng):
    rq = gen_req(rng)
    rs = gen_resp(rng, rq)
    if rs["kind"] == "file":      # FileResponse interprets these (C15's subject), keep the plain 200 path here
        rq["headers"] = [h for h in rq["headers"] if h[0].lower() not in ("range", "if-none-match", "if-range", "if-match")]
    big = max((rq.get("body") or {}).get("size", 0), rs["body"]["size"]) > 20000
    case = {"req": rq, "resp": rs,
            "seg": {"seed": rng.getrandbits(24), "c2s": gen_seg(rng, big), "s2c": gen_seg(rng, big)}}
    r = rng.random()
    if r < 0.25:
        case["cread"] = "iter"
        case["cread_n"] = rng.choice((0, 1, 1024, 65536)) if not big else rng.choice((0, 1024, 65536))
        if case["cread_n"] == 1 and rs["body"]["size"] > 3000:
            case["cread_n"] = 512
    elif r < 0.29:
        case["cread"] = "none"
    if rs.get("compression") and rng.random() < 0.1:
        rq["auto_decompress"] = False
    if rng.random() < 0.25 and not req_fault(case):
        case["eager_second"] = True
    return case


def special_cases(rng):
    """Deliberate corners: expected refusals, the open known-finding families and the repaired ones (kept rare)."""
    seg = lambda: {"seed": rng.getrandbits(24), "c2s": gen_seg(rng, False), "s2c": gen_seg(rng, False)}  # noqa: E731
    body = lambda n: {"kind": "bytes", "pat": "text", "size": n, "seed": 1}  # noqa: E731
    ok = {"kind": "fixed", "status": 200, "headers": [], "body": {"pat": "text", "size": 5, "seed": 0}, "read": "read"}
    stream = {"kind": "stream", "status": 200, "headers": [], "body": {"pat": "text", "size": 6, "seed": 0}, "pieces": [3, 3], "read": "read"}
    out = [
        # refusals by the client API (nothing reaches the wire)
        {"req": {"method": "POST", "path": "/r", "headers": [["Content-Length", "3"]], "body": body(3), "chunked": True},
         "resp": ok, "seg": seg(), "expect": {"client_exc": "ValueError"}},
        {"req": {"method": "POST", "path": "/r", "headers": [["Content-Encoding", "gzip"]], "body": body(3), "compress": "deflate"},
         "resp": ok, "seg": seg(), "expect": {"client_exc": "ValueError"}},
        {"req": {"method": "POST", "path": "/r", "headers": [["Transfer-Encoding", "chunked"]], "body": body(3), "chunked": True},
         "resp": ok, "seg": seg(), "expect": {"client_exc": "ValueError"}},
        # refusal by the server API: chunked encoding on HTTP/1.0 -> RuntimeError in prepare() -> 500
        {"req": {"method": "GET", "path": "/r", "headers": [], "version": "1.0"},
         "resp": dict(stream, chunked=True), "seg": seg(), "expect": {"status": 500, "server_error": True}},
        # open known-finding families (first and third), repaired family (chunked=False)
        {"req": {"method": "GET", "path": "/kf", "headers": [], "version": "1.0"}, "resp": stream, "seg": seg()},
        {"req": {"method": "POST", "path": "/kf", "headers": [], "body": body(rng.choice((1, 3, 100))), "chunked": False}, "resp": ok, "seg": seg()},
        {"req": {"method": "POST", "path": "/kf", "headers": [], "version": "1.0", "body": body(3), "expect100": True}, "resp": ok, "seg": seg()},
    ]
    return out


# ------------------------------------------------------------------------------------------------
# driver

def _jsonable(case):
    return json.loads(json.dumps(case))


def summarize(out):
    cl, sv = out["client"], out["server"]

    def short(v):
        if isinstance(v, (bytes, bytearray)):
            return {"len": len(v), "head": bytes(v[:48]).hex()}
        return v
    return {"client": {k: short(v) for k, v in cl.items() if k != "second"} | {"second": {k: short(v) for k, v in (cl.get("second") or {}).items()}},
            "server": {k: short(v) for k, v in sv.items()},
            "wire_c2s_head": out["wire_c2s"][:600].decode("latin1"), "wire_s2c_head": out["wire_s2c"][:600].decode("latin1"),
            "wire_len": [len(out["wire_c2s"]), len(out["wire_s2c"])], "segments": out["segs"], "logs": out["logs"][:4]}


def check_case(ctx, bed, case, counts=True):
    out = bed.run_case(case)
    bad = oracle(case, out)
    cl, sv = out["client"], out["server"]
    refused = bool(case.get("expect")) or "build_exc" in cl
    if req_fault(case):
        ctx.count("req.fault:" + req_fault(case)["exc"])
    canon = (sv.get("method"), sv.get("raw_path"), tuple(map(tuple, sv.get("headers", []))), _h(sv.get("body")),
             cl.get("status"), cl.get("reason"), tuple(map(tuple, cl.get("headers", []))), _h(cl.get("body")),
             str(cl.get("ka")))
    ctx.case(canon, nontrivial=not refused and not bad and ("status" in cl or bool(req_fault(case))))
    if counts:
        rq, rs = case["req"], case["resp"]
        ctx.count("method:" + rq["method"].upper()[:10])
        ctx.count("req.body:" + (rq.get("body") or {"kind": "none"})["kind"])
        ctx.count("req.version:" + (rq.get("version") or "1.1"))
        ctx.count("req.framing:" + ("chunked" if b"chunked" in out["wire_c2s"][:2000].lower() else "length/none"))
        if rq.get("compress"):
            ctx.count("req.compress")
        if rq.get("expect100"):
            ctx.count("req.expect100")
        ctx.count("resp.kind:" + rs["kind"])
        ctx.count("resp.status:" + str(rs.get("status", 200)))
        if rs.get("compression"):
            ctx.count("resp.compression:" + rs["compression"])
        ctx.count("seg.c2s:" + case["seg"]["c2s"]["kind"])
        ctx.count("seg.s2c:" + case["seg"]["s2c"]["kind"])
        for tag, n in (("req", (rq.get("body") or {}).get("size", 0)), ("resp", rs["body"]["size"])):
            ctx.count(f"size.{tag}:" + ("0" if n == 0 else "<2K" if n < 2047 else "~2K" if n <= 2049 else "<64K" if n < 65535 else "~64K" if n <= 65537 else ">64K"))
        ka = cl.get("ka") or {}
        ctx.count("keepalive:" + ("hang" if "hang" in cl else "refused" if refused else "reused" if ka.get("client_open") and ka.get("server_open") else "closed"))
        ctx.count("segments.delivered", sum(a + b for a, b in out["segs"]))
    for kind, msg in bad:
        vc = _jsonable(case)
        vc["viol"] = kind
        ctx.violation(vc, f"{kind}: {msg}")
        break     # one report per case (the first is the most upstream)
    return out, bad


def _h(b):
    if b is None:
        return None
    import hashlib
    return hashlib.blake2b(bytes(b), digest_size=8).hexdigest()


def load_corpus():
    d = os.path.join(fw.VERIF, "corpus", PROP)
    out = []
    if os.path.isdir(d):
        for fn in sorted(os.listdir(d)):
            if fn.endswith(".json"):
                p = json.load(open(os.path.join(d, fn)))
                out.append((fn, p.get("case", p)))
    return out


def build_model():
    return fw.ocaml_model("C02", ["Model/Wire.vo", "Model/WireResp.vo"])


def run(ctx):
    import time as _time
    rng = ctx.rng
    budget = 40.0 if ctx.quick else 900.0
    n_target = 3500 if ctx.quick else 80000
    bed = Bed()
    t0 = _time.perf_counter()
    ran = 0
    wire_cases = []
    resp_cases = []
    try:
        for fn, case in load_corpus():
            out, bad = check_case(ctx, bed, case, counts=False)
            ctx.count("corpus")
            ran += 1
        for case in special_cases(rng):
            check_case(ctx, bed, case)
            ran += 1
        while ran < n_target and _time.perf_counter() - t0 < budget:
            case = gen_case(rng)
            if rng.random() < 0.01:
                case = rng.choice(special_cases(rng))
            try:
                out, bad = check_case(ctx, bed, case)
            except Exception as e:  # noqa  harness trouble: rebuild the bed, report as an obligation
                import traceback
                ctx.notes.append(f"harness exception on case {json.dumps(case)[:600]}: {traceback.format_exc()[-600:]}")
                ctx.oblige("harness-case", "correspondence", False, f"{type(e).__name__}: {e}")
                bed.close()
                bed = Bed()
                continue
            ran += 1
            if not bad and in_model_subset(case) and out["server"].get("calls") == 1 \
                    and len(wire_cases) < (600 if ctx.quick else 6000):
                wire_cases.append((case, out["wire_c2s"], out["server"], out["client"]))
            if not bad and in_resp_subset(case) and out["server"].get("calls") == 1 and len(resp_cases) < 5000:
                resp_cases.append((case, out["client"]))
            if ran % 7 == 0:
                ctx.sample({"case": case, "observed": summarize(out)}, limit=4)
    finally:
        bed.close()
    ctx.oblige("roundtrip-oracle-ran", "correspondence", ran > 50 or not ctx.quick, f"{ran} exchanges")
    ctx.count("exchanges", ran)
    suite_wire_model(ctx, wire_cases)
    suite_resp_model(ctx, resp_cases)


# ------------------------------------------------------------------------------------------------
# model correspondence: the request bytes on the wire vs coq/Model/Wire.v

UNMODELLED_HEADERS = {"content-length", "transfer-encoding", "expect", "content-encoding", "cookie"}


def in_model_subset(case):
    """Requests Model/Wire.v `build` + `client_serialize` cover: body none / bytes (size known) / async
    generator pieces; no cookies, compression, Expect, skip_auto_headers; chunked None or True."""
    rq = case["req"]
    b = rq.get("body") or {"kind": "none"}
    if rq.get("compress") or rq.get("expect100") or rq.get("cookies") or rq.get("skip_auto") or b.get("fault") \
            or case.get("eager_second") or rq.get("pre_encoded"):
        return False
    if b["kind"] not in ("none", "bytes", "bytearray", "memoryview", "agen", "bytesio"):
        return False
    if b.get("size", 0) > 5000:
        return False
    if any(k.lower() in UNMODELLED_HEADERS for k, _v in rq.get("headers") or []):
        return False
    return True


def _csv(s: str) -> str:
    return ",".join(str(ord(c)) for c in s) if s else "-"


def model_line(case, cl, rng):
    from aiohttp.client_reqrep import ClientRequest
    from aiohttp import hdrs
    from aiohttp.http import SERVER_SOFTWARE
    rq = case["req"]
    hs = [(k, v) for k, v in (rq.get("headers") or [])]
    if rq.get("conn"):
        hs.append(("Connection", rq["conn"]))
    b = rq.get("body") or {"kind": "none"}
    if b["kind"] == "none":
        body = ["N"]
    else:
        raw = gen_bytes(b["pat"], b["size"], b["seed"])
        if b["kind"] == "agen":
            body = ["C"] + [fw.hexs(p) for p in pieces_of(raw, b.get("pieces") or [len(raw)])]
        else:
            body = ["L", fw.hexs(raw)]
    n = cl["c2s_len"]
    c1 = rng.randint(0, n)
    c2 = rng.randint(c1, n)
    ch = {None: "n", True: "t", False: "f"}[rq.get("chunked")]
    parts = ["RT", _csv(rq["method"]), _csv(cl["url_target"]), _csv(cl["host_header"]),
             "0" if rq.get("version") == "1.0" else "1", ch, "1" if rq.get("force_close") else "0",
             _csv(ClientRequest.DEFAULT_HEADERS[hdrs.ACCEPT_ENCODING]), _csv(SERVER_SOFTWARE), str(len(hs))]
    for k, v in hs:
        parts += [_csv(k), _csv(v)]
    parts += [str(c1), str(c2)] + body
    return " ".join(parts)


def suite_wire_model(ctx, wire_cases):
    """For each recorded request of the modelled subset: the extracted model (build + client_serialize) must
    emit exactly the bytes the real ClientSession put on the wire; `valid` (the hypothesis of
    C02_request_roundtrip) must hold of it; the model's parse of a three-read segmentation of those bytes
    must be what the real handler saw; and the theorem's conclusion, evaluated on that run, must hold."""
    ok, exe = build_model()
    if not ok:
        ctx.oblige("model-build", "correspondence", False, str(exe)[-800:])
        return
    lines, metas = [], []
    for case, wire, sv, cl in wire_cases:
        lines.append(model_line(case, cl, ctx.rng))
        metas.append((case, wire[:cl["c2s_len"]], sv))
    if not lines:
        ctx.close_suite("wire_request_model", 0)
        return
    answers = fw.run_model(exe, lines)
    ran = 0
    for (case, wire, sv), ans, line in zip(metas, answers, lines):
        ran += 1
        parts = ans.split()
        ctx.count("model:" + parts[0])
        if parts[0] != "OK":
            ctx.disagreement("wire_request_model", {"case": case, "line": line[:400]}, ans[:300], wire[:300].hex())
            continue
        valid, mwire = parts[1] == "1", fw.unhex(parts[2])
        if mwire != wire:
            ctx.disagreement("wire_request_model", {"case": case, "what": "bytes on the wire"}, mwire[:600].decode("latin1"), wire[:600].decode("latin1"))
            continue
        if not valid:
            ctx.disagreement("wire_request_model", {"case": case, "what": "`valid` is false of a request the real endpoints exchanged"}, ans[:200], "")
            continue
        dec = lambda h: fw.unhex(h).decode("utf-8", "surrogateescape")  # noqa: E731
        m_method, m_target, m_ver, m_close = dec(parts[3]), dec(parts[4]), parts[5], parts[6] == "1"
        n = int(parts[7])
        if n == 0:
            m_hs, rest = [], parts[9:]
        else:
            m_hs = [[dec(parts[8 + 2 * i]), dec(parts[9 + 2 * i])] for i in range(n)]
            rest = parts[8 + 2 * n:]
        m_body, theorem = fw.unhex(rest[0]), rest[1] == "1"
        impl = (sv["method"], sv["raw_path"], sv["version"].replace(".", ""), not sv["keep_alive"], sv["headers"])
        model = (m_method, m_target, m_ver, m_close, m_hs)
        if impl != model or (sv.get("body") is not None and m_body != sv["body"]):
            ctx.disagreement("wire_request_model", {"case": case, "what": "what the handler saw"}, repr(model)[:700], repr(impl)[:700])
        elif not theorem:
            ctx.disagreement("wire_request_model", {"case": case, "what": "C02_request_roundtrip's conclusion is false on this run"}, ans[:200], "")
    ctx.close_suite("wire_request_model", ran)


def in_resp_subset(case):
    """Responses Model/WireResp.v decides about: StreamResponse with or without a declared length, optional
    enable_chunked_encoding / force_close; no compression; the exchange ran to completion on both sides."""
    rq, rs = case["req"], case["resp"]
    if rs["kind"] != "stream" or rs.get("compression") or case.get("expect") or rq.get("expect100") or req_fault(case) \
            or case.get("eager_second"):
        return False
    if case.get("cread", "read") == "none":
        return False
    if rs.get("read", "read") == "none" and (rq.get("body") or {"kind": "none"})["kind"] != "none":
        return False
    if any(k.lower() in ("connection", "content-length", "transfer-encoding") for k, _v in rs.get("headers") or []):
        return False
    return True


def suite_resp_model(ctx, resp_cases):
    """The response head the real server wrote (Content-Length / Transfer-Encoding / Connection) and what the two
    ends then did with the connection, against Model/WireResp.v (server_prepare, client_close)."""
    ok, exe = build_model()
    if not ok:
        ctx.oblige("model-build", "correspondence", False, str(exe)[-800:])
        return
    lines = []
    for case, cl in resp_cases:
        rq, rs = case["req"], case["resp"]
        declared = "-"
        if rs.get("content_length"):
            declared = str(max(0, rs["body"]["size"] - rs.get("cl_short", 0)))
        lines.append(" ".join(["RS", "0" if rq.get("version") == "1.0" else "1",
                               "0" if (rq.get("conn") == "close" or rq.get("force_close")) else "1",
                               "1" if rq["method"].upper() == "HEAD" else "0", str(rs.get("status", 200)), declared,
                               "1" if rs.get("chunked") else "0", "1" if rs.get("force_close") else "0"]))
    if not lines:
        ctx.close_suite("response_decisions_model", 0)
        return
    answers = fw.run_model(exe, lines)
    ran = 0
    for (case, cl), ans, line in zip(resp_cases, answers, lines):
        ran += 1
        parts = ans.split()
        ctx.count("respmodel:" + parts[0])
        hs = cl["headers"]
        cls = multi_get(hs, "content-length")
        te = any(v.lower() == "chunked" for v in multi_get(hs, "transfer-encoding"))
        conn = [v.lower() for v in multi_get(hs, "connection")]
        impl = (cls[0] if cls else "-", "1" if te else "0", "c" if conn == ["close"] else "k" if conn == ["keep-alive"] else "n" if not conn else "?",
                "1" if not cl["pooled0"] else "0", "1" if cl["ka"]["server_open"] else "0")
        if parts[0] != "HEAD":
            ctx.disagreement("response_decisions_model", {"case": case, "line": line}, ans, repr(impl))
            continue
        m_cl, m_te, m_conn, m_keeps, m_close, m_waits = parts[1:7]
        # the server's transport stays open only if it keeps the connection AND the client did not close it
        m_open = "1" if (m_keeps == "1" and m_close == "0") else "0"
        model = (m_cl, m_te, m_conn, m_close, m_open)
        if model != impl:
            ctx.disagreement("response_decisions_model", {"case": case, "line": line,
                                                          "fields": "content-length, chunked, connection, client closes, server transport open"},
                             repr(model), repr(impl))
    ctx.close_suite("response_decisions_model", ran)


def decode_chunks(b: bytes):
    out, p = [], 0
    while True:
        j = b.find(b"\r\n", p)
        if j < 0:
            return None
        try:
            n = int(b[p:j], 16)
        except ValueError:
            return None
        if n == 0:
            return out
        out.append(b[j + 2:j + 2 + n])
        p = j + 2 + n + 2


def replay(ctx, case):
    case = {k: v for k, v in case.items() if k != "viol"}
    bed = Bed()
    try:
        out = bed.run_case(case)
        bad = oracle(case, out)
    finally:
        bed.close()
    res = {"violates": bool(bad), "violations": [f"{k}: {m}" for k, m in bad], "observed": summarize(out)}
    # the model's view of the same request, when it is of the modelled shape
    if in_model_subset(case) and out["client"].get("c2s_len") is not None and "url_target" in out["client"]:
        try:
            ok, exe = build_model()
            if ok:
                ans = fw.run_model(exe, [model_line(case, out["client"], random.Random(0))])[0].split()
                res["model"] = {"answer": ans[0]}
                if ans[0] == "OK":
                    res["model"].update(valid=ans[1] == "1", wire_equals_implementation=fw.unhex(ans[2]) == out["wire_c2s"][:out["client"]["c2s_len"]],
                                        roundtrip_conclusion_holds=ans[-1] == "1", body_delivered_hex=ans[-2][:120])
        except Exception as e:  # noqa
            res["model"] = {"error": repr(e)}
    return res
