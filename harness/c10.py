"""C10 — parsers are total and enforce their configured limits."""
from __future__ import annotations

import asyncio
import json
import os
import re

from harness import httpfam as H
from harness import httpresp as R
from harness.common import framework as fw

PROP = "C10"
GENERATED = ["HttpGen.v", "HttpRespGen.v"]
RULE = ("hostile inputs: raw random bytes, byte-mutated and smuggling-mutated valid messages, truncations, and "
        "directed streams whose start line / field / field name / chunk-size line / chunk extension / trailer / "
        "number of fields or trailers sits at limit-1, limit, limit+1; each under several limit configurations and "
        "segmentations (one-shot, byte-at-a-time, cuts around the critical line). Both parsers. Server level: the same "
        "bytes through a real RequestHandler. Non-trivial = the parser reached a decision other than 'need more'; "
        "distinct by hash of (stream, limits, segmentation).")
TRUSTED = [
    "translator/gen_http.py", "extraction: ExtrOcamlBasic only; ocaml/common/conv.ml + ocaml/HTTP/driver.ml",
    "correspondence harness harness/httpfam.py + harness/c10.py: sampled, not proved",
    "yarl is an oracle for authority-/absolute-form targets; the response (lax) parser is modelled in "
    "Model/HttpResp.v (translator/gen_httpresp.py, ocaml/HTTPRESP/driver.ml, harness/httpresp.py; suite "
    "response-parser-model); the exception-class, limit and retained-bytes oracles still run on the implementation directly",
    "hang-freedom / linear work of the real code is inherited from the model's fuel bound only through "
    "correspondence; wall-clock is not measured",
]
ASSUMPTIONS = ["Python parser (AIOHTTP_NO_EXTENSIONS=1)", "model/implementation agreement validated on generated cases only"]
SIGNATURES: dict = {}


def retained_ok(obs, lim, last_seg_len):
    ml, mf, mh, _ = lim
    st = obs["state"]
    big = max(ml, mf)
    # since 0473a42 the CR of the terminator is not counted: a line at the limit may be buffered with its CR
    # (bound limit + 1, proved as `bounded` in Proofs/HttpLimits.v and attained: C10_example_limit_cr)
    if st["tail"] > big + 1 and st["lines"] + st.get("tlines", 0) >= 0 and not st["up"]:
        # a tail longer than the line limit may only be kept while the message queue is full
        if lim[3] == 0:
            return f"buffered partial line of {st['tail']} bytes exceeds the limits {ml}/{mf}"
    if st["lines"] > mh:
        return f"{st['lines']} header lines retained, max_headers={mh}"
    if st["linebytes"] > mh * big:
        return "retained header bytes exceed max_headers * max(line, field)"
    if st["ctail"] > big + 1 + last_seg_len:
        return f"buffered partial chunk/trailer line of {st['ctail']} bytes exceeds limit + last read"
    if st.get("tlines", 0) > mh:
        return f"{st['tlines']} trailer lines retained"
    return None


def server_roundtrip(loop, stream: bytes):
    """Feed the bytes to a real RequestHandler; returns (written bytes, closed, loop exceptions)."""
    from aiohttp import web
    from harness.common.transport import start_server

    async def go():
        async def handler(request):
            try:
                await request.read()
            except web.RequestPayloadError:
                # the documented way a handler learns that the body could not be read/decoded (the parser's
                # HttpProcessingError is set on the payload stream); what to answer is the application's choice
                return web.Response(status=400, text="bad payload")
            return web.Response(text="ok")
        app = web.Application()
        app.router.add_route("*", "/{tail:.*}", handler)
        runner, connect = await start_server(app, loop)
        proto, tr = connect()
        esc = None
        try:
            proto.data_received(stream)
        except Exception as e:  # noqa
            esc = type(e).__name__
        for _ in range(6):
            await asyncio.sleep(0)
        loop.run_until_idle_async = None
        await asyncio.sleep(0.01)
        out = bytes(tr.buf)
        closed = tr.closed
        if not tr.closed:
            tr.peer_close()
        await asyncio.sleep(0)
        await runner.cleanup()
        return out, closed, esc
    return loop.run_until_complete(go())


def run(ctx):
    ok, exe = H.build_model()
    ctx.oblige("model-runner-build", "correspondence", ok, "" if ok else exe)
    if not ok:
        return
    rng = ctx.rng
    cases, meta = [], []
    # corpus
    cdir = os.path.join(fw.VERIF, "corpus", "C10")
    for fn in sorted(os.listdir(cdir)) if os.path.isdir(cdir) else []:
        c = json.load(open(os.path.join(cdir, fn)))
        c = c.get("case", c)
        if c.get("parser", "request") == "request":
            cases.append(([bytes.fromhex(x) for x in c["segs"]], tuple(c["lim"])))
            meta.append(("corpus", None, None))
    n = 700 if ctx.quick else 12000
    for i in range(n):
        r = rng.random()
        if r < 0.25:
            s = H.rand_bytes(rng, rng.randint(0, 120))
            kind = "random"
        elif r < 0.6:
            s = H.mutate_bytes(rng, H.gen_stream(rng))
            kind = "mutated"
        elif r < 0.85:
            s, cls = H.mutate_smuggling(rng, H.gen_stream(rng))
            kind = "smuggling"
        else:
            s = H.gen_stream(rng)
            kind = "valid"
        lim = H.DEFAULT_LIM if rng.random() < 0.4 else rng.choice(H.SMALL_LIMS)
        for segs in H.segmentations(rng, s, True)[: (3 if ctx.quick else 8)]:
            cases.append((segs, lim))
            meta.append((kind, None, None))
    lims = [H.DEFAULT_LIM, (40, 60, 6, 0), (60, 40, 8, 0)] if ctx.quick else [H.DEFAULT_LIM] + H.SMALL_LIMS
    for lim in lims:
        for s, pos, delta, cuts in H.limit_edge_streams(rng, lim):
            seglist = [[s]] + [[s[:c], s[c:]] for c in cuts]
            if len(s) < 700:
                seglist.append([s[i:i + 1] for i in range(len(s))])
            for segs in seglist:
                cases.append((segs, lim))
                meta.append(("edge", pos, delta))
    # a line that never ends, in every position, in small reads: must be rejected, not buffered for ever
    for lim in lims[1:] if ctx.quick else lims:
        for s, pos in H.unterminated_streams(lim):
            for step in (7, 64):
                cases.append(([s[i:i + step] for i in range(0, len(s), step)], lim))
                meta.append(("unterminated", pos, 1))
    model = H.model_run_many(exe, cases)
    ran = 0
    for (segs, lim), m, (kind, pos, delta) in zip(cases, model, meta):
        im = H.impl_run(segs, lim)
        ran += 1
        s = b"".join(segs)
        decided = im["outcome"].startswith(("ERR", "ESC")) or bool(im["msgs"])
        ctx.case((s, lim, tuple(len(x) for x in segs)), nontrivial=decided)
        ctx.count("kind:" + kind)
        ctx.count("outcome:" + (im["outcome"].split("@")[0]))
        if pos is not None:
            ctx.count(f"edge:{pos}:{delta:+d}")
        case = {"parser": "request", "lim": list(lim), "segs": [x.hex() for x in segs], "kind": kind, "pos": pos, "delta": delta}
        if not H.same(m, im):
            ctx.disagreement("request-parser-model", case, {k: m.get(k) for k in ("outcome", "msgs", "state")}, im)
        # --- oracles on the implementation ---
        if im["outcome"].startswith("ESCAPE"):
            ctx.violation(case, f"request parser let a non-HTTP exception escape: {im['outcome']}")
        if im.get("urlexc"):
            ctx.violation(case, "request parser accepted a target whose URL raises when read (escapes RequestHandler.start, "
                                f"no 400 is sent): {im['urlexc'][0]}")
        if im["outcome"].startswith("OK"):
            why = retained_ok(im, lim, len(segs[-1]))
            if why:
                ctx.violation(case, "request parser retains too much: " + why)
        if kind == "unterminated":
            if not im["outcome"].startswith("ERR") and not any(m["exc"] for m in im["msgs"]):
                ctx.violation(case, f"an unterminated {pos} of {len(s)} bytes is buffered instead of rejected: {im['state']}")
        elif pos is not None:
            rejected = im["outcome"].startswith("ERR")
            if delta > 0 and not rejected:
                ctx.violation(case, f"limit not enforced: {pos} exceeds its limit by one and is accepted ({im['outcome']})")
            if delta <= 0 and rejected and len(segs) == 1:
                ctx.violation(case, f"limit too strict: {pos} at limit{delta:+d} is rejected one-shot ({im['outcome']})")
    ctx.sample({"suite": "request", "lim": list(cases[-1][1]), "segs": [x.hex()[:80] for x in cases[-1][0][:3]]})
    ctx.close_suite("request-parser-model", ran)
    import logging
    logging.getLogger("aiohttp.server").setLevel(logging.CRITICAL)

    # response parser: exception classes, limits, retained bytes (implementation only)
    nr = 500 if ctx.quick else 8000
    for i in range(nr):
        r = rng.random()
        s = H.rand_bytes(rng, rng.randint(0, 100)) if r < 0.2 else H.gen_response_stream(rng)
        if r > 0.8:
            s = H.mutate_bytes(rng, s)
        lim = H.DEFAULT_LIM if rng.random() < 0.4 else rng.choice(H.SMALL_LIMS)
        for segs in H.segmentations(rng, s, True)[:3]:
            im = H.impl_run_response(segs, lim, method=rng.choice(["GET", "HEAD"]), eof=rng.random() < 0.7)
            ctx.case((s, lim, len(segs), "resp"), nontrivial=im["outcome"].startswith(("ERR", "EOFERR")) or bool(im["msgs"]))
            ctx.count("resp-outcome:" + im["outcome"].split("@")[0])
            case = {"parser": "response", "lim": list(lim), "segs": [x.hex() for x in segs]}
            if im["outcome"].startswith("ESCAPE"):
                ctx.violation(case, f"response parser let a non-HTTP exception escape: {im['outcome']}")
            elif im["outcome"].startswith("OK"):
                why = retained_ok(im, lim, len(segs[-1]))
                if why:
                    ctx.violation(case, "response parser retains too much: " + why)
    # response limits, directed
    for lim in lims:
        ml, mf, mh, _ = lim
        for delta in (-1, 0, 1):
            streams = {
                "status-line": b"HTTP/1.1 200 " + b"R" * (ml + delta - 13) + b"\r\nContent-Length: 0\r\n\r\n",
                "field": b"HTTP/1.1 200 OK\r\nX-L: " + b"v" * (mf + delta - 5) + b"\r\nContent-Length: 0\r\n\r\n",
                "header-count": b"HTTP/1.1 200 OK\r\n" + b"".join(b"X-%d: v\r\n" % k for k in range(mh + delta - 2)) + b"\r\n",
            }
            for pos, s in streams.items():
                for segs in ([s], [s[i:i + 1] for i in range(len(s))] if len(s) < 700 else [s]):
                    im = H.impl_run_response(segs, lim, eof=False)
                    ctx.case((s, lim, len(segs), "resp-edge"), nontrivial=True)
                    ctx.count(f"resp-edge:{pos}:{delta:+d}")
                    rejected = im["outcome"].startswith("ERR")
                    case = {"parser": "response", "lim": list(lim), "segs": [x.hex() for x in segs], "pos": pos, "delta": delta}
                    if delta > 0 and not rejected:
                        ctx.violation(case, f"response limit not enforced: {pos} exceeds its limit by one and is accepted")
                    if delta <= 0 and rejected and len(segs) == 1:
                        ctx.violation(case, f"response limit too strict: {pos} at limit{delta:+d} rejected one-shot ({im['outcome']})")

    # lax response parser: folded field values add up against max_field_size; unterminated lines
    for lim in [(200, 60, 50, 0), (8190, 100, 128, 0), (8190, 8190, 128, 0)] + lims[1:]:
        ml, mf, mh, _ = lim
        # every physical line, and the first piece plus any single continuation, stays under the limit;
        # only the running total exceeds it
        piece = b"v" * max(1, mf // 4)
        cont = b"".join(b"\r\n " + piece for _ in range(6))
        folded = b"HTTP/1.1 200 OK\r\nX-F: " + piece + cont + b"\r\nContent-Length: 0\r\n\r\n"
        chunked_folded = b"HTTP/1.1 200 OK\r\nTransfer-Encoding: chunked\r\n\r\n0\r\nX-F: " + piece + cont + b"\r\n\r\n"
        for name, s in (("folded-field", folded), ("folded-trailer", chunked_folded)):
            for segs in ([s], [s[i:i + 5] for i in range(0, len(s), 5)]):
                im = H.impl_run_response(segs, lim, eof=False)
                ctx.case((s, lim, len(segs), "resp-fold"), nontrivial=True)
                ctx.count("resp-edge:" + name)
                if not (im["outcome"].startswith("ERR") or any(m["exc"] for m in im["msgs"])):
                    ctx.violation({"parser": "response", "lim": list(lim), "segs": [x.hex() for x in segs], "pos": name, "delta": 1},
                                  f"response limit not enforced: {name} of about {7 * (mf // 4)} bytes accepted with max_field_size={mf}")
        pad = b"z" * (max(ml, mf) * 3 + 40)
        for name, s in (("status-line", b"HTTP/1.1 200 " + pad), ("field", b"HTTP/1.1 200 OK\r\nX: " + pad),
                        ("trailer", b"HTTP/1.1 200 OK\r\nTransfer-Encoding: chunked\r\n\r\n0\r\nX-T: " + pad),
                        ("chunk-size", b"HTTP/1.1 200 OK\r\nTransfer-Encoding: chunked\r\n\r\n" + b"0" * len(pad))):
            segs = [s[i:i + 9] for i in range(0, len(s), 9)]
            im = H.impl_run_response(segs, lim, eof=False)
            ctx.case((s, lim, len(segs), "resp-unterminated"), nontrivial=True)
            ctx.count("resp-unterminated:" + name)
            case = {"parser": "response", "lim": list(lim), "segs": [x.hex() for x in segs], "pos": name, "delta": 1}
            if im["outcome"].startswith("OK"):
                why = retained_ok(im, lim, 9)
                if why or not any(m["exc"] for m in im["msgs"]):
                    ctx.violation(case, f"response parser buffers an unterminated {name} without bound: {why or im['state']}")

    run_response_model(ctx, lims)
    suite_server_late_errors(ctx)

    # server level: parse errors become a 400 and the connection is closed; nothing escapes
    from harness.common.loop import VLoop
    loop = VLoop()
    asyncio.set_event_loop(loop)
    try:
        ns = 60 if ctx.quick else 600
        tried = 0
        directed = [(x, "non-utf8") for x in H.non_utf8_streams()]
        for i in range(ns * 4 + len(directed)):
            if tried >= ns + len(directed):
                break
            s, cls = directed[i] if i < len(directed) else H.mutate_smuggling(rng, H.gen_request(rng))
            one = H.impl_run([s], H.DEFAULT_LIM)
            if not one["outcome"].startswith("ERR"):
                continue
            tried += 1
            out, closed, esc = server_roundtrip(loop, s)
            ctx.case((s, "server"), nontrivial=True)
            ctx.count("server:" + cls)
            case = {"parser": "server", "stream": s.hex()}
            if esc:
                ctx.violation(case, f"exception {esc} escaped RequestHandler.data_received")
            elif loop.exceptions:
                ctx.violation(case, f"loop exception handler called: {loop.exceptions[0].get('message')} {loop.exceptions[0].get('exception')!r}")
                loop.exceptions.clear()
            elif not re.match(rb"HTTP/\d\.\d 400 ", out) or not closed:
                # the last response on the connection must be a 400 and the transport closed (the status line
                # repeats the request's version digits, e.g. 'HTTP/2.0 400': not this property's business)
                heads = [m.start() for m in re.finditer(rb"HTTP/\d\.\d \d\d\d ", out)]
                last = heads[-1] if heads else -1
                if last < 0 or out[last + 9:last + 12] != b"400" or not closed:
                    ctx.violation(case, f"unparsable request not answered with 400+close: closed={closed} out={out[:120]!r}")
        ctx.sample({"suite": "server", "stream": s.hex()[:200]})
    finally:
        asyncio.set_event_loop(None)
        loop.close()


def response_edge_streams(lim):
    """Responses in which one line sits at limit-1 / limit / limit+1 in every syntactic position of the lax
    dialect (status line, field, folded field total, chunk-size line, trailer, header / trailer count), with the
    read boundaries around that line's terminator.  Yields (stream, position, delta, cuts)."""
    ml, mf, mh, _ = lim
    out = []
    ch = b"HTTP/1.1 200 OK\r\nTransfer-Encoding: chunked\r\n\r\n"
    for delta in (-1, 0, 1):
        for eol in (b"\r\n", b"\n"):
            items = []
            line = b"HTTP/1.1 200 " + b"R" * max(0, ml + delta - 13)
            items.append(("status-line", b"", line, eol + b"Content-Length: 0" + eol + eol))
            line = b"X-L: " + b"v" * max(0, mf + delta - 5)
            items.append(("field", b"HTTP/1.1 200 OK" + eol, line, eol + b"Content-Length: 0" + eol + eol))
            piece = b"v" * max(1, (mf + delta) // 3)
            rest = mf + delta - len(piece)
            if rest > 2:
                line = b"X-F: " + piece + eol + b" " + b"w" * (rest - 1)
                items.append(("folded-total", b"HTTP/1.1 200 OK" + eol, line, eol + b"Content-Length: 0" + eol + eol))
            line = b"3;" + b"e" * max(0, ml + delta - 2 - (len(eol) - 1))       # the chunk-size limit counts the CR
            items.append(("chunk-size", ch, line, eol + b"abc" + eol + b"0" + eol + eol))
            line = b"X-T: " + b"t" * max(0, mf + delta - 5)
            items.append(("trailer", ch + b"3" + eol + b"abc" + eol + b"0" + eol, line, eol + eol))
            for pos, pre, line, post in items:
                s = pre + line + post
                mark = len(pre) + len(line)
                cuts = sorted({c for c in (mark - 1, mark, mark + 1, mark + 2) if 0 < c < len(s)})
                out.append((s, pos, delta, cuts))
        k = mh + delta - 2
        s = b"HTTP/1.1 200 OK\r\n" + b"".join(b"X-%d: v\r\n" % i for i in range(max(0, k))) + b"\r\n"
        out.append((s, "header-count", delta, [len(s) - 2, len(s) - 1]))
        k = mh + delta - 4          # status line + TE + empty = 3 lines of the head; trailers k + empty
        s = ch + b"0\r\n" + b"".join(b"T-%d: v\r\n" % i for i in range(max(0, k))) + b"\r\n"
        out.append((s, "trailer-count", delta, [len(s) - 2, len(s) - 1]))
    return out


def run_response_model(ctx, lims):
    """Suite "response-parser-model": coq/Model/HttpResp.v (extracted) against HttpResponseParser on hostile and
    limit-edge inputs, per segmentation; exception-class / retained-bytes / limit oracles on the implementation; the
    must-reject half of the strict-reading oracle."""
    import time as _t
    cpu0 = _t.process_time()
    okr, exer = R.build_model()
    ctx.oblige("model-runner-build:HTTPRESP", "correspondence", okr, "" if okr else exer)
    if not okr:
        return
    rng = ctx.rng
    cases, meta = [], []
    n = 260 if ctx.quick else 5000
    for i in range(n):
        r = rng.random()
        if r < 0.2:
            s, kind = H.rand_bytes(rng, rng.randint(0, 120)), "random"
        elif r < 0.5:
            s, kind = H.mutate_bytes(rng, R.gen_lax_stream(rng)), "mutated"
        elif r < 0.8:
            s, kind = R.gen_lax_stream(rng), "lax"
        else:
            s, kind = H.gen_response_stream(rng), "family"
        lim = H.DEFAULT_LIM if rng.random() < 0.4 else rng.choice(H.SMALL_LIMS)
        fl = R.flags(rng)
        for segs in H.segmentations(rng, s, True)[: (3 if ctx.quick else 8)]:
            cases.append((segs, lim, *fl))
            meta.append((kind, None, None))
    for lim in lims:
        for s, pos, delta, cuts in response_edge_streams(lim):
            seglist = [[s]] + [[s[:c], s[c:]] for c in cuts]
            if len(s) < 700:
                seglist.append([s[i:i + 1] for i in range(len(s))])
            for segs in seglist:
                cases.append((segs, lim, True, True, False))
                meta.append(("edge", pos, delta))
    for lim in lims[1:]:
        ml, mf, mh, _ = lim
        pad = b"z" * (max(ml, mf) * 3 + 40)
        ch = b"HTTP/1.1 200 OK\r\nTransfer-Encoding: chunked\r\n\r\n"
        for pos, s in (("status-line", b"HTTP/1.1 200 " + pad), ("field", b"HTTP/1.1 200 OK\r\nX: " + pad),
                       ("fold", b"HTTP/1.1 200 OK\r\nX: a\r\n " + pad), ("trailer", ch + b"0\r\nX-T: " + pad),
                       ("chunk-size", ch + b"0" * len(pad)), ("cr-run", b"HTTP/1.1 200 OK" + b"\r" * len(pad))):
            cases.append(([s[i:i + 9] for i in range(0, len(s), 9)], lim, True, True, False))
            meta.append(("unterminated", pos, 1))
    model = R.model_run_many(exer, cases)
    ran = 0
    for c, m, (kind, pos, delta) in zip(cases, model, meta):
        segs, lim = c[0], c[1]
        im = R.impl_run(*c)
        ran += 1
        s = b"".join(segs)
        decided = im["outcome"].startswith(("ERR", "ESC")) or bool(im["msgs"]) or str(im["eof"]).startswith("EOFERR")
        ctx.case((s, c[1:], tuple(len(x) for x in segs), "resp-model"), nontrivial=decided)
        ctx.count("resp-model-kind:" + kind)
        ctx.count("resp-model-outcome:" + im["outcome"].split("@")[0])
        if pos is not None:
            ctx.count(f"resp-model-edge:{pos}:{delta:+d}")
        case = {"parser": "response", "lim": list(lim), "segs": [x.hex() for x in segs], "kind": kind, "pos": pos, "delta": delta,
                "with_body": c[2], "until_eof": c[3], "eof": c[4]}
        if not R.same(m, im):
            ctx.disagreement("response-parser-model", case, R.strip_model(m), im)
        if im["outcome"].startswith("ESCAPE") or str(im["eof"]).startswith("ESCAPE"):
            ctx.violation(case, f"response parser let a non-HTTP exception escape: {im['outcome']} {im['eof']}")
        if im["outcome"].startswith("OK"):
            why = retained_ok(im, lim, len(segs[-1]))
            if why:
                ctx.violation(case, "response parser retains too much: " + why)
        if kind == "unterminated":
            if not im["outcome"].startswith("ERR") and not any(x["exc"] for x in im["msgs"]):
                ctx.violation(case, f"response parser buffers an unterminated {pos} of {len(s)} bytes instead of rejecting it: {im['state']}")
        elif pos is not None:
            rejected = im["outcome"].startswith("ERR")
            if delta > 0 and not rejected:
                ctx.violation(case, f"response limit not enforced: {pos} exceeds its limit by one and is accepted ({im['outcome']})")
            if delta <= 0 and rejected and len(segs) == 1:
                ctx.violation(case, f"response limit too strict: {pos} at limit{delta:+d} is rejected one-shot ({im['outcome']})")
    ctx.sample({"suite": "response-parser-model", "lim": list(cases[-1][1]), "segs": [x.hex()[:80] for x in cases[-1][0][:3]]})
    ctx.close_suite("response-parser-model", ran)
    # strict reading, must-reject half: malformed responses are rejected under every segmentation
    nmr = 0
    for s, what in R.MUST_REJECT:
        seglist = [[s], [s[i:i + 1] for i in range(len(s))]] + [[s[:c], s[c:]] for c in sorted({rng.randint(1, len(s) - 1) for _ in range(3)})]
        for segs in seglist:
            im = R.impl_run(segs, H.DEFAULT_LIM, True, True, True)
            nmr += 1
            ctx.case((s, tuple(len(x) for x in segs), "must-reject"), nontrivial=True)
            if not (im["outcome"].startswith("ERR") or any(x["exc"] for x in im["msgs"])):
                ctx.violation({"parser": "response", "kind": "must-reject", "lim": list(H.DEFAULT_LIM), "segs": [x.hex() for x in segs], "what": what},
                              f"response parser, strict reading: {what} is accepted ({im['outcome']}, {len(im['msgs'])} message(s))")
                break
    # ... and well-formed pipelines are read as RFC 9112 reads them (a sample; harness/c03.py runs the larger one)
    for i in range(25 if ctx.quick else 300):
        st, expected = R.gen_wellformed(rng)
        for segs in H.segmentations(rng, st, True)[:4]:
            im = R.impl_run(segs, H.DEFAULT_LIM, True, True, True)
            nmr += 1
            ctx.case((st, tuple(len(x) for x in segs), "strict-reading"), nontrivial=True)
            why = R.strict_reading_violation(expected, im)
            if why:
                ctx.violation({"parser": "response", "kind": "strict-reading", "lim": list(H.DEFAULT_LIM),
                               "segs": [x.hex() for x in segs], "expected": expected}, "response parser, strict reading: " + why)
                break
    ctx.count("suite:response-must-reject", nmr)
    ctx.notes.append(f"response-parser-model part: {_t.process_time() - cpu0:.1f}s CPU in this process")


def suite_server_late_errors(ctx):
    """Server level (web_protocol.py is one of C10's anchors): an error the parser reports AFTER the head was
    accepted (bad chunk size, over-long chunk line, bad trailer, found only once the handler already runs) must end
    the exchange as an error, never leave the handler waiting or the connection serving what follows.  Reuses the
    in-process RequestHandler driver of harness/c05.py."""
    from harness import c05
    rng = ctx.rng
    cases = [c for c in c05.special_fixed_cases(rng) if c["suite"] == "latebad"]
    for _ in range(30 if ctx.quick else 600):
        cases.append(c05.gen_latebad_case(rng))
    for c in cases:
        r = c05.run_impl(c, shadow=False)
        ctx.case(("server-late", tuple(r["snaps"])), nontrivial=True)
        ctx.count("server:latebad")
        for vkind, text in r["bad"]:
            cc = dict(c)
            cc["vkind"] = vkind
            cc["c10_server_case"] = True
            ctx.violation(cc, f"server level, {vkind}: {text}")
    ctx.count("suite:server-late-error-oracle", len(cases))


def replay(ctx, case):
    if case.get("c10_server_case"):
        from harness import c05
        r = c05.run_impl(case, shadow=False)
        return {"bad": r["bad"], "violates": bool(r["bad"])}
    lim = tuple(case["lim"]) if "lim" in case else H.DEFAULT_LIM
    if case.get("kind") == "strict-reading":
        im = R.impl_run([bytes.fromhex(x) for x in case["segs"]], lim, True, True, True)
        why = R.strict_reading_violation(case["expected"], im)
        return {"observed": im["outcome"], "why": why, "violates": why is not None}
    if case.get("kind") == "must-reject":
        im = R.impl_run([bytes.fromhex(x) for x in case["segs"]], lim, True, True, True)
        return {"impl": im["outcome"], "messages": len(im["msgs"]),
                "violates": not (im["outcome"].startswith("ERR") or any(x["exc"] for x in im["msgs"]))}
    if case.get("parser") == "response":
        im = H.impl_run_response([bytes.fromhex(x) for x in case["segs"]], lim, eof=False)
    elif case.get("parser") == "server":
        return {"violates": None}
    else:
        im = H.impl_run([bytes.fromhex(x) for x in case["segs"]], lim)
    return {"impl": im["outcome"], "urlexc": im.get("urlexc"),
            "violates": im["outcome"].startswith("ESCAPE") or bool(im.get("urlexc"))}
