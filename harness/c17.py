"""C17 — redirects confine credentials and terminate.

Implementation side: the real ClientSession._request is driven on a virtual-time loop against
scripted in-memory origins (harness/common/transport.make_connector) that record every request
they receive and answer from the case's response chain.  Model side: the extracted Gallina model
coq/Model/Redirect.v (ocaml/C17/driver.ml).  The property oracle (`oracle`) works on the
implementation's observable only.

A case (JSON, also the corpus / replay format):
  {"method": "POST", "body": "none|bytes|gen|file|nonseek",
   "auth": tok|null, "cookie_hdr": [[name,val],..]|null, "pauth": tok|null, "req_cookies": [[n,v],..]|null,
   "url": {"sch":0|1, "host":h, "port":null|p, "cred":tok|null, "path":k},
   "max_redirects": n, "allow_redirects": bool, "jar": [[host,name,val],..], "hdr_on_session": bool (headers given as session defaults),
   "chain": [{"status": s, "set_cookie": [[n,v],..], "body": "none|full|partial",
              "loc": {"kind":"abs","sch":..,"host":..,"port":..,"cred":..,"path":k[,"upper":true][,"header":"URI"]}
                   | {"kind":"rel","path":k} | {"kind":"srel","host":..,"port":..,"path":k}
                   | {"kind":"nonhttp","scheme":"ftp|ws|wss|mailto|file"} | {"kind":"none"|"empty"|"invalid"|"nohost"}}, ..]}
Requests beyond the end of the chain are answered 200.
"""
from __future__ import annotations

import asyncio
import base64
import io
import json
import os

from harness.common import framework as fw

PROP = "C17"
GENERATED = ["RedirectGen.v"]
RULE = ("redirect chains of length 0..7 generated from one PRNG: initial request (method x body kind incl. a generator blocked mid-upload x Expect: 100-continue x CookieJar|DummyCookieJar x caller "
        "Authorization / Cookie / Proxy-Authorization headers x per-request cookies x URL with embedded credentials x "
        "headers per request or as session defaults x max_redirects (incl. 0, -1) x allow_redirects x pre-loaded jar) and per hop (status from {301,302,303,307,308,200,404,...} x "
        "Location form {absolute, absolute+credentials, upper-case scheme/host, in a URI header, absolute-path relative, "
        "scheme-relative, missing, empty, invalid, non-HTTP scheme (ftp, ws, wss, mailto, file), host-less} x target origin {same, other port, explicit default port, other scheme, other "
        "host, sub-domain} x Set-Cookie x response body {none, full, truncated}); plus systematic chains "
        "(every status x method x body kind for one hop; A->B->A for every pair of origins).  Non-trivial = at "
        "least one redirect was followed; distinct by hash of the implementation observable.")
TRUSTED = [
    "translator/gen_redirect.py (redirect status tuple, HTTP_AND_EMPTY_SCHEMA_SET, ast shape of the method/body "
    "table, of the max_redirects test, of the origin comparison + the three popall calls, of strip_auth_from_url)",
    "extraction: ExtrOcamlBasic only; ocaml/common/conv.ml + ocaml/C17/driver.ml (decimal token I/O)",
    "correspondence harness harness/c17.py (scripted in-memory origins, request recorder, canonicaliser): sampled, not proved",
    "modelled, not verified: yarl URL parsing / join / origin() (the harness hands the model the parsed Location form "
    "and checks yarl's answer on the same strings), http.cookies / CookieJar selection (model jar = host-only cookies; "
    "C16 covers the jar), payload classes' `consumed` flag, asyncio",
]
ASSUMPTIONS = [
    "trust_env=False, no proxy, no middlewares, no retry after a dropped persistent connection (origins never disconnect before answering).",
    "Origins answer only after the complete request body has arrived.",
    "Model/implementation agreement is validated on the generated cases only.",
]

HOSTS = ["a.test", "b.test", "sub.a.test"]
SCHEMES = ["http", "https"]
DEFAULT_PORT = [80, 443]
BODY_BYTES = {"none": b"", "bytes": b"payload-bytes", "gen": b"gen-chunk-1gen-chunk-2", "file": b"file-like-body",
              "gengate": b"gated-chunk-1gated-chunk-2",
              "nonseek": b"non-seekable-body", "form": b"k=v"}
METHODS = ["GET", "HEAD", "POST", "PUT", "DELETE", "PATCH", "OPTIONS"]
REDIRECT_STATUSES = [301, 302, 303, 307, 308]


# ---------------------------------------------------------------------------------------------
# concrete strings for the abstract tokens

def auth_str(t):
    return f"Bearer caller-token-{t}"


def pauth_str(t):
    return f"Basic proxy-secret-{t}"


def urlcred(t):
    return f"u{t}", f"p{t}"


def urlcred_header(t):
    u, p = urlcred(t)
    return "Basic " + base64.b64encode(f"{u}:{p}".encode()).decode()


def url_str(u):
    s = SCHEMES[u["sch"]] + "://"
    if u.get("cred") is not None:
        us, pw = urlcred(u["cred"])
        s += f"{us}:{pw}@"
    s += HOSTS[u["host"]]
    if u.get("port") is not None:
        s += f":{u['port']}"
    return s + f"/p{u['path']}"


NONHTTP_URLS = {"ftp": "ftp://b.test/p1", "ws": "ws://b.test/p1", "wss": "wss://a.test/p1", "mailto": "mailto:someone@b.test",
                "file": "file:///etc/passwd"}
NONHTTP_CODES = {"ftp": 4, "ws": 2, "wss": 3, "mailto": 5, "file": 6}      # translator/gen_redirect.SCHEME_CODES


def loc_str(loc):
    k = loc["kind"]
    if k == "abs":
        u = url_str(loc)
        if loc.get("upper"):           # scheme and host are case-insensitive
            head, sep, tail = u.partition("/p")
            u = head.replace("http", "HTTP").replace(".test", ".TEST") + sep + tail
        return u
    if k == "empty":
        return ""
    if k == "rel":
        return f"/p{loc['path']}"
    if k == "srel":
        return "//" + HOSTS[loc["host"]] + (f":{loc['port']}" if loc.get("port") is not None else "") + f"/p{loc['path']}"
    if k == "invalid":
        return "http://[::1"
    if k == "nonhttp":
        return NONHTTP_URLS[loc.get("scheme", "ftp")]
    if k == "nohost":
        return "http:///p1"
    return None


def eff_port(sch, port):
    return DEFAULT_PORT[sch] if port is None else port


# ---------------------------------------------------------------------------------------------
# implementation runner

class _Origin:
    """One in-memory connection to an origin; parses requests, records them, answers from the chain."""

    def __init__(self, run, sch, host, port):
        self.run, self.sch, self.host, self.port = run, sch, host, port
        self.buf = bytearray()
        self.head_seen = False       # head of the request at the front of buf already handled
        self.answered_early = False  # ... and already answered: its body, if it still comes, is dropped

    def on_bytes(self, tr, data):
        self.buf += data
        while True:
            if not self.head_seen and b"\r\n\r\n" in self.buf:
                self.head_seen = True
                self.answered_early = self.run.head_received(self, tr, self._head())
            req = self._parse()
            if req is None:
                return
            early, self.head_seen, self.answered_early = self.answered_early, False, False
            if not early:
                self.run.received(self, tr, req)

    def _head(self):
        i = self.buf.find(b"\r\n\r\n")
        head = bytes(self.buf[:i]).decode("latin-1").split("\r\n")
        method, target, _ = head[0].split(" ", 2)
        hs = []
        for ln in head[1:]:
            k, _, v = ln.partition(":")
            hs.append((k.strip().lower(), v.strip()))
        return {"method": method, "target": target, "headers": hs, "body": b""}

    def _parse(self):
        i = self.buf.find(b"\r\n\r\n")
        if i < 0:
            return None
        head = bytes(self.buf[:i]).decode("latin-1").split("\r\n")
        method, target, _ = head[0].split(" ", 2)
        hs = []
        for ln in head[1:]:
            k, _, v = ln.partition(":")
            hs.append((k.strip().lower(), v.strip()))
        rest = self.buf[i + 4:]
        te = [v for k, v in hs if k == "transfer-encoding"]
        cl = [v for k, v in hs if k == "content-length"]
        if te and "chunked" in te[0].lower():
            body = bytearray()
            pos = 0
            while True:
                j = rest.find(b"\r\n", pos)
                if j < 0:
                    return None
                n = int(bytes(rest[pos:j]).split(b";")[0], 16)
                if n == 0:
                    k2 = rest.find(b"\r\n", j + 2)
                    if k2 < 0:
                        return None
                    # no trailers are sent by the client
                    used = j + 2 + 2
                    break
                if len(rest) < j + 2 + n + 2:
                    return None
                body += rest[j + 2:j + 2 + n]
                pos = j + 2 + n + 2
            body = bytes(body)
        elif cl:
            n = int(cl[0])
            if len(rest) < n:
                return None
            body, used = bytes(rest[:n]), n
        else:
            body, used = b"", 0
        del self.buf[:i + 4 + used]
        return {"method": method, "target": target, "headers": hs, "body": body}


class _Run:
    def __init__(self, loop, case):
        self.loop, self.case = loop, case
        self.requests = []
        self.responses = []      # every ClientResponse object created, in order
        self.main_done = False   # requests after the call under test are answered 200
        self.gate = None         # asyncio.Event the gated generator body waits for

    def step_for(self, idx):
        chain = self.case["chain"]
        if self.main_done or idx >= len(chain):
            return {"status": 200, "set_cookie": [], "body": "none", "loc": {"kind": "none"}}
        return chain[idx]

    def head_received(self, origin, tr, req):
        """Called when the head of a request is complete.  Returns True when the request was answered
        right away (the scripted response arrives while the client has not sent the body)."""
        hs = dict(req["headers"])
        expects = hs.get("expect", "").lower() == "100-continue"
        gated = self.case.get("body") == "gengate" and "chunked" in hs.get("transfer-encoding", "").lower()
        step = self.step_for(len(self.requests))
        if step.get("early") and (expects or gated):
            req["early"] = True
            req["unsent"] = expects
            self.received(origin, tr, req)
            return True
        if expects:
            self.loop.call_soon(self._deliver, tr, b"HTTP/1.1 100 Continue\r\n\r\n")
        if self.gate is not None:
            self.gate.set()
        return False

    def factory(self, req):
        u = req.url
        return _Origin(self, u.scheme, u.raw_host, u.port)

    def received(self, origin, tr, req):
        idx = len(self.requests)
        req["origin"] = (origin.sch, origin.host, origin.port)
        req["phase"] = "later" if self.main_done else "main"
        step = self.step_for(idx)
        self.requests.append(req)
        lines = [f"HTTP/1.1 {step['status']} R"]
        loc = loc_str(step.get("loc") or {"kind": "none"})
        if loc is not None:
            lines.append(f"{(step.get('loc') or {}).get('header', 'Location')}: {loc}")
        for n, v in step.get("set_cookie") or []:
            lines.append(f"Set-Cookie: c{n}=v{v}")
        bk = step.get("body", "none")
        payload = b""
        if req["method"] == "HEAD" or bk == "none":
            lines.append("Content-Length: 0")
        elif bk == "full":
            lines.append("Content-Length: 5")
            payload = b"hello"
        elif bk == "nolength":
            pass                     # delimited by the end of the connection, which the origin keeps open
        else:
            lines.append("Content-Length: 5")
            payload = b"he"
        data = ("\r\n".join(lines) + "\r\n\r\n").encode() + payload
        self.loop.call_soon(self._deliver, tr, data)

    @staticmethod
    def _deliver(tr, data):
        if not tr.closed and tr.protocol is not None:
            tr.protocol.data_received(data)


class _NonSeekable(io.RawIOBase):
    def __init__(self, data):
        self._b = io.BytesIO(data)

    def readable(self):
        return True

    def seekable(self):
        return False

    def tell(self):
        raise OSError("not seekable")

    def seek(self, *a):
        raise OSError("not seekable")

    def readinto(self, b):
        d = self._b.read(len(b))
        b[:len(d)] = d
        return len(d)


def _make_body(kind, run=None):
    if kind == "gengate":
        async def gated():
            yield b"gated-chunk-1"
            await run.gate.wait()       # opened by the origin once it has decided not to answer early
            yield b"gated-chunk-2"
        return gated()
    if kind == "none":
        return None
    if kind == "bytes":
        return BODY_BYTES["bytes"]
    if kind == "file":
        return io.BytesIO(BODY_BYTES["file"])
    if kind == "nonseek":
        return io.BufferedReader(_NonSeekable(BODY_BYTES["nonseek"]))
    if kind == "form":
        return {"k": "v"}
    if kind == "gen":
        async def gen():
            yield b"gen-chunk-1"
            yield b"gen-chunk-2"
        return gen()
    raise ValueError(kind)


def impl_run(case):
    """Run one case on the real client.  Returns the canonical implementation observable."""
    import aiohttp
    from yarl import URL
    from harness.common.loop import VLoop
    from harness.common.transport import make_connector

    class InlineLoop(VLoop):
        """Virtual time and worker threads do not mix: run executor jobs (file reads of IOBasePayload) inline."""

        def run_in_executor(self, executor, func, *args):
            fut = self.create_future()
            try:
                fut.set_result(func(*args))
            except BaseException as e:  # noqa
                fut.set_exception(e)
            return fut

    loop = InlineLoop()
    asyncio.set_event_loop(loop)
    run = _Run(loop, case)

    class RecResponse(aiohttp.ClientResponse):
        def __init__(self, *a, **kw):
            super().__init__(*a, **kw)
            run.responses.append(self)

    async def go():
        from http.cookies import SimpleCookie
        run.gate = asyncio.Event()
        conn = make_connector(loop, run.factory)
        if case.get("jar_kind") == "dummy":
            jar = aiohttp.DummyCookieJar()
        else:
            jar = aiohttp.CookieJar()
            for e in case.get("jar") or []:
                h, n, v = e[:3]
                scope = e[3] if len(e) > 3 else None
                jar.update_cookies(SimpleCookie(f"c{n}=v{v}" + (f"; Path=/p{scope}" if scope is not None else "")),
                                   response_url=URL(f"http://{HOSTS[h]}/"))
        headers = []
        if case.get("auth") is not None:
            headers.append(("Authorization", auth_str(case["auth"])))
        if case.get("cookie_hdr") is not None:
            headers.append(("Cookie", "; ".join(f"c{n}=v{v}" for n, v in case["cookie_hdr"])))
        if case.get("pauth") is not None:
            headers.append(("Proxy-Authorization", pauth_str(case["pauth"])))
        if case.get("hdr_on_session"):
            # the same headers supplied as session defaults (merged by _prepare_headers)
            session = aiohttp.ClientSession(connector=conn, cookie_jar=jar, response_class=RecResponse, headers=headers or None)
            headers = []
        else:
            session = aiohttp.ClientSession(connector=conn, cookie_jar=jar, response_class=RecResponse)
        kw = {}
        if case.get("req_cookies") is not None:
            kw["cookies"] = {f"c{n}": f"v{v}" for n, v in case["req_cookies"]}
        out = {}
        resp = None
        try:
            resp = await session.request(
                case["method"], url_str(case["url"]), headers=headers or None, data=_make_body(case["body"], run),
                max_redirects=case.get("max_redirects", 10), allow_redirects=case.get("allow_redirects", True),
                expect100=bool(case.get("expect100")), **kw)
            out["outcome"] = "done"
            out["status"] = resp.status
            out["final_url"] = str(resp.url)
            out["history"] = [(r.status, str(r.url)) for r in resp.history]
            hist = list(resp.history)
        except aiohttp.TooManyRedirects as e:
            out["outcome"] = "TooManyRedirects"
            out["history"] = [(r.status, str(r.url)) for r in e.history]
            hist = list(e.history)
        except Exception as e:  # noqa
            out["outcome"] = type(e).__name__
            out["history"] = None
            hist = None
        # every response object created, and what became of the ones not handed to the caller
        created = list(run.responses)
        out["created"] = [(r.status, str(r.url)) for r in created]
        out["unreleased"] = [i for i, r in enumerate(created) if r is not resp and r._connection is not None]
        out["history_is_created_prefix"] = None if hist is None else all(
            i < len(created) and created[i] is h for i, h in enumerate(hist))
        out["final_in_history"] = bool(resp is not None and hist and hist[-1] is resp)
        if resp is not None:
            try:
                await resp.read()
            except Exception:  # noqa  (truncated final body)
                pass
            resp.release()
        run.main_done = True
        run.gate.set()
        for _ in range(10):              # let cancelled writers / deferred releases settle
            await asyncio.sleep(0)
        out["acquired_after"] = len(conn._acquired)
        # what is left of the call: connections, request-body writers, tasks, transports
        out["unreleased_after"] = [i for i, r in enumerate(created) if r._connection is not None]

        def writer_of(r):
            return getattr(r, "_ClientResponse__writer", None)
        out["writers_alive"] = [i for i, r in enumerate(created) if writer_of(r) is not None and not writer_of(r).done()]
        me = asyncio.current_task()
        out["pending_tasks"] = len([t for t in asyncio.all_tasks(loop) if t is not me and not t.done()])
        pooled = {id(p) for dq in conn._conns.values() for p, _ in dq}
        out["transports_dangling"] = [i for i, t in enumerate(conn.transports) if not t.closed and id(t.protocol) not in pooled]
        # later requests of the same session (nothing supplied with them)
        for fu in case.get("followups") or []:
            try:
                r2 = await session.get(url_str(dict(fu, cred=None)), allow_redirects=False)
                await r2.read()
                r2.release()
            except Exception as e:  # noqa
                out.setdefault("followup_errors", []).append(type(e).__name__)
        await session.close()
        return out

    try:
        out = loop.run_until_complete(asyncio.wait_for(go(), 3600))
    finally:
        try:
            pend = [t for t in asyncio.all_tasks(loop) if not t.done()]
            for t in pend:
                t.cancel()
            if pend:
                loop.run_until_complete(asyncio.gather(*pend, return_exceptions=True))
            loop.run_until_complete(loop.shutdown_asyncgens())
        finally:
            asyncio.set_event_loop(None)
            loop.close()
    out["requests"] = [canon_request(r) for r in run.requests if r["phase"] == "main"]
    out["later_requests"] = [canon_request(r) for r in run.requests if r["phase"] == "later"]
    return out


def _parse_cookie_header(v):
    out = []
    for part in v.split(";"):
        part = part.strip()
        if not part:
            continue
        n, _, val = part.partition("=")
        out.append((n.strip(), val.strip()))
    return sorted(out)


def canon_request(r):
    hs = r["headers"]

    def get(name):
        vs = [v for k, v in hs if k == name]
        return vs
    sch, host, port = r["origin"]
    cookies = []
    for v in get("cookie"):
        cookies += _parse_cookie_header(v)
    return {
        "sch": sch, "host": host, "port": port,
        "host_header": get("host"),
        "method": r["method"], "target": r["target"],
        "auth": get("authorization"), "pauth": get("proxy-authorization"),
        "cookies": sorted(cookies), "n_cookie_headers": len(get("cookie")),
        "body": r["body"].decode("latin-1"),
        "content_length": get("content-length"),
        "early": bool(r.get("early")), "unsent": bool(r.get("unsent")), "expect": get("expect"),
    }



# ---------------------------------------------------------------------------------------------
# model side

BODY_CODE = {"none": "N", "bytes": "R1", "file": "R2", "form": "R3", "gen": "O4", "nonseek": "O5", "gengate": "O6"}
ONE_SHOT = ("gen", "nonseek", "gengate")
BODY_OF_CODE = {v: k for k, v in BODY_CODE.items()}
NONHTTP_SCHEME_CODE = 4      # ftp, see translator/gen_redirect.SCHEME_CODES
ERR_CLASS = {"AuthConflict": "ValueError", "TooManyRedirects": "TooManyRedirects", "PayloadConsumed": "ClientPayloadError",
             "InvalidRedirect": "InvalidUrlRedirectClientError", "NonHttpRedirect": "NonHttpUrlRedirectClientError"}


def build_model():
    return fw.ocaml_model("C17", ["Model/Redirect.vo"])


def _optn(x):
    return "_" if x is None else str(x)


def _ckopt(l):
    if l is None:
        return "~"
    return ",".join(f"{n}:{v}" for n, v in l) if l else "-"


def _url(u):
    return f"{u['sch']}.{u['host']}.{_optn(u.get('port'))}.{_optn(u.get('cred'))}.{u['path']}"


def _loc(loc):
    k = loc["kind"]
    if k in ("none", "empty"):
        return "N"
    if k == "invalid":
        return "I"
    if k == "nohost":
        return "H"
    if k == "nonhttp":
        return f"A{NONHTTP_CODES[loc.get('scheme', 'ftp')]}.1._._.1"
    if k == "abs":
        return "A" + _url(loc)
    if k == "rel":
        return f"R{loc['path']}"
    if k == "srel":
        return f"S{loc['host']}.{_optn(loc.get('port'))}.{loc['path']}"
    raise ValueError(k)


def method_code(m):
    return METHODS.index(m) if m in METHODS else 7 + sum(map(ord, m)) % 50


def model_line(case, raw=None):
    """raw = impl_run's result: tells for which hops the origin answered before any body byte was written
    (an observation about the environment, like the response itself)."""
    chain = list(case["chain"]) + [{"status": 200, "set_cookie": [], "loc": {"kind": "none"}}]
    dummy = case.get("jar_kind") == "dummy"
    jar = [] if dummy else (case.get("jar") or [])
    parts = ["RUN", str(case.get("max_redirects", 10)), "1" if case.get("allow_redirects", True) else "0",
             str(method_code(case["method"])), BODY_CODE[case["body"]], _optn(case.get("auth")), _ckopt(case.get("cookie_hdr")),
             _optn(case.get("pauth")), _ckopt(case.get("req_cookies")), "0", _url(case["url"]),
             ",".join(":".join(str(x) for x in e if x is not None) for e in jar) or "-"]
    reqs = (raw or {}).get("requests") or []
    for i, st in enumerate(chain):
        unsent = "1" if i < len(reqs) and reqs[i].get("unsent") else "0"
        sc = [] if dummy else (st.get("set_cookie") or [])
        parts.append(f"{st['status']}/{_ckopt(sc)}/{_loc(st.get('loc') or {'kind': 'none'})}/{unsent}")
    return " ".join(parts)


def _pairs(s):
    return [] if s in ("-", "~") else [tuple(int(x) for x in p.split(":")) for p in s.split(",")]


def _hist(s):
    out = []
    if s != "-":
        for e in s.split(","):
            st, sch, host, port, path = e.split(".")
            sch = int(sch)
            out.append([int(st), sch, int(host), eff_port(sch, None if port == "_" else int(port)), int(path)])
    return out


def model_obs(answer, raw=None):
    """Canonical observable from the driver's answer line.  The body of a hop that the origin answered
    early is not compared (marker "early" on both sides)."""
    sents_s, disps, outcome = [x.strip() for x in answer.split(" # ")]
    reqs = []
    for s in (sents_s.split("|") if sents_s else []):
        f = s.split(";")
        sch, host, _port = f[0].split(".")
        m = int(f[3])
        reqs.append({"sch": int(sch), "host": int(host), "port": int(f[12]), "method": METHODS[m] if m < 7 else f"M{m}",
                     "path": int(f[1]), "auth": None if f[5] == "_" else f[5], "pauth": None if f[7] == "_" else int(f[7]),
                     "cookies": sorted(list(p) for p in _pairs(f[11])), "body": BODY_OF_CODE[f[4]]})
    if outcome == "P":
        oc = {"outcome": "pending"}
    else:
        tag, _, h = outcome.partition(":")
        if tag[0] == "D":
            oc = {"outcome": "done", "status": int(tag[1:]), "history": _hist(h)}
        else:
            e = ERR_CLASS[tag[1:]]
            oc = {"outcome": e, "history": _hist(h) if e == "TooManyRedirects" else None}
    ireqs = (raw or {}).get("requests") or []
    for i, r in enumerate(reqs):
        if i < len(ireqs) and ireqs[i].get("early"):
            r["body"] = "early"
    oc["requests"] = reqs
    oc["responses"] = "" if disps == "-" else "".join("t" if d == "t" else "f" for d in disps)
    return oc


def _parse_url(s):
    from yarl import URL
    u = URL(s)
    try:
        path = int(u.path[2:]) if u.path.startswith("/p") else u.path
    except ValueError:
        path = u.path
    return [SCHEMES.index(u.scheme) if u.scheme in SCHEMES else u.scheme, HOSTS.index(u.raw_host) if u.raw_host in HOSTS else u.raw_host,
            u.port, path]


def impl_obs(case, out):
    """Canonical observable from impl_run's result, same shape as model_obs."""
    auth_tab = {}
    if case.get("auth") is not None:
        auth_tab[auth_str(case["auth"])] = f"C{case['auth']}"
    creds = [case["url"].get("cred")] + [(st.get("loc") or {}).get("cred") for st in case["chain"]]
    for t in creds:
        if t is not None:
            auth_tab[urlcred_header(t)] = f"U{t}"
    pa_tab = {pauth_str(case["pauth"]): case["pauth"]} if case.get("pauth") is not None else {}
    def canon(r):
        def one(vals, tab):
            if not vals:
                return None
            if len(vals) == 1:
                return tab.get(vals[0], "?" + vals[0])
            return ["multi"] + vals
        cookies = []
        for n, v in r["cookies"]:
            try:
                cookies.append([int(n[1:]), int(v[1:])])
            except ValueError:
                cookies.append([n, v])
        body = [k for k, b in BODY_BYTES.items() if b.decode() == r["body"]]
        tgt = r["target"]
        return {"sch": SCHEMES.index(r["sch"]) if r["sch"] in SCHEMES else r["sch"],
                "host": HOSTS.index(r["host"]) if r["host"] in HOSTS else r["host"], "port": r["port"],
                "method": r["method"] if r["method"] in METHODS else f"M{method_code(r['method'])}",
                "path": int(tgt[2:]) if tgt.startswith("/p") and tgt[2:].isdigit() else tgt,
                "auth": one(r["auth"], auth_tab), "pauth": one(r["pauth"], pa_tab),
                "cookies": sorted(cookies), "body": "early" if r.get("early") else (body[0] if body else "?" + r["body"])}
    reqs = [canon(r) for r in out["requests"]]
    out["later_canon"] = [canon(r) for r in out.get("later_requests") or []]
    oc = {"outcome": out["outcome"]}
    if out["outcome"] == "done":
        oc["status"] = out["status"]
    if out["outcome"] in ("done", "TooManyRedirects"):
        oc["history"] = [[st] + _parse_url(u) for st, u in out["history"]]
    else:
        oc["history"] = None
    oc["requests"] = reqs
    n = len(out["created"])
    un = set(out["unreleased"])
    returned = n - 1 if out["outcome"] == "done" else None
    oc["responses"] = "".join("t" if i == returned else ("L" if i in un else "f") for i in range(n))
    return oc


# ---------------------------------------------------------------------------------------------
# property oracle: evaluated on the implementation's observable only (no model)

def true_origin(r):
    return (r["sch"], r["host"], r["port"])


def doc_table(status, method, body):
    """Documented transformation: 303 (not HEAD) and 301/302 on POST become GET without body."""
    if (status == 303 and method != "HEAD") or (status in (301, 302) and method == "POST"):
        return "GET", "none"
    return method, body


def oracle(case, obs, raw):
    """List of (kind, message) for every way the implementation's behaviour on this case
    contradicts the property."""
    bad = []
    reqs = obs["requests"]
    chain = case["chain"]
    n = len(reqs)
    if n == 0:
        return bad
    # 1. caller-supplied credentials stay on the origin they were supplied for
    o0 = true_origin(reqs[0])
    left = None
    for i, r in enumerate(reqs):
        if true_origin(r) != o0 and left is None:
            left = i
    hdr_vals = {v for _, v in case.get("cookie_hdr") or []}
    req_vals = {v for _, v in case.get("req_cookies") or []}
    for i, r in enumerate(reqs):
        leaks = []
        if case.get("auth") is not None and r["auth"] == f"C{case['auth']}":
            leaks.append("Authorization")
        if r["auth"] is not None and not isinstance(r["auth"], str):
            leaks.append("several Authorization headers")
        if case.get("pauth") is not None and r["pauth"] is not None:
            leaks.append("Proxy-Authorization")
        if any(v in hdr_vals for _, v in r["cookies"]):
            leaks.append("Cookie header")
        if any(v in req_vals for _, v in r["cookies"]):
            leaks.append("per-request cookies")
        if leaks and left is not None and i >= left:
            where = "a different origin" if true_origin(r) != o0 else "the first origin again after the chain had left it"
            bad.append(("credential_leak", f"request {i} to {r['sch']}:{r['host']}:{r['port']} ({where}) carries caller-supplied {', '.join(leaks)}"))
    # 2. URL-embedded credentials: only to the hop whose URL carried them and same-origin successors
    carried = [case["url"].get("cred")] + [(chain[i].get("loc") or {}).get("cred") if i < len(chain) else None for i in range(n - 1)]
    for i, r in enumerate(reqs):
        if isinstance(r["auth"], str) and r["auth"].startswith("U"):
            t = int(r["auth"][1:])
            ok = False
            for k in range(i, -1, -1):
                if true_origin(reqs[k]) != true_origin(r):
                    break
                if carried[k] == t:
                    ok = True
                    break
            if not ok:
                bad.append(("url_credential_leak", f"request {i} carries credentials u{t} that no URL of its same-origin run embedded"))
        elif isinstance(r["auth"], str) and r["auth"].startswith("?"):
            bad.append(("unknown_authorization", f"request {i} carries an Authorization nobody supplied: {r['auth']}"))
    # 3. jar cookies are selected anew for every hop (host-only cookies: exactly those of this hop's host)
    dummy = case.get("jar_kind") == "dummy"
    jar = {}          # (host, name) -> (value, path scope or None)
    for e in ([] if dummy else case.get("jar") or []):
        jar[(e[0], e[1])] = (e[2], e[3] if len(e) > 3 else None)

    def jar_check(label, r):
        want = sorted([nm, v] for (h, nm), (v, sc) in jar.items() if h == r["host"] and (sc is None or sc == r["path"]))
        got = sorted(c for c in r["cookies"] if c[1] not in hdr_vals and c[1] not in req_vals)
        names_over = {c[0] for c in r["cookies"] if c[1] in req_vals}
        want_vis = [c for c in want if c[0] not in names_over]
        if got != want_vis:
            bad.append(("jar_selection", f"{label} to host {r['host']} path {r['path']}: jar cookies sent {got}, "
                        f"the jar selects for that URL {want_vis}"))
    for i, r in enumerate(reqs):
        jar_check(f"request {i}", r)
        if i < len(chain) and not dummy:
            for nm, v in chain[i].get("set_cookie") or []:
                jar[(r["host"], nm)] = (v, None)
    # 3b. later requests of the same session: nothing that was supplied with the earlier call, jar cookies as selected
    for k, r in enumerate(raw.get("later_canon") or []):
        leaks = []
        if any(v in req_vals for _, v in r["cookies"]):
            leaks.append("per-request cookies")
        if not case.get("hdr_on_session"):
            if case.get("auth") is not None and r["auth"] == f"C{case['auth']}":
                leaks.append("Authorization")
            if case.get("pauth") is not None and r["pauth"] is not None:
                leaks.append("Proxy-Authorization")
            if any(v in hdr_vals for _, v in r["cookies"]):
                leaks.append("Cookie header")
        if leaks:
            bad.append(("credential_leak_later_request", f"later request {k} of the same session (to {r['sch']}:{r['host']}:{r['port']}, "
                        f"nothing supplied with it) carries the earlier call's {', '.join(leaks)}"))
        if not (case.get("hdr_on_session") and case.get("cookie_hdr")):
            jar_check(f"later request {k}", r)
    # 4. method / body table
    intended = case["body"]         # body the caller's data stands for at hop i (hops answered early show "early")
    ireqs = raw.get("requests") or []
    for i in range(n - 1):
        st = chain[i]["status"] if i < len(chain) else 200
        body_i = intended if reqs[i]["body"] == "early" else reqs[i]["body"]
        em, eb = doc_table(st, reqs[i]["method"], body_i)
        intended = eb
        unsent = i < len(ireqs) and ireqs[i].get("unsent")
        if reqs[i + 1]["body"] == "early":
            eb_cmp = "early"
        else:
            eb_cmp = eb
        if eb in ONE_SHOT and not unsent:
            bad.append(("consumed_body_followed", f"after {st} to a {reqs[i]['method']} whose one-shot body ({eb}) was already streamed, "
                        f"request {i + 1} was made ({reqs[i + 1]['method']}, body {reqs[i + 1]['body']}) instead of refusing the redirect"))
        elif (reqs[i + 1]["method"], reqs[i + 1]["body"]) != (em, eb_cmp):
            bad.append(("method_body_table", f"after {st} to a {reqs[i]['method']} with body {body_i}: next request is "
                        f"{reqs[i + 1]['method']} with body {reqs[i + 1]['body']}, documented {em} with {eb}"))
        if st not in REDIRECT_STATUSES:
            bad.append(("followed_non_redirect", f"request {i + 1} follows status {st}"))
        if not case.get("allow_redirects", True):
            bad.append(("followed_with_allow_redirects_false", f"request {i + 1} made although allow_redirects=False"))
        lk = (chain[i].get("loc") or {}).get("kind") if i < len(chain) else "none"
        if lk in ("nonhttp", "invalid", "nohost", "none", "empty"):
            bad.append(("refused_target_followed", f"request {i + 1} follows a {lk} Location"))
    for i, r in enumerate(reqs):
        if r["sch"] not in (0, 1):
            bad.append(("non_http_request", f"request {i} was made for scheme {r['sch']!r}"))
    # 5. termination
    mx = case.get("max_redirects", 10)
    if mx > 0 and n > mx:
        bad.append(("too_many_requests", f"{n} requests made with max_redirects={mx}"))
    if mx <= 0 and n > 1:
        bad.append(("too_many_requests", f"{n} requests made with max_redirects={mx} (no redirect may be followed)"))
    # 6. history and release
    if obs["outcome"] == "done":
        inter = [[(chain[i]["status"] if i < len(chain) else 200), reqs[i]["sch"], reqs[i]["host"], reqs[i]["port"], reqs[i]["path"]]
                 for i in range(n - 1)]
        h = obs["history"]
        if h != inter and not (raw.get("final_in_history") and h[:-1] == inter):
            bad.append(("history", f"history {h} is not the intermediate responses in order {inter}"))
    if obs["outcome"] in ("done", "TooManyRedirects") and raw.get("history_is_created_prefix") is False:
        bad.append(("history", "history is not the sequence of response objects in the order they were received"))
    if "L" in obs["responses"]:
        bad.append(("response_not_released", f"responses {[i for i, c in enumerate(obs['responses']) if c == 'L']} still hold their connection"))
    if raw.get("acquired_after"):
        bad.append(("connection_leak", f"{raw['acquired_after']} connections still acquired after the call finished"))
    if raw.get("unreleased_after"):
        bad.append(("response_not_released", f"after the call returned and its response was released, responses {raw['unreleased_after']} "
                    "(history entries) still hold a connection"))
    if raw.get("writers_alive"):
        bad.append(("writer_leak", f"request-body writer tasks of responses {raw['writers_alive']} are still running after the call finished"))
    if raw.get("pending_tasks"):
        bad.append(("task_leak", f"{raw['pending_tasks']} tasks are still pending after the call finished"))
    if raw.get("transports_dangling"):
        bad.append(("transport_leak", f"transports {raw['transports_dangling']} are neither closed nor back in the pool"))
    if raw.get("followup_errors"):
        bad.append(("unexpected_exception", f"later requests raised {raw['followup_errors']}"))
    if obs["outcome"] not in ("done", "TooManyRedirects", "ClientPayloadError", "InvalidUrlRedirectClientError",
                              "NonHttpUrlRedirectClientError", "ValueError"):
        bad.append(("unexpected_exception", f"the call raised {obs['outcome']}"))
    return bad


SIGNATURES: dict = {}      # no open known finding


# ---------------------------------------------------------------------------------------------
# generators

ORIGINS = [  # (sch, host, port as written)
    (0, 0, None), (0, 0, 8080), (0, 0, 80), (1, 0, None), (1, 0, 443), (0, 1, None), (1, 1, None), (0, 2, None), (0, 1, 8080),
]


def gen_loc(rng, cur):
    """cur = (sch, host, port) of the request this response answers."""
    r = rng.random()
    path = rng.randint(0, 9)
    if r < 0.45:
        o = cur if rng.random() < 0.35 else rng.choice(ORIGINS)
        cred = rng.randint(1, 9) if rng.random() < 0.2 else None
        loc = {"kind": "abs", "sch": o[0], "host": o[1], "port": o[2], "cred": cred, "path": path}
        if rng.random() < 0.15:
            loc["upper"] = True
        if rng.random() < 0.1:
            loc["header"] = "URI"
        return loc
    if r < 0.70:
        return {"kind": "rel", "path": path}
    if r < 0.85:
        o = rng.choice(ORIGINS)
        return {"kind": "srel", "host": o[1], "port": o[2], "path": path}
    k = rng.choice(["none", "invalid", "nonhttp", "nonhttp", "nohost", "empty"])
    return {"kind": k, "scheme": rng.choice(sorted(NONHTTP_URLS))} if k == "nonhttp" else {"kind": k}


def loc_origin(cur, loc):
    k = loc["kind"]
    if k == "abs":
        return (loc["sch"], loc["host"], loc.get("port"))
    if k == "rel":
        return cur
    if k == "srel":
        return (cur[0], loc["host"], loc.get("port"))
    return None


def gen_case(rng):
    o = rng.choice(ORIGINS)
    has_auth = rng.random() < 0.55
    cred = rng.randint(1, 9) if rng.random() < (0.08 if has_auth else 0.3) else None
    case = {
        "method": rng.choice(METHODS + ["GET", "POST", "POST"]) if rng.random() < 0.97 else "PROPFIND",
        "body": rng.choice(["none", "none", "bytes", "bytes", "gen", "file", "nonseek", "form", "gengate"]),
        "expect100": rng.random() < 0.2,
        "jar_kind": "dummy" if rng.random() < 0.12 else "real",
        "auth": rng.randint(1, 9) if has_auth else None,
        "cookie_hdr": [[n, 100 + n] for n in rng.sample(range(1, 7), rng.randint(1, 2))] if rng.random() < 0.45 else None,
        "pauth": rng.randint(1, 9) if rng.random() < 0.35 else None,
        "req_cookies": [[n, 200 + n] for n in rng.sample(range(1, 7), rng.randint(1, 2))] if rng.random() < 0.45 else None,
        "url": {"sch": o[0], "host": o[1], "port": o[2], "cred": cred, "path": 0},
        "max_redirects": rng.choice([10, 10, 10, 1, 2, 3, 4, 5, 30]) if rng.random() < 0.95 else rng.choice([0, 0, -1]),
        "hdr_on_session": rng.random() < 0.2,
        "allow_redirects": rng.random() < 0.95,
        "jar": [],
        "chain": [],
    }
    seen = set()
    for _ in range(rng.randint(0, 4)):
        h, n = rng.randint(0, 2), rng.randint(1, 7)
        if (h, n) not in seen:
            seen.add((h, n))
            case["jar"].append([h, n, 300 + 10 * h + n])
    for n in (8, 9):                       # cookies scoped to one path: the selection differs between same-origin hops
        if rng.random() < 0.4:
            h = rng.choice([o[1], o[1], rng.randint(0, 2)])
            case["jar"].append([h, n, 300 + 10 * h + n, rng.randint(0, 4)])
    if rng.random() < 0.4:
        case["followups"] = [dict(zip(("sch", "host", "port"), rng.choice(ORIGINS)), path=rng.randint(0, 4))
                             for _ in range(rng.randint(1, 2))]
    cur = (o[0], o[1], o[2])
    length = rng.choice([0, 1, 1, 2, 2, 3, 3, 4, 5, 6, 7])
    for i in range(length):
        if cur is None:
            break
        st = rng.choice(REDIRECT_STATUSES) if rng.random() < 0.93 else rng.choice([200, 204, 300, 304, 305, 306, 400, 404, 500])
        loc = gen_loc(rng, cur)
        sc = [[n, 400 + 10 * i + n] for n in rng.sample(range(1, 8), rng.randint(1, 2))] if rng.random() < 0.3 else []
        step = {"status": st, "set_cookie": sc, "body": rng.choice(["none", "none", "full", "partial", "nolength"]), "loc": loc}
        if (case["expect100"] or case["body"] == "gengate") and rng.random() < 0.4:
            step["early"] = True          # answered as soon as the request head is in, no `100 Continue`
        case["chain"].append(step)
        cur = loc_origin(cur, loc)
    return case


def systematic_cases():
    """One hop for every status x method x body kind (the table), A->B->A for origin pairs with every secret."""
    out = []
    base = {"auth": None, "cookie_hdr": None, "pauth": None, "req_cookies": None, "max_redirects": 10, "allow_redirects": True, "jar": []}
    for st in REDIRECT_STATUSES:
        for m in METHODS:
            for b in ("none", "bytes", "gen", "file"):
                out.append(dict(base, method=m, body=b, url={"sch": 0, "host": 0, "port": None, "cred": None, "path": 0},
                                chain=[{"status": st, "set_cookie": [], "body": "none", "loc": {"kind": "rel", "path": 1}}]))
    for a in ORIGINS:
        for b in ORIGINS:
            out.append(dict(base, method="GET", body="none", auth=1, cookie_hdr=[[1, 101]], pauth=2, req_cookies=[[2, 202]],
                            jar=[[a[1], 3, 303], [b[1], 4, 304]],
                            url={"sch": a[0], "host": a[1], "port": a[2], "cred": None, "path": 0},
                            chain=[{"status": 302, "set_cookie": [[5, 405]], "body": "none",
                                    "loc": {"kind": "abs", "sch": b[0], "host": b[1], "port": b[2], "cred": None, "path": 1}},
                                   {"status": 307, "set_cookie": [], "body": "partial",
                                    "loc": {"kind": "abs", "sch": a[0], "host": a[1], "port": a[2], "cred": None, "path": 2}}]))
    # the redirect arrives while the upload of that hop has not started / is blocked, and the 3xx's own body is not at EOF
    for st in REDIRECT_STATUSES:
        for b in ("bytes", "gen", "gengate", "file"):
            for rb in ("partial", "nolength", "none"):
                for ex in (True, False):
                    if not ex and b != "gengate":
                        continue
                    out.append(dict(base, method="POST", body=b, expect100=ex,
                                    url={"sch": 0, "host": 0, "port": None, "cred": None, "path": 0},
                                    followups=[{"sch": 0, "host": 0, "port": None, "path": 3}],
                                    chain=[{"status": st, "set_cookie": [], "body": rb, "early": True,
                                            "loc": {"kind": "abs", "sch": 0, "host": 1, "port": None, "cred": None, "path": 1}},
                                           {"status": st, "set_cookie": [], "body": rb, "early": True, "loc": {"kind": "rel", "path": 2}}]))
    # cookie processing switched off + per-request cookies, cross-origin hop, later requests of the session
    for a in ORIGINS[:4]:
        for b in ORIGINS[4:7]:
            out.append(dict(base, method="GET", body="none", jar_kind="dummy", req_cookies=[[2, 202], [3, 203]], cookie_hdr=[[1, 101]],
                            url={"sch": a[0], "host": a[1], "port": a[2], "cred": None, "path": 0},
                            followups=[{"sch": b[0], "host": b[1], "port": b[2], "path": 1}, {"sch": a[0], "host": a[1], "port": a[2], "path": 2}],
                            chain=[{"status": 302, "set_cookie": [[5, 405]], "body": "none",
                                    "loc": {"kind": "abs", "sch": b[0], "host": b[1], "port": b[2], "cred": None, "path": 1}}]))
    # jar selection depends on the path: same-origin hops with and without Set-Cookie on the 3xx
    for sc in ([], [[5, 405]]):
        for kind in ("rel", "abs"):
            loc1 = {"kind": "rel", "path": 2} if kind == "rel" else {"kind": "abs", "sch": 0, "host": 0, "port": None, "cred": None, "path": 2}
            out.append(dict(base, method="GET", body="none", req_cookies=[[2, 202]],
                            jar=[[0, 3, 303], [0, 8, 308, 1], [0, 9, 309, 2], [1, 4, 314, 2]],
                            url={"sch": 0, "host": 0, "port": None, "cred": None, "path": 1},
                            followups=[{"sch": 0, "host": 0, "port": None, "path": 1}],
                            chain=[{"status": 302, "set_cookie": sc, "body": "none", "loc": loc1},
                                   {"status": 307, "set_cookie": [], "body": "none", "loc": {"kind": "rel", "path": 1}},
                                   {"status": 302, "set_cookie": [], "body": "none",
                                    "loc": {"kind": "abs", "sch": 0, "host": 1, "port": None, "cred": None, "path": 2}}]))
    for mx in (1, 2, 3):
        for ln in (mx - 1, mx, mx + 1):
            out.append(dict(base, method="GET", body="none", max_redirects=mx,
                            url={"sch": 0, "host": 0, "port": None, "cred": None, "path": 0},
                            chain=[{"status": 302, "set_cookie": [], "body": "full", "loc": {"kind": "rel", "path": i + 1}} for i in range(ln)]))
    return out


# ---------------------------------------------------------------------------------------------
# suites

def check_cases(ctx, exe, suite, cases, record_known_only=False):
    raws = []
    for case in cases:
        try:
            raws.append(impl_run(case))
        except Exception as e:  # noqa
            raws.append(None)
            ctx.violation({"suite": suite, "kind": "harness_exception", "case": case}, f"driving the client failed: {e!r}")
    live = [(c, r) for c, r in zip(cases, raws) if r is not None]
    # without a model runner (its build is a broken obligation already) the oracle still searches the implementation
    answers = fw.run_model(exe, [model_line(c, r) for c, r in live]) if exe else [None] * len(live)
    ran = 0
    for (case, raw), ans in zip(live, answers):
        ran += 1
        io = impl_obs(case, raw)
        mo = model_obs(ans, raw) if ans is not None else None
        followed = max(0, len(io["requests"]) - 1)
        ctx.case(json.dumps(io, sort_keys=True), nontrivial=followed > 0)
        ctx.count(f"outcome:{io['outcome']}")
        ctx.count(f"requests:{len(io['requests'])}")
        for st in case["chain"][:len(io["requests"])]:
            ctx.count(f"status:{st['status']}")
            ctx.count(f"loc:{(st.get('loc') or {}).get('kind')}")
            ctx.count(f"resp_body:{st.get('body', 'none')}")
        ctx.count(f"body:{case['body']}")
        ctx.count(f"jar:{case.get('jar_kind', 'real')}")
        ctx.count("early_answers", sum(1 for r in raw["requests"] if r.get("early")))
        ctx.count("later_requests", len(raw.get("later_requests") or []))
        if mo is not None and mo != io:
            ctx.disagreement(suite, case, mo, io)
        for kind, msg in oracle(case, io, raw):
            ctx.violation({"suite": suite, "kind": kind, "case": case}, f"{kind}: {msg}")
        if ran <= 2:
            ctx.sample({"suite": suite, "case": case, "model": ans})
    ctx.close_suite(suite, ran)


def load_corpus():
    d = os.path.join(fw.VERIF, "corpus", PROP)
    out = []
    # regression cases of repaired defects (fixed-*) run first
    for fn in sorted(os.listdir(d), key=lambda f: (not f.startswith("fixed-"), f)) if os.path.isdir(d) else []:
        if fn.endswith(".json"):
            payload = json.load(open(os.path.join(d, fn)))
            c = payload.get("case", payload)
            out.append(c.get("case", c))
    return out


def run(ctx):
    ok, exe = build_model()
    ctx.oblige("model-runner-build", "correspondence", ok, "" if ok else exe)
    if not ok:
        exe = None
    check_cases(ctx, exe, "corpus", load_corpus())
    check_cases(ctx, exe, "systematic", systematic_cases())
    n = 2500 if ctx.quick else 40000
    check_cases(ctx, exe, "random_chains", [gen_case(ctx.rng) for _ in range(n)])


def replay(ctx, case):
    ok, exe = build_model()
    c = case.get("case", case)
    raw = impl_run(c)
    io = impl_obs(c, raw)
    ans = fw.run_model(exe, [model_line(c, raw)])[0] if ok else None
    mo = model_obs(ans, raw) if ans else None
    bad = oracle(c, io, raw)
    want = case.get("kind")
    return {"impl": io, "model": mo, "agree": mo == io, "violates": bool([b for b in bad if want is None or b[0] == want]),
            "why": [f"{k}: {m}" for k, m in bad]}


if __name__ == "__main__":
    import sys
    print(json.dumps(impl_run(json.load(open(sys.argv[1]))), indent=1))
