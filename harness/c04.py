"""C04 — outbound messages: no injection; truthful framing."""
from __future__ import annotations

import asyncio
import json

from harness.common import framework as fw

PROP = "C04"
GENERATED = ["WriterGen.v"]
RULE = ("header suites: every code point of the tier's set in each of the positions (status line, name, value, "
        "reason, method) at start/middle/end of a carrier string, plus random strings from weighted code-point "
        "classes; writer suites: random op sequences over write_headers/send_headers/write/write_eof/set_eof/"
        "enable_chunking/length; payload_sizes: random payload objects of every class in aiohttp/payload.py, nested "
        "MultipartWriter and FormData (sizes 0, 1, around 2**16, partially read files) written to a recording writer, "
        "and random Response/StreamResponse/FileResponse cases (bytes/str/payload/file bodies, HEAD, 204/304, ranges, "
        "compression) sent through a real in-process server connection, file-likes with short reads included; "
        "client_request_framing: every ordered pair of body kinds (create with A, middleware update_body(B)) plus random "
        "ClientSession requests (method, HTTP/1.0|1.1, chunked, compress, 0-2 body replacements) over an in-memory "
        "connector, body sources growing / shrinking before the send; compressed_writer: StreamWriter op sequences with "
        "enable_compression in all combinations headers buffered/sent x chunked/plain.  Non-trivial = the message was accepted and "
        "bytes were emitted; distinct by hash of (input, emitted bytes).")
TRUSTED = [
    "translator/gen_writer.py (regex class -> N->bool; ast shape checks of _safe_header, _py_serialize_headers, _set_status)",
    "extraction: ExtrOcamlBasic only; ocaml/common/conv.ml + ocaml/C04/driver.ml (decimal/hex I/O)",
    "correspondence harness harness/c04.py: sampled, not proved",
    "modelled, not verified: CPython str.encode('utf-8'), multidict iteration order, asyncio transports; the C "
    "accelerator _http_writer is out of scope (AIOHTTP_NO_EXTENSIONS=1)",
]
ASSUMPTIONS = [
    "payload_sizes is an implementation-only oracle (no model): size/Content-Length truthfulness of payloads and "
    "responses is searched, not proved; the Coq theorems cover StreamWriter framing only.",
    "The Python writer is used (AIOHTTP_NO_EXTENSIONS=1).",
    "Model/implementation agreement is validated on the generated cases only.",
]
SIGNATURES: dict = {}

BOUNDARY_CPS = [0, 8, 9, 10, 11, 12, 13, 14, 31, 32, 58, 126, 127, 128, 0x85, 0xA0, 0xFF, 0x100, 0x7FF, 0x800,
                0x2028, 0x2029, 0xD7FF, 0xD800, 0xDBFF, 0xDC00, 0xDFFF, 0xE000, 0xFFFD, 0xFFFF, 0x10000, 0x10FFFF]


def build_model():
    return fw.ocaml_model("C04", ["Model/Writer.vo"])


def csv(s: str) -> str:
    return ",".join(str(ord(c)) for c in s) if s else "-"


def rand_str(rng, maxlen=12):
    n = rng.randint(0, maxlen)
    out = []
    for _ in range(n):
        r = rng.random()
        if r < 0.55:
            out.append(rng.choice("abcXYZ019-_ :;=,/\t"))
        elif r < 0.70:
            out.append(chr(rng.choice(BOUNDARY_CPS)))
        elif r < 0.85:
            out.append(chr(rng.randint(0, 0x7FF)))
        else:
            out.append(chr(rng.randint(0, 0x10FFFF)))
    return "".join(out)


def impl_serialize(sl, hs):
    from multidict import CIMultiDict
    from aiohttp import http_writer
    try:
        return bytes(http_writer._serialize_headers(sl, CIMultiDict(hs)))
    except ValueError:           # includes UnicodeEncodeError
        return None


def oracle_lines(sl, hs, out):
    """Property predicate on implementation output (no model involved): exactly one start line and
    one line per supplied header; nothing else."""
    if out is None:
        return None
    if not out.endswith(b"\r\n\r\n"):
        return "does not end with an empty line"
    body = out[:-4]
    lines = body.split(b"\r\n")
    want = 1 + max(len(hs), 1)     # "\r\n".join([]) == "" still leaves one (empty) line
    if len(lines) != want:
        return f"{len(lines)} lines emitted for 1 start line + {len(hs)} headers"
    if b"\r" in body.replace(b"\r\n", b"") or b"\n" in body.replace(b"\r\n", b""):
        return "bare CR or LF inside a line"
    try:
        exp = [sl.encode()] + [(k + ": " + v).encode() for k, v in hs]
    except UnicodeEncodeError:
        return "accepted a string that cannot be encoded"
    if hs and lines != exp:
        return "lines differ from the supplied start line / headers"
    return None


def suite_serialize(ctx, exe):
    rng = ctx.rng
    cases = []
    if ctx.quick:
        cps = sorted(set(list(range(0, 0x900)) + BOUNDARY_CPS + [rng.randint(0, 0x10FFFF) for _ in range(1500)]))
    else:
        cps = range(0, 0x110000)
    for cp in cps:
        ch = chr(cp)
        for pos in range(3):
            carrier = ["HTTP/1.1 200 OK", "X-Name", "value"]
            for where in ((0, 1, 2) if (cp < 0x100 or cp in BOUNDARY_CPS) else (1,)):
                c = list(carrier)
                base = c[pos]
                c[pos] = (ch + base, base[:2] + ch + base[2:], base + ch)[where]
                cases.append((c[0], [(c[1], c[2]), ("Z", "z")]))
    nrand = 3000 if ctx.quick else 60000
    for _ in range(nrand):
        hs = [(rand_str(rng, 8), rand_str(rng)) for _ in range(rng.randint(0, 4))]
        cases.append((rand_str(rng, 20), hs))
    lines = []
    for sl, hs in cases:
        parts = ["SER", csv(sl)]
        for k, v in hs:
            parts += [csv(k), csv(v)]
        lines.append(" ".join(parts))
    model = fw.run_model(exe, lines)
    ran = 0
    for (sl, hs), m in zip(cases, model):
        # multidict: duplicate names are kept in order; empty header list is allowed
        out = impl_serialize(sl, hs)
        mo = None if m == "NONE" else fw.unhex(m.split()[1])
        ran += 1
        ctx.case((sl, tuple(hs), out), nontrivial=out is not None)
        ctx.count("serialize:accepted" if out is not None else "serialize:refused")
        if mo != out:
            ctx.disagreement("serialize_headers", {"status_line": sl, "headers": hs}, m, None if out is None else out.hex())
        bad = oracle_lines(sl, hs, out)
        if bad:
            ctx.violation({"suite": "serialize_headers", "status_line": sl, "headers": hs}, f"_serialize_headers: {bad}; output={out!r}")
    ctx.sample({"suite": "serialize_headers", "status_line": cases[-1][0], "headers": cases[-1][1], "model": model[-1]})
    ctx.close_suite("serialize_headers", ran)


# ---- glue: the public entry points that feed strings into the serializer -------------------

def _response_bytes(loop, status, reason, headers):
    """Bytes a StreamResponse writes for (status, reason, headers); None if refused before writing."""
    from aiohttp import web
    from aiohttp.test_utils import make_mocked_request
    from aiohttp.http_writer import StreamWriter
    from harness.common.transport import MemTransport
    from unittest import mock

    async def go():
        proto = mock.Mock()
        tr = MemTransport(loop, None)
        proto.transport = tr
        proto._paused = False
        w = StreamWriter(proto, loop)
        req = make_mocked_request("GET", "/", writer=w, protocol=proto, transport=tr)
        try:
            resp = web.StreamResponse(status=status, reason=reason, headers=headers)
            await resp.prepare(req)
            await resp.write_eof()
        except ValueError:
            return None if not tr.buf else bytes(tr.buf) + b"<<RAISED-AFTER-WRITE>>"
        return bytes(tr.buf)
    return loop.run_until_complete(go())


def suite_response_glue(ctx, exe):
    from harness.common.loop import VLoop
    rng = ctx.rng
    loop = VLoop()
    asyncio.set_event_loop(loop)
    ran = 0
    try:
        chars = [chr(c) for c in (list(range(0, 40)) + BOUNDARY_CPS)]
        cases = []
        for ch in chars:
            cases.append((200, "O" + ch + "K", []))
            cases.append((200, None, [("X-A", "v" + ch + "w")]))
            cases.append((200, None, [("X" + ch + "A", "v")]))
        for _ in range(300 if ctx.quick else 5000):
            cases.append((rng.choice([200, 201, 404, 500]), rng.choice([None, rand_str(rng, 6)]),
                          [(("X-" + rand_str(rng, 4)) or "X", rand_str(rng, 8)) for _ in range(rng.randint(0, 3))]))
        reqs = []
        for st, reason, hs in cases:
            reqs.append("REASON " + csv(reason or ""))
        reason_ok = fw.run_model(exe, reqs)
        for (st, reason, hs), rok in zip(cases, reason_ok):
            try:
                out = _response_bytes(loop, st, reason, hs)
            except Exception as e:  # noqa
                ctx.violation({"suite": "response_glue", "status": st, "reason": reason, "headers": hs}, f"unexpected exception {e!r}")
                continue
            ran += 1
            ctx.case((st, reason, tuple(hs), out), nontrivial=out is not None)
            ctx.count("response:accepted" if out is not None else "response:refused")
            if out is not None and out.endswith(b"<<RAISED-AFTER-WRITE>>"):
                ctx.violation({"suite": "response_glue", "status": st, "reason": reason, "headers": hs}, "exception raised after bytes reached the transport")
                continue
            if rok == "0" and out is not None:
                ctx.disagreement("response_glue", {"reason": reason}, "reason refused by model", out.hex())
            if out is None:
                continue
            head = out.split(b"\r\n\r\n", 1)[0]
            lines = head.split(b"\r\n")
            try:
                supplied = [(k + ": " + v).encode() for k, v in hs]
            except UnicodeEncodeError:
                ctx.violation({"suite": "response_glue", "status": st, "reason": reason, "headers": hs}, "accepted an unencodable header")
                continue
            auto = (b"Content-Type: ", b"Content-Length: ", b"Date: ", b"Server: ", b"Transfer-Encoding: ", b"Connection: ")
            rest = list(lines[1:])
            for sline in supplied:
                if sline in rest:
                    rest.remove(sline)
                else:
                    rest.append(b"<missing supplied line>")
            extra = [ln for ln in rest if not ln.startswith(auto)]
            first = lines[0]
            exp_first_prefix = b"HTTP/1.1 %d " % st
            if extra or not first.startswith(exp_first_prefix) or (reason is not None and first != exp_first_prefix + reason.encode()) \
                    or b"\r" in head.replace(b"\r\n", b"") or b"\n" in head.replace(b"\r\n", b""):
                ctx.violation({"suite": "response_glue", "status": st, "reason": reason, "headers": hs},
                              f"response head has injected structure: {head!r}")
        ctx.sample({"suite": "response_glue", "status": cases[-1][0], "reason": cases[-1][1], "headers": cases[-1][2]})
    finally:
        asyncio.set_event_loop(None)
        loop.close()
    ctx.close_suite("response_glue", ran)


# ---- StreamWriter op sequences ---------------------------------------------------------------

HEADS = [("HTTP/1.1 200 OK", [("Content-Type", "text/plain")]), ("POST /x HTTP/1.1", [("Host", "h"), ("X-A", "1")]),
         ("HTTP/1.0 404 Not Found", [])]


def gen_ops(rng):
    ops = []
    n = rng.randint(1, 9)
    chunked = rng.random() < 0.5
    if chunked and rng.random() < 0.8:
        ops.append(("C",))
    if rng.random() < 0.35:
        ops.append(("L", rng.choice([0, 1, 3, 5, 10, 40])))
    if rng.random() < 0.9:
        ops.append(("H", rng.randrange(len(HEADS))))
    for _ in range(n):
        r = rng.random()
        size = rng.choice([0, 0, 1, 2, 3, 5, 16, 17, 255, 256, 300, 2047, 2048, 4100]) if rng.random() < 0.7 else rng.randint(0, 40)
        data = bytes(rng.randrange(256) for _ in range(min(size, 64))) * (1 if size <= 64 else size // 64 + 1)
        data = data[:size]
        if r < 0.5:
            ops.append(("W", data))
        elif r < 0.62:
            ops.append(("S",))
        elif r < 0.77:
            ops.append(("E", data if rng.random() < 0.6 else b""))
        elif r < 0.85:
            ops.append(("X",))
        elif r < 0.9:
            ops.append(("C",))
        elif r < 0.95:
            ops.append(("H", rng.randrange(len(HEADS))))
        else:
            ops.append(("L", rng.choice([None, 0, 2, 7, 1000])))
    if rng.random() < 0.7:
        ops.append(("E", b"") if rng.random() < 0.5 else ("X",))
    return ops


def impl_writer(loop, ops):
    from multidict import CIMultiDict
    from aiohttp.http_writer import StreamWriter, _serialize_headers
    from harness.common.transport import MemTransport
    from unittest import mock

    async def go():
        proto = mock.Mock()
        tr = MemTransport(loop, None)
        proto.transport = tr
        proto._paused = False
        w = StreamWriter(proto, loop)
        for op in ops:
            k = op[0]
            if k == "H":
                sl, hs = HEADS[op[1]]
                await w.write_headers(sl, CIMultiDict(hs))
            elif k == "S":
                w.send_headers()
            elif k == "W":
                await w.write(op[1])
            elif k == "E":
                await w.write_eof(op[1])
            elif k == "X":
                w.set_eof()
            elif k == "C":
                w.enable_chunking()
            elif k == "Z":
                w.enable_compression(op[1])
            elif k == "L":
                w.length = op[1]
        return bytes(tr.buf), (w.chunked, w._headers_written, w._eof, w.length)
    return loop.run_until_complete(go())


def head_bytes(i):
    from multidict import CIMultiDict
    from aiohttp.http_writer import _serialize_headers
    sl, hs = HEADS[i]
    return bytes(_serialize_headers(sl, CIMultiDict(hs)))


def dechunk_ref(b: bytes):
    """Independent reference de-chunker: returns (data, rest) or None."""
    out = b""
    while True:
        i = b.find(b"\r\n")
        if i < 0:
            return None
        try:
            n = int(b[:i], 16)
        except ValueError:
            return None
        b = b[i + 2:]
        if n == 0:
            return (out, b[2:]) if b[:2] == b"\r\n" else None
        if len(b) < n + 2 or b[n:n + 2] != b"\r\n":
            return None
        out, b = out + b[:n], b[n + 2:]


def suite_writer(ctx, exe):
    from harness.common.loop import VLoop
    rng = ctx.rng
    loop = VLoop()
    asyncio.set_event_loop(loop)
    ran = 0
    try:
        n = 1500 if ctx.quick else 40000
        seqs = [gen_ops(rng) for _ in range(n)]
        lines = []
        for ops in seqs:
            toks = []
            for op in ops:
                k = op[0]
                if k == "H":
                    toks.append("H:" + fw.hexs(head_bytes(op[1])))
                elif k in ("W", "E"):
                    toks.append(k + ":" + fw.hexs(op[1]))
                elif k == "L":
                    toks.append("L:" + ("none" if op[1] is None else str(op[1])))
                else:
                    toks.append(k)
            lines.append("WRUN " + " ".join(toks))
        model = fw.run_model(exe, lines)
        for ops, m in zip(seqs, model):
            out, st = impl_writer(loop, ops)
            ran += 1
            mo, flags, mlen = m.split()
            ctx.case((tuple((o[0], bytes(o[1]) if len(o) > 1 and isinstance(o[1], bytes) else (o[1] if len(o) > 1 else None)) for o in ops)), nontrivial=bool(out))
            for o in ops:
                ctx.count("wop:" + o[0])
            ist = "%d%d%d %s" % (st[0], st[1], st[2], "none" if st[3] is None else st[3])
            case = {"suite": "writer", "ops": [[o[0]] + ([o[1].hex()] if len(o) > 1 and isinstance(o[1], bytes) else ([o[1]] if len(o) > 1 else [])) for o in ops]}
            if fw.unhex(mo) != out or (flags + " " + mlen) != ist:
                ctx.disagreement("stream_writer", case, m[:300], out.hex()[:300] + " " + ist)
            # property oracle on the implementation: framing is truthful for the simple, well-formed uses
            #   [C?] [L n?] H (W|S)* (E|X)  with chunking / length fixed before the head
            kinds = [o[0] for o in ops]
            try:
                hi = kinds.index("H")
            except ValueError:
                continue
            pre, post = kinds[:hi], kinds[hi + 1:]
            if any(k not in ("C", "L") for k in pre) or any(k in ("H", "C", "L") for k in post) or not post or post[-1] not in ("E", "X") or any(k in ("E", "X") for k in post[:-1]):
                continue
            head = head_bytes(ops[hi][1])
            if not out.startswith(head):
                ctx.violation(case, "output does not start with the buffered head")
                continue
            body = out[len(head):]
            written = b"".join(o[1] for o in ops[hi + 1:] if o[0] in ("W", "E"))
            chunked = "C" in pre
            length = None
            for o in ops[:hi]:
                if o[0] == "L":
                    length = o[1]
            ctx.count("wellformed:" + ("chunked" if chunked else "plain") + (":len" if length is not None else ""))
            if length is not None:
                # only write() honours the declared length; what write_eof(chunk) adds is the caller's business
                w_only = b"".join(o[1] for o in ops[hi + 1:] if o[0] == "W")
                e_part = b"".join(o[1] for o in ops[hi + 1:] if o[0] == "E")
                written = w_only[:length] + e_part
            if chunked:
                r = dechunk_ref(body)
                if r is None or r[0] != written or r[1] != b"":
                    ctx.violation(case, f"chunked output does not decode to the written data: body={body[:80]!r} written={written[:40]!r}")
            elif body != written:
                ctx.violation(case, f"plain body differs from the written data (declared length {length})")
        ctx.sample({"suite": "writer", "ops": case["ops"][:6], "model": model[-1][:120]})
    finally:
        asyncio.set_event_loop(None)
        loop.close()
    ctx.close_suite("stream_writer", ran)


# ---- payload sizes: declared size / Content-Length equals the bytes actually written ----------
#
# Implementation-only oracle (no model): for every payload class, `payload.size`, when not None, must be
# the number of bytes `payload.write(writer)` hands to the writer; a response sent through a real server
# connection must carry a Content-Length equal to the body bytes that reach the transport.
# Cases are JSON specs (seeds + sizes), so a violation replays from its case alone.

PS_SIZES = [0, 1, 2, 3, 5, 17, 255, 1000, 2 ** 16 - 1, 2 ** 16, 2 ** 16 + 1]
PS_BIG = [2 ** 16 - 1, 2 ** 16, 2 ** 16 + 1, 2 ** 17 + 1]
_ENC_ALPHA = {None: ("ascii", "latin", "bmp"), "utf-8": ("ascii", "latin", "bmp"), "utf-16": ("ascii", "bmp"),
              "utf-32": ("ascii", "bmp"), "latin-1": ("ascii", "latin"), "ascii": ("ascii",), "cp1251": ("ascii",)}


def ps_bytes(d):
    import random
    if "hex" in d:
        return bytes.fromhex(d["hex"])
    return random.Random(d["seed"]).randbytes(d["n"])


def ps_text(t):
    import random
    if "text" in t:
        return t["text"]
    r = random.Random(t["seed"])
    n, alpha = t["n"], t["alpha"]
    if alpha == "ascii":
        return "".join(r.choice("abcXYZ 019\n=&+%/;\t") for _ in range(n))
    if alpha == "crlf":
        return "".join(r.choice(["a", "b", " ", "\r\n", "\r\n", "\n", "\r", "z"]) for _ in range(n))
    if alpha == "latin":
        return "".join(chr(r.choice([65, 97, 10, 32, 0xE9, 0xFF, 0xA0, 0x80, 126, 0xDF])) for _ in range(n))
    return "".join(chr(r.choice([65, 10, 0xE9, 0x7FF, 0x800, 0x20AC, 0xFFFD, 0x10000, 0x1F600, 0x10FFFF, 97, 32])) for _ in range(n))


def ps_size(rng, big_ok=True):
    if big_ok and rng.random() < 0.25:
        return rng.choice(PS_BIG)
    return rng.choice(PS_SIZES) if rng.random() < 0.7 else rng.randint(0, 300)


def ps_dspec(rng, big_ok=True):
    return {"seed": rng.randrange(2 ** 32), "n": ps_size(rng, big_ok)}


def ps_tspec(rng, alphas, big_ok=True):
    return {"seed": rng.randrange(2 ** 32), "n": ps_size(rng, big_ok), "alpha": rng.choice(list(alphas))}


def ps_pre(rng, n):
    return rng.choice([0, 0, 0, min(1, n), n // 2, max(n - 1, 0), n, n])


def ps_short(rng, n):
    """Seed and cap of the random read sizes of a short-reading file-like (cap keeps the number of reads moderate)."""
    return {"seed": rng.randrange(2 ** 32), "cap": rng.choice([1, 3, 50] if n <= 300 else [700, 5000, 40000])}


def _ps_short_classes():
    import io
    import random

    def piece(self, size):
        if size is None or size < 0:
            return -1
        return self._rr.randint(1, max(1, min(size, self._cap)))

    class ShortRaw(io.FileIO):
        """Raw file (fileno, fstat size) handing out random shorter-than-requested pieces."""

        def __init__(self, path, short):
            super().__init__(path, "rb")
            self._rr, self._cap = random.Random(short["seed"]), short["cap"]

        def read(self, size=-1):
            return super().read(piece(self, size))

    class ShortBuffered(io.BufferedIOBase):
        """BufferedIOBase over a real file; fileno() optional."""

        def __init__(self, path, short, with_fileno):
            self._f = open(path, "rb")
            self._rr, self._cap, self._with_fileno = random.Random(short["seed"]), short["cap"], with_fileno

        def read(self, size=-1):
            return self._f.read(piece(self, size))

        read1 = read

        def readable(self):
            return True

        def seekable(self):
            return True

        def seek(self, pos, whence=0):
            return self._f.seek(pos, whence)

        def tell(self):
            return self._f.tell()

        def fileno(self):
            if not self._with_fileno:
                raise io.UnsupportedOperation("fileno")
            return self._f.fileno()

        def close(self):
            self._f.close()
            super().close()

    class ShortBytesIO(io.BytesIO):
        def __init__(self, data, short):
            super().__init__(data)
            self._rr, self._cap = random.Random(short["seed"]), short["cap"]

        def read(self, size=-1):
            return super().read(piece(self, size))
    return ShortRaw, ShortBuffered, ShortBytesIO


def ps_gen_leaf(rng, big_ok=True, kinds=None):
    k = rng.choice(kinds or ["bytes", "str", "bytesio", "stringio", "file", "file", "textfile", "aiter"])
    if k == "bytes":
        return {"k": "bytes", "wrap": rng.choice(["bytes", "bytearray", "memoryview"]), "d": ps_dspec(rng, big_ok)}
    if k == "str":
        enc = rng.choice(list(_ENC_ALPHA))
        return {"k": "str", "enc": enc, "t": ps_tspec(rng, _ENC_ALPHA[enc], big_ok)}
    if k == "bytesio":
        d = ps_dspec(rng, big_ok)
        spec = {"k": "bytesio", "d": d, "pre": ps_pre(rng, d["n"])}
        if rng.random() < 0.3:          # a BytesIO whose read(n) hands out short pieces: known size, no fileno
            spec["short"] = ps_short(rng, d["n"])
        return spec
    if k == "stringio":
        enc = rng.choice([None, "utf-8", "utf-16", "latin-1"])
        t = ps_tspec(rng, _ENC_ALPHA[enc], big_ok)
        return {"k": "stringio", "enc": enc, "t": t, "pre": ps_pre(rng, t["n"])}
    if k == "file":
        d = ps_dspec(rng, big_ok)
        spec = {"k": "file", "mode": rng.choice(["buffered", "buffered", "raw", "membuf", "short_raw", "short_raw", "short_buf", "short_buf", "short_nofd"]),
                "cls": rng.choice(["auto", "auto", "IOBasePayload", "BufferedReaderPayload"]), "d": d, "pre": ps_pre(rng, d["n"])}
        if spec["mode"].startswith("short"):
            # file-likes whose read(n) returns fewer than n bytes before EOF (io.RawIOBase allows it: slow devices,
            # rate limiters, progress wrappers): with fileno (size = fstat) and without (size None)
            spec["short"] = ps_short(rng, d["n"])
        return spec
    if k == "textfile":
        r = rng.random()
        if r < 0.7:        # configurations in which the on-disk size IS the encoded size
            fenc = rng.choice(["utf-8", "utf-8", "latin-1", "ascii"])
            penc = fenc if fenc != "utf-8" or rng.random() < 0.5 else None
            alphas = _ENC_ALPHA[fenc]
            newline = rng.choice([None, "", "\n"])
        else:              # re-encoding / newline translation (see the known finding)
            fenc = rng.choice(["utf-8", "latin-1", "utf-16", "utf-8-sig"])
            penc = rng.choice([None, "utf-8", "utf-16", "latin-1"])
            alphas = ("ascii", "crlf") if "latin-1" in (fenc, penc) else ("ascii", "crlf", "bmp")
            newline = rng.choice([None, None, "", "\n"])
        t = ps_tspec(rng, alphas, big_ok)
        return {"k": "textfile", "fenc": fenc, "penc": penc, "newline": newline, "t": t, "pre": ps_pre(rng, t["n"]) if rng.random() < 0.4 else 0}
    return {"k": "aiter", "chunks": [ps_dspec(rng, False) for _ in range(rng.randint(0, 4))]}


def ps_gen_multipart(rng, depth=0, form=False):
    parts = []
    for _ in range(rng.randint(0, 4)):
        if depth < 2 and rng.random() < 0.25 and not form:
            p = ps_gen_multipart(rng, depth + 1)
        else:
            p = ps_gen_leaf(rng, big_ok=rng.random() < 0.15,
                            kinds=["bytes", "str", "bytesio", "stringio", "file", "textfile", "aiter"] if not form else ["bytes", "str", "bytesio", "file"])
        ce = cte = None
        if not form and rng.random() < 0.3:
            ce = rng.choice([None, "gzip", "deflate", "identity"])
            cte = rng.choice([None, "base64", "quoted-printable", "binary"])
        parts.append({"p": p, "ce": ce, "cte": cte})
    return {"k": "multipart", "subtype": "form-data" if form else rng.choice(["mixed", "related", "alternative"]),
            "boundary": rng.choice([None, "b", "x" * 70, "a b", "q\"uote", ":simple-1"]), "parts": parts}


def ps_gen_form(rng):
    multipart = rng.random() < 0.6
    fields = []
    for i in range(rng.randint(0 if not multipart else 1, 4)):
        # (a non-ASCII name in a multipart form trips an assert inside MultipartWriter.write: not a framing matter)
        name = rng.choice(["a", "b c", "x=y&z", "q\"q"] + ([] if multipart else ["né"]))
        if multipart and rng.random() < 0.7:
            v = ps_gen_leaf(rng, big_ok=rng.random() < 0.15, kinds=["bytes", "bytesio", "file", "str"])
            if v["k"] == "bytes":
                v["wrap"] = "bytes"
            if v["k"] == "str":
                v["enc"] = None
            fields.append({"name": name, "v": v, "filename": rng.choice([None, "f.bin", "né \".txt"]),
                           "content_type": rng.choice([None, "application/x-thing", "text/plain"])})
        else:
            fields.append({"name": name, "v": {"k": "str", "enc": None, "t": ps_tspec(rng, ("ascii", "latin", "bmp"), False)},
                           "filename": None, "content_type": None})
    charset = None if multipart else rng.choice([None, None, "utf-8", "latin-1"])
    if charset == "latin-1":
        for f in fields:
            if f["v"]["t"]["alpha"] == "bmp":
                f["v"]["t"]["alpha"] = "latin"
    if multipart and not any(f["v"]["k"] != "str" or f["filename"] or f["content_type"] for f in fields):
        fields.append({"name": "file", "v": {"k": "bytes", "wrap": "bytes", "d": ps_dspec(rng, False)}, "filename": None, "content_type": None})
    return {"k": "form", "charset": charset,
            "quote_fields": rng.random() < 0.8, "boundary": rng.choice([None, "fb"]), "fields": fields}


def ps_find(spec, kind):
    """All sub-specs of a kind inside a (nested) payload spec."""
    out = []
    if not isinstance(spec, dict):
        return out
    if spec.get("k") == kind:
        out.append(spec)
    for part in spec.get("parts", []):
        out += ps_find(part["p"], kind)
    for f in spec.get("fields", []):
        out += ps_find(f["v"], kind)
    return out


def ps_has_short(spec):
    return any(x.get("short") for x in ps_find(spec, "file") + ps_find(spec, "bytesio"))


def ps_has_encoded(spec):
    if not isinstance(spec, dict):
        return False
    return any(part["ce"] or part["cte"] or ps_has_encoded(part["p"]) for part in spec.get("parts", []))


def ps_textfile_size_is_exact(spec):
    """Text-mode files for which bytes-on-disk == bytes the payload emits: same single-byte-order-mark-free
    encoding on both sides and no newline translation."""
    penc = spec["penc"] or "utf-8"
    if spec["fenc"] != penc or penc not in ("utf-8", "latin-1", "ascii"):
        return False
    # CRs: newline=None translates them away; newline="" keeps them but still runs the incremental newline
    # decoder, so after a partial read tell() is a cookie with decoder flags, not a byte offset
    return "\r" not in ps_text(spec["t"]) or spec["newline"] == "\n" or (spec["newline"] == "" and spec["pre"] == 0)


def _ps_inline_executor():
    import concurrent.futures

    class Inline(concurrent.futures.ThreadPoolExecutor):
        def submit(self, fn, *a, **k):  # type: ignore[override]
            f = concurrent.futures.Future()
            try:
                f.set_result(fn(*a, **k))
            except BaseException as e:  # noqa
                f.set_exception(e)
            return f
    return Inline(max_workers=1)


class PsBuilder:
    """Builds real payload objects from specs inside a temp dir; remembers what must be closed."""

    def __init__(self, tmp):
        self.tmp, self.n, self.open = tmp, 0, []

    def path(self, data: bytes):
        import os
        self.n += 1
        p = os.path.join(self.tmp, f"f{self.n}.dat")
        with open(p, "wb") as f:
            f.write(data)
        return p

    def close(self):
        for f in self.open:
            try:
                f.close()
            except Exception:  # noqa
                pass
        self.open = []

    def value(self, spec, raw=False):
        """(python value accepted by get_payload / FormData / Response(body=), expected bytes or None);
        raw: the value is handed over as it is, so the default encoding (utf-8) applies"""
        import io
        k = spec["k"]
        if raw and k in ("str", "stringio"):
            spec = dict(spec, enc=None)
        if k == "bytes":
            b = ps_bytes(spec["d"])
            return {"bytes": b, "bytearray": bytearray(b), "memoryview": memoryview(b)}[spec["wrap"]], b
        if k == "str":
            t = ps_text(spec["t"])
            return t, t.encode(spec["enc"] or "utf-8")
        if k == "bytesio":
            b = ps_bytes(spec["d"])
            f = _ps_short_classes()[2](b, spec["short"]) if spec.get("short") else io.BytesIO(b)
            f.seek(spec["pre"])
            return f, b[spec["pre"]:]
        if k == "stringio":
            t = ps_text(spec["t"])
            f = io.StringIO(t)
            f.read(spec["pre"])
            return f, t[spec["pre"]:].encode(spec["enc"] or "utf-8")
        if k == "file":
            b = ps_bytes(spec["d"])
            if spec["mode"] == "membuf":
                f = io.BufferedReader(io.BytesIO(b))
            elif spec["mode"] == "short_raw":
                f = _ps_short_classes()[0](self.path(b), spec["short"])
            elif spec["mode"] in ("short_buf", "short_nofd"):
                f = _ps_short_classes()[1](self.path(b), spec["short"], spec["mode"] == "short_buf")
            else:
                f = open(self.path(b), "rb", **({"buffering": 0} if spec["mode"] == "raw" else {}))
            self.open.append(f)
            if spec["mode"].startswith("short"):
                f.seek(spec["pre"])
            else:
                f.read(spec["pre"])
            return f, b[spec["pre"]:]
        if k == "textfile":
            t = ps_text(spec["t"])
            f = open(self.path(t.encode(spec["fenc"])), "r", encoding=spec["fenc"], newline=spec["newline"])
            self.open.append(f)
            f.read(spec["pre"])
            return f, None
        if k == "aiter":
            chunks = [ps_bytes(d) for d in spec["chunks"]]

            async def gen():
                for c in chunks:
                    yield c
            return gen(), b"".join(chunks)
        raise ValueError(k)

    def formdata(self, spec):
        from aiohttp import FormData
        fd = FormData(quote_fields=spec["quote_fields"], charset=spec["charset"], boundary=spec["boundary"])
        for f in spec["fields"]:
            v, _ = self.value(f["v"])
            fd.add_field(f["name"], v, filename=f["filename"], content_type=f["content_type"])
        return fd

    def payload(self, spec):
        """(Payload, expected bytes or None)"""
        from aiohttp import payload as pl, multipart, FormData
        k = spec["k"]
        if k == "multipart":
            mp = multipart.MultipartWriter(spec["subtype"], boundary=spec["boundary"])
            for part in spec["parts"]:
                sub, _ = self.payload(part["p"])
                hs = {}
                if part["ce"]:
                    hs["Content-Encoding"] = part["ce"]
                if part["cte"]:
                    hs["Content-Transfer-Encoding"] = part["cte"]
                if spec["subtype"] == "form-data":
                    sub.set_content_disposition("form-data", name="n%d" % len(mp))
                mp.append(sub, hs)
            return mp, None
        if k == "form":
            return self.formdata(spec)(), None
        v, exp = self.value(spec)
        if k == "str":
            return pl.StringPayload(v, encoding=spec["enc"]), exp
        if k == "stringio":
            return pl.StringIOPayload(v, encoding=spec["enc"]), exp
        if k == "textfile":
            return pl.TextIOPayload(v, encoding=spec["penc"]), exp
        if k == "file" and spec["cls"] != "auto":
            return getattr(pl, spec["cls"])(v), exp
        if k == "aiter":
            return pl.AsyncIterablePayload(v), exp
        return pl.get_payload(v), exp


def _ps_recorder():
    from aiohttp.abc import AbstractStreamWriter

    class Rec(AbstractStreamWriter):
        """Counts what a payload hands to its writer."""
        length = None

        def __init__(self):
            self.buf = bytearray()

        async def write(self, chunk):
            self.buf += bytes(chunk)

        async def write_eof(self, chunk=b""):
            self.buf += bytes(chunk)

        async def drain(self):
            pass

        def enable_compression(self, *a, **k):
            raise AssertionError("payload asked its writer to compress")

        def enable_chunking(self):
            raise AssertionError("payload asked its writer to chunk")

        async def write_headers(self, *a, **k):
            raise AssertionError("payload wrote headers")

        def send_headers(self):
            pass
    return Rec


def ps_eval_payload(loop, tmp, spec, wl):
    """Run one payload case on the implementation.  Returns (observable, [violations])."""
    Rec = _ps_recorder()
    bld = PsBuilder(tmp)
    bad = []

    async def go():
        try:
            p, exp = bld.payload(spec)
        except (ValueError, TypeError, LookupError, RuntimeError) as e:     # refused before anything is written
            return "refused:" + type(e).__name__, None, 0, False
        cls = type(p).__name__
        size0 = p.size
        w = Rec()
        await p.write(w)
        out = bytes(w.buf)
        if size0 is not None and size0 != len(out):
            bad.append(("size", f"{cls}.size == {size0} but write() emitted {len(out)} bytes"))
        if exp is not None and out != exp:
            bad.append(("content", f"{cls}.write() emitted {len(out)} bytes that are not the payload's content ({len(exp)} bytes)"))
        reusable = not p.consumed
        if reusable:
            # the same object is written again after a 307/308 redirect: size and bytes must not drift
            size1 = p.size
            w2 = Rec()
            await p.write(w2)
            if size1 != size0:
                bad.append(("size-reuse", f"{cls}.size changed from {size0} to {size1} after a write"))
            if bytes(w2.buf) != out and not (ps_has_short(spec) and ps_has_encoded(spec)):
                # (quoted-printable / zlib part encodings work per chunk: their output legitimately depends on how
                #  a short-reading file segments its data, and the segmentation is random per write)
                bad.append(("reuse", f"{cls}: second write() emitted {len(w2.buf)} bytes, first {len(out)}"))
            if wl is not None and cls != "MultipartWriter":     # MultipartWriter leaves the cut to StreamWriter.length
                w3 = Rec()
                await p.write_with_length(w3, wl)
                if bytes(w3.buf) != out[:wl]:
                    bad.append(("with-length", f"{cls}.write_with_length(n={wl}) emitted {len(w3.buf)} bytes; the first min(n, size) = {len(out[:wl])} expected"))
        await p.close()
        return cls, size0, len(out), reusable
    try:
        obs = loop.run_until_complete(go())
    finally:
        bld.close()
    return obs, bad


def ps_gen_payload_case(rng):
    r = rng.random()
    if r < 0.62:
        spec = ps_gen_leaf(rng)
    elif r < 0.85:
        spec = ps_gen_multipart(rng)
    else:
        spec = ps_gen_form(rng)
    wl = rng.choice([None, 0, 1, 7, 2 ** 16, 2 ** 16 + 1, 10 ** 6])
    return {"suite": "payload_sizes", "part": "payload", "spec": spec, "wl": wl}


# -- responses through a real server connection

class PsServer:
    def __init__(self, loop, tmp):
        import logging
        import aiohttp.web_fileresponse as wf
        from aiohttp import web
        from harness.common.transport import start_server
        self.loop, self.tmp = loop, tmp
        self.case = None
        self.bld = PsBuilder(tmp)
        self.expected = None
        self.handler_error = None
        self._old_nosendfile = wf.NOSENDFILE
        wf.NOSENDFILE = True     # harness-side: MemTransport has no socket; aiohttp's own copy loop is used
        self._levels = {n: logging.getLogger(n).level for n in ("aiohttp.server", "aiohttp.web", "aiohttp.access")}
        for n in self._levels:
            logging.getLogger(n).setLevel(logging.CRITICAL + 1)

        async def handler(request):
            return await self.respond(request)

        async def go():
            app = web.Application()
            app.router.add_route("*", "/{tail:.*}", handler)
            self.runner, self.connect = await start_server(app, loop)
        loop.run_until_complete(go())

    async def respond(self, request):
        import zlib  # noqa
        from aiohttp import web
        c = self.case["resp"]
        self.expected = None
        r = c["r"]
        if r == "resp":
            b = c["body"]
            kw = {"status": c["status"]}
            if b["b"] == "bytes":
                kw["body"] = ps_bytes(b["d"])
                self.expected = kw["body"]
            elif b["b"] == "text":
                kw["text"] = ps_text(b["t"])
                kw["charset"] = b["charset"]
                self.expected = kw["text"].encode(b["charset"] or "utf-8")
            elif b["b"] == "payload":
                p, exp = self.bld.payload(b["p"])
                kw["body"], self.expected = p, exp
            elif b["b"] == "value":
                v, exp = self.bld.value(b["p"], raw=True)
                kw["body"], self.expected = v, exp
            resp = web.Response(**kw)
            if c.get("chunked"):
                resp.enable_chunked_encoding()
            if c.get("compress"):
                resp.enable_compression()
            return resp
        if r == "stream":
            chunks = [ps_bytes(d) for d in c["writes"]]
            self.expected = b"".join(chunks)
            resp = web.StreamResponse(status=c["status"])
            if c["mode"] == "chunked":
                resp.enable_chunked_encoding()
            elif c["mode"] == "length":
                resp.content_length = len(self.expected)
            if c.get("compress"):
                resp.enable_compression()
            await resp.prepare(request)
            if c.get("eof") and chunks:            # the last piece goes through write_eof(data)
                for ch in chunks[:-1]:
                    await resp.write(ch)
                await resp.write_eof(chunks[-1])
            else:
                for ch in chunks:
                    await resp.write(ch)
                await resp.write_eof()
            return resp
        if r == "file":
            data = ps_bytes(c["d"])
            self.filedata = data
            path = self.bld.path(data)
            return web.FileResponse(path, chunk_size=c["chunk_size"], status=c["status"])
        raise ValueError(r)

    def request(self, case):
        """Send the case's request; returns (raw bytes written by the server, transport closed?)."""
        import asyncio as aio
        self.case = case
        q = case["req"]
        lines = [f"{q['method']} /x HTTP/{q['version']}", "Host: h"] + [f"{k}: {v}" for k, v in q["headers"]]
        raw = ("\r\n".join(lines) + "\r\n\r\n").encode("latin-1")

        async def go():
            proto, tr = self.connect()
            proto.data_received(raw)
            idle = 0
            last = -1
            for _ in range(400000):
                await aio.sleep(0)
                if tr.closed:
                    break
                if len(tr.buf) == last and proto._request_handler is not None and getattr(proto, "_waiter", None) is not None:
                    idle += 1
                    if idle > 5:
                        break     # the handler is parked waiting for the next request: the response is complete
                else:
                    idle = 0
                last = len(tr.buf)
            closed = tr.closed
            out = bytes(tr.buf)
            if not tr.closed:
                tr.peer_close()
                for _ in range(10):
                    await aio.sleep(0)
            return out, closed
        try:
            return self.loop.run_until_complete(go())
        finally:
            self.bld.close()

    def close(self):
        import logging
        import aiohttp.web_fileresponse as wf
        wf.NOSENDFILE = self._old_nosendfile
        try:
            self.loop.run_until_complete(self.runner.cleanup())
        except Exception:  # noqa
            pass
        for n, lv in self._levels.items():
            logging.getLogger(n).setLevel(lv)


def ps_split_response(out: bytes):
    head, sep, rest = out.partition(b"\r\n\r\n")
    if not sep:
        return None
    lines = head.split(b"\r\n")
    try:
        status = int(lines[0].split()[1])
    except Exception:  # noqa
        return None
    hs = []
    for ln in lines[1:]:
        k, _, v = ln.partition(b":")
        hs.append((k.decode("latin-1").lower(), v.strip().decode("latin-1")))
    return status, hs, rest


def ps_check_response(case, out, closed, expected, filedata=None):
    """The property predicate on what the server wrote.  Returns a list of failures."""
    import zlib
    bad = []
    if not out and closed:
        return []            # refused before any byte was written (e.g. chunked asked for HTTP/1.0): C05's subject
    r = ps_split_response(out)
    if r is None:
        return [("no-response", f"no complete response head in {out[:80]!r}")]
    status, hs, rest = r
    q = case["req"]
    cls = [v for k, v in hs if k == "content-length"]
    te = [v.lower() for k, v in hs if k == "transfer-encoding"]
    ce = [v.lower() for k, v in hs if k == "content-encoding"]
    if len(cls) > 1:
        bad.append(("content-length", f"{len(cls)} Content-Length fields"))
    if cls and not cls[0].isdigit():
        return bad + [("content-length", f"Content-Length {cls[0]!r} is not a number")]
    cl = int(cls[0]) if cls else None
    if te and cls:
        bad.append(("content-length", "both Content-Length and Transfer-Encoding sent"))
    empty = q["method"] == "HEAD" or status in (204, 304) or status < 200
    if empty:
        if rest:
            bad.append(("content-length", f"{len(rest)} body bytes written for {q['method']} / status {status}, which has no body"))
        if status == 204 or status < 200:
            if cls or te:
                bad.append(("content-length", f"status {status} sent with Content-Length/Transfer-Encoding"))
        return bad
    if te:
        if te != ["chunked"]:
            return bad + [("content-length", f"Transfer-Encoding {te}")]
        d = dechunk_ref(rest)
        if d is None or d[1] != b"":
            return bad + [("content-length", f"chunked body does not decode / has trailing bytes: {rest[:60]!r}")]
        body = d[0]
    elif cl is not None:
        if cl != len(rest):
            return bad + [("content-length", f"Content-Length: {cl} but {len(rest)} body bytes were written (status {status})")]
        body = rest
    else:
        if not closed:
            bad.append(("content-length", "no Content-Length, not chunked, and the connection stays open: the body has no end"))
        body = rest
    if status >= 400 and case["resp"].get("status", 200) < 400:
        return bad           # aiohttp's own error page (handler refused the combination): framing checked above
    if ce:
        try:
            body = zlib.decompress(body, 16 + zlib.MAX_WBITS if ce[0] == "gzip" else zlib.MAX_WBITS)
        except zlib.error:
            try:
                body = zlib.decompress(body, -zlib.MAX_WBITS)
            except zlib.error:
                return bad + [("content", f"Content-Encoding {ce[0]} body does not decompress")]
    if case["resp"]["r"] == "file":
        cr = [v for k, v in hs if k == "content-range"]
        if status == 206:
            try:
                unit, _, spec = cr[0].partition(" ")
                rng_, _, total = spec.partition("/")
                a, _, b = rng_.partition("-")
                a, b, total = int(a), int(b), int(total)
            except Exception:  # noqa
                return bad + [("content-range", f"206 with Content-Range {cr!r}")]
            if b - a + 1 != len(body) or total != len(filedata) or body != filedata[a:b + 1]:
                bad.append(("content-range", f"Content-Range {cr[0]} does not describe the {len(body)} bytes sent (file has {len(filedata)})"))
        elif status == 200 and body != filedata:
            bad.append(("content", f"file response body differs from the file ({len(body)} vs {len(filedata)} bytes)"))
    elif expected is not None and body != expected:
        bad.append(("content", f"body ({len(body)} bytes) is not the response's content ({len(expected)} bytes)"))
    return bad


def ps_gen_server_case(rng):
    method = rng.choice(["GET", "GET", "GET", "HEAD", "POST"])
    version = rng.choice(["1.1", "1.1", "1.1", "1.0"])
    headers = []
    if rng.random() < 0.3:
        headers.append(("Accept-Encoding", rng.choice(["gzip", "deflate", "gzip, deflate"])))
    if rng.random() < 0.25:
        headers.append(("Connection", rng.choice(["close", "keep-alive"]) if version == "1.1" else "close"))
    r = rng.random()
    if r < 0.55:
        status = rng.choice([200, 200, 200, 201, 204, 304, 404, 500])
        b = rng.random()
        if b < 0.2:
            body = {"b": "bytes", "d": ps_dspec(rng)}
        elif b < 0.4:
            cs = rng.choice([None, "utf-8", "utf-16", "latin-1"])
            body = {"b": "text", "t": ps_tspec(rng, _ENC_ALPHA[cs]), "charset": cs}
        elif b < 0.5:
            body = {"b": "none"}
        elif b < 0.75:
            body = {"b": "payload", "p": rng.choice([ps_gen_leaf, ps_gen_leaf, ps_gen_multipart, ps_gen_form])(rng)}
        else:
            body = {"b": "value", "p": ps_gen_leaf(rng, kinds=["bytes", "bytesio", "stringio", "file", "textfile", "aiter"])}
        resp = {"r": "resp", "status": status, "body": body, "chunked": rng.random() < 0.12, "compress": rng.random() < 0.2}
    elif r < 0.75:
        resp = {"r": "stream", "status": rng.choice([200, 200, 206, 204, 304]),
                "writes": [ps_dspec(rng, rng.random() < 0.2) for _ in range(rng.randint(0, 4))],
                "mode": rng.choice(["auto", "chunked", "length"]), "compress": rng.random() < 0.3, "eof": rng.random() < 0.5}
        if resp["compress"] and not any(k == "Accept-Encoding" for k, _ in headers):
            headers.append(("Accept-Encoding", rng.choice(["gzip", "deflate"])))
    else:
        d = ps_dspec(rng)
        n = d["n"]
        if rng.random() < 0.75:
            a, b = sorted((rng.randint(0, n + 2), rng.randint(0, n + 2)))
            headers.append(("Range", rng.choice([f"bytes={a}-{b}", f"bytes={a}-", f"bytes=-{max(b, 1)}", f"bytes={b}-{a}", "bytes=0-0",
                                                   f"bytes={n}-", f"bytes=-{n + 5}", "bytes=-1"])))
        if rng.random() < 0.15:
            headers.append(("If-Modified-Since", "Fri, 01 Jan 2100 00:00:00 GMT"))
        resp = {"r": "file", "status": 200, "d": d, "chunk_size": rng.choice([1, 7, 4096, 2 ** 16, 2 ** 18] if n <= 1000 else [4096, 2 ** 16, 2 ** 18])}
    return {"suite": "payload_sizes", "part": "server", "req": {"method": method, "version": version, "headers": headers}, "resp": resp}


def ps_fixed_server_cases():
    """StreamResponse + enable_compression + write_eof(data): the data is the first thing the compressor sees, or a
    large incompressible final block (compress() itself emits output), headers already on the wire."""
    out = []
    for enc in ("gzip", "deflate"):
        for mode in ("auto", "chunked"):
            for version in ("1.1", "1.0"):
                if version == "1.0" and mode == "chunked":
                    continue
                for writes in ([{"hex": "78"}], [{"seed": 5, "n": 70000}], [{"seed": 6, "n": 3}, {"seed": 7, "n": 40000}], []):
                    out.append({"suite": "payload_sizes", "part": "server",
                                "req": {"method": "GET", "version": version, "headers": [["Accept-Encoding", enc]]},
                                "resp": {"r": "stream", "status": 200, "writes": writes, "mode": mode, "compress": True, "eof": True}})
    return out


def ps_run_server_case(srv, case):
    out, closed = srv.request(case)
    bad = ps_check_response(case, out, closed, srv.expected, getattr(srv, "filedata", None))
    return (len(out), closed), bad


def ps_case_textfiles(case):
    if case.get("part") == "payload":
        return ps_find(case["spec"], "textfile")
    b = case.get("resp", {}).get("body") or {}
    return ps_find(b.get("p"), "textfile") if b.get("b") in ("payload", "value") else []


def sig_textio_size(case, params):
    """TextIOPayload reports the ON-DISK byte count of a text-mode file as its size, but emits the decoded
    text re-encoded: the two differ whenever the file's encoding differs from the payload's, a BOM is
    involved, or universal-newline translation drops CRs (after a partial read tell() is an opaque cookie and the
    computed size can even be a huge negative number: OverflowError)."""
    if case.get("suite") != "payload_sizes" or case.get("check") not in ("size", "content-length", "with-length", "content", "exception"):
        return False
    tfs = ps_case_textfiles(case)
    return bool(tfs) and any(not ps_textfile_size_is_exact(t) for t in tfs)


def _ps_n(d):
    return d["n"] if "n" in d else len(ps_bytes(d))


SIGNATURES["textio_size_is_disk_size"] = sig_textio_size


def _ps_bodyless(case):
    return case.get("suite") == "payload_sizes" and case.get("part") == "server" and case.get("check") == "content-length" and \
        (case["req"]["method"] == "HEAD" or case["resp"].get("status") in (204, 304))


def sig_stream_write_bodyless(case, params):
    """StreamResponse.write() passes data to the transport although the response can have no body
    (HEAD - also reached through add_get's allow_head -, 204, 304)."""
    return _ps_bodyless(case) and case["resp"]["r"] == "stream" and sum(_ps_n(d) for d in case["resp"]["writes"]) > 0


def sig_compress_flush_bodyless(case, params):
    """With streaming compression enabled, write_eof() flushes the (empty) compressor stream - 8 or 20
    bytes - after the head of a response that can have no body."""
    if not _ps_bodyless(case) or not case["resp"].get("compress"):
        return False
    if not any(k.lower() == "accept-encoding" for k, _ in case["req"]["headers"]):
        return False
    r = case["resp"]
    if r["r"] == "stream":
        return True          # (what the handler writes is dropped since 1a48374; the flush at write_eof remains)
    b = r.get("body", {})
    # Response(body=bytes/bytearray) is compressed as a whole up front; every other body becomes a Payload
    # (and so does any Response on which chunked encoding was enabled)
    return r["r"] == "resp" and (bool(r.get("chunked")) or b.get("b") == "payload" or
                                 (b.get("b") == "value" and (b["p"]["k"] != "bytes" or b["p"]["wrap"] == "memoryview")))


def sig_failed_prepare_leaks_compression(case, params):
    """prepare() enables compression on the connection's StreamWriter and then raises (chunked encoding asked
    for an HTTP/1.0 request): the 500 page aiohttp sends next goes through the same writer, deflated, with
    the Content-Length of the plain text and no Content-Encoding."""
    if case.get("suite") != "payload_sizes" or case.get("part") != "server":
        return False
    r = case["resp"]
    return case["req"]["version"] == "1.0" and r["r"] == "stream" and r["mode"] == "chunked" and bool(r.get("compress")) and \
        any(k.lower() == "accept-encoding" for k, _ in case["req"]["headers"])




def ps_with_env(fn):
    """Run fn(loop, tmp) with a fresh virtual-time loop, inline executor and temp dir."""
    import shutil
    import tempfile
    import warnings
    from harness.common.loop import VLoop
    loop = VLoop()
    asyncio.set_event_loop(loop)
    loop.set_default_executor(_ps_inline_executor())
    tmp = tempfile.mkdtemp(prefix="c04-", dir="/tmp")
    try:
        with warnings.catch_warnings():
            warnings.simplefilter("ignore")
            return fn(loop, tmp)
    finally:
        asyncio.set_event_loop(None)
        loop.close()
        shutil.rmtree(tmp, ignore_errors=True)


def suite_payload_sizes(ctx):
    rng = ctx.rng
    n_pay = 600 if ctx.quick else 12000
    n_srv = 450 if ctx.quick else 8000

    import glob
    import os
    corpus = []
    for f in sorted(glob.glob(os.path.join(fw.VERIF, "corpus", PROP, "*.json"))):
        c = json.load(open(f)).get("case", {})
        if c.get("suite") == "payload_sizes":
            corpus.append({k: v for k, v in c.items() if k != "check"})

    def body(loop, tmp):
        ran = 0
        last = None
        pay_cases = [c for c in corpus if c["part"] == "payload"] + [ps_gen_payload_case(rng) for _ in range(n_pay)]
        srv_cases = [c for c in corpus if c["part"] == "server"] + ps_fixed_server_cases() + [ps_gen_server_case(rng) for _ in range(n_srv)]
        for case in pay_cases:
            try:
                obs, bad = ps_eval_payload(loop, tmp, case["spec"], case["wl"])
            except Exception as e:  # noqa
                ctx.violation(dict(case, check="exception"), f"payload raised {e!r}")
                continue
            ran += 1
            last = case
            ctx.case(("payload", json.dumps(case["spec"], sort_keys=True), obs), nontrivial=obs[2] > 0)
            ctx.count("payload:" + obs[0])
            ctx.count("payload-size:" + ("none" if obs[1] is None else "known"))
            for check, what in bad:
                ctx.violation(dict(case, check=check), what)
        srv = PsServer(loop, tmp)
        try:
            for case in srv_cases:
                try:
                    obs, bad = ps_run_server_case(srv, case)
                except Exception as e:  # noqa
                    ctx.violation(dict(case, check="exception"), f"server case raised {e!r}")
                    continue
                ran += 1
                ctx.case(("server", json.dumps(case, sort_keys=True), obs), nontrivial=obs[0] > 0)
                ctx.count("response:" + case["resp"]["r"] + ":" + case["req"]["method"])
                for check, what in bad:
                    ctx.violation(dict(case, check=check), what)
        finally:
            srv.close()
        if last is not None:
            ctx.sample({"suite": "payload_sizes", "case": last})
        return ran
    ran = ps_with_env(body)
    ctx.close_suite("payload_sizes", ran)


def ps_replay(case):
    def body(loop, tmp):
        if case.get("part") == "payload":
            obs, bad = ps_eval_payload(loop, tmp, case["spec"], case.get("wl"))
        else:
            srv = PsServer(loop, tmp)
            try:
                obs, bad = ps_run_server_case(srv, case)
            finally:
                srv.close()
        return {"observed": list(obs), "failures": [list(b) for b in bad], "violates": bool(bad)}
    return ps_with_env(body)


# ---- client requests: the emitted head and body agree ---------------------------------------------
#
# Real requests through ClientSession over an in-memory connector; the body is given at creation and may be
# replaced by client middlewares (`await request.update_body(...)`, once or twice).  Implementation-only oracle
# on the bytes that reach the transport.

CR_KINDS = ["none", "bytes", "bytes", "str", "bytesio", "aiter", "aiter", "form", "file", "payload"]


def cr_gen_body(rng):
    k = rng.choice(CR_KINDS)
    if k == "none":
        return None
    if k == "form":
        return ps_gen_form(rng)
    if k == "payload":      # an explicit Payload object (sized or not)
        return {"k": "as_payload", "p": ps_gen_leaf(rng, big_ok=rng.random() < 0.2, kinds=["bytes", "str", "bytesio", "aiter", "file"])}
    return ps_gen_leaf(rng, big_ok=rng.random() < 0.2, kinds=[k])


def cr_gen_case(rng):
    n_upd = rng.choice([0, 0, 1, 1, 1, 2])
    return {"suite": "client_request_framing",
            "method": rng.choice(["POST", "POST", "POST", "PUT", "PATCH", "DELETE", "GET"]),
            "version": rng.choice(["1.1", "1.1", "1.1", "1.0"]),
            "a": cr_gen_body(rng),
            "chunked": rng.choice([None, None, None, True]),
            "compress": rng.choice([False, False, False, False, True, "deflate", "gzip"]),
            "updates": [cr_gen_body(rng) for _ in range(n_upd)],
            "mw": rng.choice(["session", "request"])}


def cr_gen_grow_case(rng):
    """The final body is a BytesIO / real file that grows or shrinks after the request object was built
    (before_connect hook of the in-memory connector) and before the body is written."""
    n = rng.choice([0, 1, 5, 100, 1000, 2 ** 16, 2 ** 16 + 1])
    k = rng.choice(["bytesio", "file", "file"])
    if k == "bytesio":
        src = {"k": "bytesio", "d": {"seed": rng.randrange(2 ** 32), "n": n}, "pre": rng.choice([0, 0, min(1, n), n // 2])}
    else:
        src = {"k": "file", "mode": rng.choice(["buffered", "raw", "short_raw", "short_buf"]), "cls": "auto",
               "d": {"seed": rng.randrange(2 ** 32), "n": n}, "pre": rng.choice([0, 0, min(1, n), n // 2])}
        if src["mode"].startswith("short"):
            src["short"] = ps_short(rng, n)
    delta = rng.choice([1, 2, 7, 1000, 2 ** 16 + 3]) * (1 if rng.random() < 0.7 else -1)
    upd = rng.random() < 0.3
    return {"suite": "client_request_framing", "method": rng.choice(["POST", "PUT", "GET"]), "version": rng.choice(["1.1", "1.1", "1.0"]),
            "a": cr_gen_body(rng) if upd else src, "chunked": None if rng.random() < 0.85 else True, "compress": False,
            "updates": [src] if upd else [], "mw": rng.choice(["session", "request"]),
            "grow": {"delta": delta, "seed": rng.randrange(2 ** 32)}}


def cr_pairs():
    """Every ordered pair (initial body kind, replacement kind), explicit chunked=True included."""
    import random
    r = random.Random(4)
    kinds = [None,
             {"k": "bytes", "wrap": "bytes", "d": {"hex": "68656c6c6f20776f726c64"}},
             {"k": "str", "enc": None, "t": {"text": "text bödy"}},
             {"k": "bytesio", "d": {"seed": 7, "n": 300}, "pre": 3},
             {"k": "aiter", "chunks": [{"hex": "6162"}, {"hex": ""}, {"seed": 9, "n": 70}]},
             {"k": "form", "charset": None, "quote_fields": True, "boundary": None,
              "fields": [{"name": "a", "v": {"k": "str", "enc": None, "t": {"text": "b c"}}, "filename": None, "content_type": None}]},
             {"k": "form", "charset": None, "quote_fields": True, "boundary": "fb",
              "fields": [{"name": "f", "v": {"k": "bytes", "wrap": "bytes", "d": {"hex": "010203"}}, "filename": "x.bin", "content_type": None}]},
             {"k": "file", "mode": "short_raw", "cls": "auto", "d": {"seed": 11, "n": 5120}, "pre": 0, "short": {"seed": 5, "cap": 1000}}]
    out = []
    for a in kinds:
        for b in kinds:
            for chunked in (None, True):
                for version in ("1.1", "1.0"):
                    if version == "1.0" and r.random() < 0.6:
                        continue
                    out.append({"suite": "client_request_framing", "method": "POST", "version": version, "a": a, "chunked": chunked,
                                "compress": False, "updates": [b], "mw": "request"})
    return out


def aiohttp_client_error():
    import aiohttp
    return aiohttp.ClientError


class CrBed:
    def __init__(self, loop, tmp):
        import aiohttp
        from aiohttp import HttpVersion10, HttpVersion11
        from harness.common.transport import make_connector
        self.loop, self.bld = loop, PsBuilder(tmp)
        self.origin = None
        bed = self

        class Origin:
            def __init__(self):
                self.buf = bytearray()
                self.tr = None

            def on_bytes(self, tr, data):
                self.tr = tr
                self.buf += data

            async def before_connect(self, req):
                # "while the connection is being established": the request object exists (its Content-Length was
                # computed), nothing has been written yet
                bed.mutate_source()

        def factory(req):
            bed.origin = Origin()
            return bed.origin

        async def go():
            self.sessions = {}
            for name, v in (("1.1", HttpVersion11), ("1.0", HttpVersion10)):
                conn = make_connector(loop, factory, force_close=True)
                self.sessions[name] = aiohttp.ClientSession(connector=conn, version=v, middlewares=(self._mw,))
        loop.run_until_complete(go())
        self.updates = []

    def mutate_source(self):
        """Grow (delta > 0: append bytes) or shrink (delta < 0: truncate) the source of the request's final body."""
        import io
        import os
        g = self.grow
        src = self.source
        self.grow = None
        if not g or src is None:
            return
        f = src
        extra = ps_bytes({"seed": g["seed"], "n": abs(g["delta"])})
        if isinstance(f, io.BytesIO):
            pos = f.tell()
            if g["delta"] > 0:
                f.seek(0, 2)
                f.write(extra)
                f.seek(pos)
            else:
                f.truncate(max(pos, len(f.getbuffer()) + g["delta"]))
                f.seek(pos)
            return
        path = getattr(f, "name", None) or getattr(getattr(f, "_f", None), "name", None)
        if not isinstance(path, str):
            return
        if g["delta"] > 0:
            with open(path, "ab") as h:
                h.write(extra)
        else:
            os.truncate(path, max(f.tell(), os.path.getsize(path) + g["delta"]))

    def body_value(self, spec):
        """(value for data= / update_body, expected bytes or None)"""
        v, exp = self._body_value(spec)
        self.source = v if spec is not None and spec["k"] in ("bytesio", "file") and spec.get("mode") != "membuf" else None
        return v, exp

    def _body_value(self, spec):
        if spec is None:
            return None, b""
        if spec["k"] == "form":
            return self.bld.formdata(spec), None
        if spec["k"] == "as_payload":
            return self.bld.payload(spec["p"])
        return self.bld.value(spec, raw=True)

    async def _mw(self, req, handler):
        self.req = req
        for spec in self.updates:
            v, exp = self.body_value(spec)
            await req.update_body(v)
            self.expected = exp
        return await handler(req)

    def run(self, case):
        """(raw bytes the client wrote, outcome)"""
        import asyncio as aio
        self.origin = None
        sess = self.sessions[case["version"]]

        async def go():
            self.grow = case.get("grow")
            self.source = None
            v, self.expected = self.body_value(case["a"])
            kw = {}
            self.req = None
            if case["mw"] == "request":
                self.updates = []
                ups = list(case["updates"])

                async def mw(req, handler):
                    self.req = req
                    for spec in ups:
                        v2, exp = self.body_value(spec)
                        await req.update_body(v2)
                        self.expected = exp
                    return await handler(req)
                kw["middlewares"] = (mw,)
            else:
                self.updates = list(case["updates"])
            task = self.loop.create_task(sess.request(case["method"], "http://h.test/p", data=v, chunked=case["chunked"],
                                                      compress=case["compress"], **kw))
            stable, last = 0, -1
            for _ in range(400000):
                await aio.sleep(0)
                if task.done():
                    break
                # the request is completely written when _send() has returned and its writer task is gone
                # (harness-side peek at two private attributes; falls back to "no progress for a long while")
                r = self.req
                if r is not None and hasattr(r, "_writer_task") and hasattr(r, "_response"):
                    if self.origin is not None and r._response is not None and r._writer_task is None:
                        break
                    continue
                n = len(self.origin.buf) if self.origin is not None else -1
                if n == last and n >= 0:
                    stable += 1
                    if stable >= 3000:
                        break
                else:
                    stable = 0
                last = n
            outcome = "sent"
            self.gave_up = self.origin is not None and self.origin.tr is not None and self.origin.tr.closed
            if not task.done() and not self.gave_up:
                self.origin.tr.protocol.data_received(b"HTTP/1.1 200 OK\r\nContent-Length: 0\r\nConnection: close\r\n\r\n")
            try:
                resp = await task
                await resp.read()
                resp.release()
            except (ValueError, TypeError, RuntimeError, LookupError, OSError, aiohttp_client_error()) as e:
                outcome = "raised:" + type(e).__name__
            for _ in range(5):
                await aio.sleep(0)
            return bytes(self.origin.buf) if self.origin is not None else b"", outcome
        try:
            return self.loop.run_until_complete(go())
        finally:
            self.bld.close()

    def close(self):
        async def go():
            for s_ in self.sessions.values():
                await s_.close()
        try:
            self.loop.run_until_complete(go())
        except Exception:  # noqa
            pass


def cr_check(case, raw, outcome, expected):
    import zlib
    if not raw:
        return []          # refused before anything was written (or nothing to send)
    if outcome != "sent":
        return [("exception", f"request {outcome} after {len(raw)} bytes had been written")]
    head, sep, rest = raw.partition(b"\r\n\r\n")
    if not sep:
        return [("framing", f"no complete request head in {raw[:80]!r}")]
    hs = []
    for ln in head.split(b"\r\n")[1:]:
        k, _, v = ln.partition(b":")
        hs.append((k.decode("latin-1").lower(), v.strip().decode("latin-1")))
    cls = [v for k, v in hs if k == "content-length"]
    te = [v.lower() for k, v in hs if k == "transfer-encoding"]
    ce = [v.lower() for k, v in hs if k == "content-encoding"]
    if te and cls:
        return [("framing", f"request carries both Content-Length: {cls[0]} and Transfer-Encoding: {te[0]}")]
    if len(cls) > 1 or len(te) > 1:
        return [("framing", f"repeated framing headers {cls} {te}")]
    if te:
        if te != ["chunked"]:
            return [("framing", f"Transfer-Encoding {te}")]
        d = dechunk_ref(rest)
        if d is None or d[1] != b"":
            return [("framing", f"Transfer-Encoding: chunked but the body does not de-chunk / has trailing bytes: {rest[:60]!r}")]
        body = d[0]
    elif cls:
        if not cls[0].isdigit():
            return [("framing", f"Content-Length {cls[0]!r}")]
        if int(cls[0]) != len(rest):
            return [("framing", f"Content-Length: {cls[0]} but {len(rest)} body bytes follow the head: {rest[:40]!r}")]
        body = rest
    else:
        if rest:
            return [("framing", f"neither Content-Length nor Transfer-Encoding, yet {len(rest)} bytes follow the head")]
        body = b""
    if ce and body:          # (an empty body is sent as zero bytes even when a Content-Encoding is announced)
        try:
            body = zlib.decompress(body, 16 + zlib.MAX_WBITS if ce[0] == "gzip" else zlib.MAX_WBITS)
        except zlib.error:
            return [("content", f"Content-Encoding {ce[0]} body does not decompress")]
    if expected is not None and body != expected:
        return [("content", f"framed body ({len(body)} bytes) is not the supplied data ({len(expected)} bytes)")]
    return []


def sig_bare_last_chunk_after_get(case, params):
    """A GET (GET_METHODS) request that ends up without a body while chunking is on (chunked=True with no data, or
    update_body(None) after a chunked / compressed / unsized body): no Transfer-Encoding header is (re)written for a
    body-less GET, but the StreamWriter is still put in chunked mode, so '0 CRLF CRLF' follows a head that frames nothing."""
    if case.get("suite") != "client_request_framing" or case.get("check") != "framing" or case.get("method") != "GET":
        return False
    final = case["updates"][-1] if case["updates"] else case["a"]
    return final is None




def sig_short_body_after_shrink(case, params):
    """The body source (file / BytesIO) lost bytes between the construction of the request (Content-Length computed)
    and the writing of the body: the client writes the bytes that are left, reports no error and keeps the
    connection open, so fewer bytes than announced are on the wire and the peer waits / takes the next request's
    first bytes as body."""
    return case.get("suite") == "client_request_framing" and case.get("check") == "framing" and \
        bool(case.get("grow")) and case["grow"]["delta"] < 0




def sig_source_shrinks_to_nothing(case, params):
    """Residual of the repaired C04-short-body-after-source-shrinks: when the source has lost ALL its remaining bytes,
    _should_write() sees body.size == 0, _write_bytes() (where ef4bcfa detects the shortfall) never runs, and the head with
    the old Content-Length goes out with no body and no error."""
    if case.get("suite") != "client_request_framing" or case.get("check") != "framing" or not case.get("grow"):
        return False
    src = case["updates"][-1] if case["updates"] else case["a"]
    if not isinstance(src, dict) or src.get("k") not in ("file", "bytesio"):
        return False
    n = _ps_n(src["d"])
    return case["grow"]["delta"] < 0 and n > src["pre"] and n + case["grow"]["delta"] <= src["pre"]




def cr_eval(bed, case):
    raw, outcome = bed.run(case)
    expected = None if case.get("grow") else bed.expected      # a source changed under the request: framing only
    if case.get("grow") and case["grow"]["delta"] < 0 and (bed.gave_up or outcome != "sent"):
        bad = []        # bytes that no longer exist cannot be sent: closing the connection / failing is the truthful way out
    else:
        bad = cr_check(case, raw, outcome, expected)
    head = raw.partition(b"\r\n\r\n")[0].lower()
    framing = "none" if not raw else ("chunked" if b"transfer-encoding" in head else ("length" if b"content-length" in head else "bare"))
    return (len(raw), outcome, framing), bad


def suite_client_request_framing(ctx):
    import glob
    import os
    rng = ctx.rng
    n = 450 if ctx.quick else 10000
    corpus = []
    for f in sorted(glob.glob(os.path.join(fw.VERIF, "corpus", PROP, "*.json"))):
        c = json.load(open(f)).get("case", {})
        if c.get("suite") == "client_request_framing":
            corpus.append({k: v for k, v in c.items() if k != "check"})

    def body(loop, tmp):
        bed = CrBed(loop, tmp)
        ran = 0
        case = None
        try:
            for case in corpus + cr_pairs() + [cr_gen_case(rng) for _ in range(n)] + [cr_gen_grow_case(rng) for _ in range(n // 3)]:
                try:
                    obs, bad = cr_eval(bed, case)
                except Exception as e:  # noqa
                    ctx.violation(dict(case, check="exception"), f"client request case raised {e!r}")
                    continue
                ran += 1
                ctx.case(("client", json.dumps(case, sort_keys=True), obs), nontrivial=obs[0] > 0)
                ctx.count("cr-framing:" + obs[2])
                ctx.count("cr-outcome:" + obs[1])
                ctx.count("cr-updates:%d" % len(case["updates"]))
                if case.get("grow"):
                    ctx.count("cr-source:" + ("grows" if case["grow"]["delta"] > 0 else "shrinks"))
                for check, what in bad:
                    ctx.violation(dict(case, check=check), what)
        finally:
            bed.close()
        if case is not None:
            ctx.sample({"suite": "client_request_framing", "case": case})
        return ran
    ran = ps_with_env(body)
    ctx.close_suite("client_request_framing", ran)


def cr_replay(case):
    def body(loop, tmp):
        bed = CrBed(loop, tmp)
        try:
            obs, bad = cr_eval(bed, case)
        finally:
            bed.close()
        return {"observed": list(obs), "failures": [list(b) for b in bad], "violates": bool(bad)}
    return ps_with_env(body)


# ---- StreamWriter with compression (implementation-only oracle; the Coq writer model has no compression) ----

def zw_data(d):
    """dspec with optional "rep": compressible data (a short pattern repeated)."""
    if d.get("rep"):
        pat = ps_bytes({"seed": d["seed"], "n": 7})
        return (pat * (d["n"] // 7 + 1))[:d["n"]]
    return ps_bytes(d)


def zw_dspec(rng):
    n = rng.choice([0, 0, 1, 1, 2, 5, 100, 1000, 4096, 20000, 70000]) if rng.random() < 0.8 else rng.randint(0, 300)
    return {"seed": rng.randrange(2 ** 32), "n": n, "rep": rng.random() < 0.35}


def zw_gen_case(rng):
    """[Z enc] [C]? H [S]? (W d | S)* E d  - all four combinations headers buffered/sent x chunked/plain,
    terminator write_eof WITH or without data (set_eof never flushes a compressor, so it is not a well-formed end)."""
    pre = [["Z", rng.choice(["deflate", "gzip"])]]
    if rng.random() < 0.6:
        pre.append(["C"])
    rng.shuffle(pre)
    ops = pre + [["H", rng.randrange(len(HEADS))]]
    if rng.random() < 0.5:
        ops.append(["S"])
    for _ in range(rng.choice([0, 0, 0, 1, 1, 2, 4])):
        ops.append(["W", zw_dspec(rng)] if rng.random() < 0.8 else ["S"])
    e = zw_dspec(rng)
    if rng.random() < 0.15:
        e["n"] = 0
    ops.append(["E", e])
    return {"suite": "compressed_writer", "ops": ops}


def zw_eval(loop, case):
    """Run on the real StreamWriter; returns (observable, [failures])."""
    import zlib
    ops = case["ops"]
    real = [tuple([o[0], zw_data(o[1])]) if o[0] in ("W", "E") else tuple(o) for o in ops]
    out, st = impl_writer(loop, real)
    enc = [o[1] for o in ops if o[0] == "Z"][0]
    chunked = any(o[0] == "C" for o in ops)
    head = head_bytes([o[1] for o in ops if o[0] == "H"][0])
    written = b"".join(o[1] for o in real if o[0] in ("W", "E"))
    obs = (len(out), chunked, enc)
    if not out.startswith(head):
        return obs, [("framing", "output does not start with the buffered head")]
    body = out[len(head):]
    if chunked:
        r = dechunk_ref(body)
        if r is None or r[1] != b"":
            return obs, [("framing", f"chunked + {enc}: the body does not de-chunk (a chunk size does not match its data) / trailing bytes: {body[:60]!r}")]
        body = r[0]
    try:
        d = zlib.decompressobj(16 + zlib.MAX_WBITS if enc == "gzip" else zlib.MAX_WBITS)
        plain = d.decompress(body)
        if not d.eof or d.unused_data:
            return obs, [("content", f"{enc} stream is not complete / has {len(d.unused_data)} trailing bytes")]
    except zlib.error as e:
        return obs, [("content", f"{enc} body does not decompress: {e}")]
    if plain != written:
        return obs, [("content", f"decompressed body ({len(plain)} bytes) is not the concatenation of the written data ({len(written)} bytes)")]
    return obs, []


def suite_compressed_writer(ctx):
    from harness.common.loop import VLoop
    rng = ctx.rng
    loop = VLoop()
    asyncio.set_event_loop(loop)
    loop.set_default_executor(_ps_inline_executor())
    ran = 0
    case = None
    try:
        fixed = []
        for enc in ("deflate", "gzip"):          # the four combinations, eof data as the FIRST thing compressed
            for chunked in (False, True):
                for sent in (False, True):
                    for e in ({"hex": "78"}, {"hex": ""}, {"seed": 3, "n": 70000}):
                        fixed.append({"suite": "compressed_writer", "ops": [["Z", enc]] + ([["C"]] if chunked else []) + [["H", 0]] +
                                      ([["S"]] if sent else []) + [["E", e]]})
        for case in fixed + [zw_gen_case(rng) for _ in range(1500 if ctx.quick else 30000)]:
            try:
                obs, bad = zw_eval(loop, case)
            except Exception as e:  # noqa
                ctx.violation(dict(case, check="exception"), f"compressed writer case raised {e!r}")
                continue
            ran += 1
            ctx.case(("zw", json.dumps(case, sort_keys=True), obs), nontrivial=obs[0] > 0)
            ctx.count("zw:" + ("chunked" if obs[1] else "plain") + ":" + obs[2])
            for check, what in bad:
                ctx.violation(dict(case, check=check), what)
        if case is not None:
            ctx.sample(case)
    finally:
        asyncio.set_event_loop(None)
        loop.close()
    ctx.close_suite("compressed_writer", ran)


def zw_replay(case):
    from harness.common.loop import VLoop
    loop = VLoop()
    asyncio.set_event_loop(loop)
    loop.set_default_executor(_ps_inline_executor())
    try:
        obs, bad = zw_eval(loop, case)
    finally:
        asyncio.set_event_loop(None)
        loop.close()
    return {"observed": list(obs), "failures": [list(b) for b in bad], "violates": bool(bad)}


def run(ctx):
    ok, exe = build_model()
    ctx.oblige("model-runner-build", "correspondence", ok, "" if ok else exe)
    if not ok:
        return
    suite_serialize(ctx, exe)
    suite_response_glue(ctx, exe)
    suite_writer(ctx, exe)
    suite_compressed_writer(ctx)
    suite_payload_sizes(ctx)
    suite_client_request_framing(ctx)


def replay(ctx, case):
    if case.get("suite") == "payload_sizes":
        return ps_replay(case)
    if case.get("suite") == "client_request_framing":
        return cr_replay(case)
    if case.get("suite") == "compressed_writer":
        return zw_replay(case)
    ok, exe = build_model()
    if case.get("suite") == "serialize_headers":
        sl, hs = case["status_line"], [tuple(x) for x in case["headers"]]
        out = impl_serialize(sl, hs)
        parts = ["SER", csv(sl)] + [csv(x) for kv in hs for x in kv]
        m = fw.run_model(exe, [" ".join(parts)])[0]
        bad = oracle_lines(sl, hs, out)
        return {"impl": None if out is None else out.hex(), "model": m, "violates": bool(bad), "why": bad}
    return {"violates": None, "note": "replay of this suite re-runs the generator; use the seed"}
