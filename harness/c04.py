"""C04 — outbound messages: no injection; truthful framing."""
from __future__ import annotations

import asyncio
import json

from harness.common import framework as fw

PROP = "C04"
GENERATED = ["WriterGen.v"]
RULE = ("header suites: every code point of the tier's set in each of the positions (status line, name, value, "
        "reason, method) at start/middle/end of a carrier string, plus random strings from weighted code-point "
        "classes; writer suites: random op sequences over write_headers/send_headers/write/write_eof/set_eof/"
        "enable_chunking/length.  Non-trivial = the message was accepted and bytes were emitted; distinct by "
        "hash of (input, emitted bytes).")
TRUSTED = [
    "translator/gen_writer.py (regex class -> N->bool; ast shape checks of _safe_header, _py_serialize_headers, _set_status)",
    "extraction: ExtrOcamlBasic only; ocaml/common/conv.ml + ocaml/C04/driver.ml (decimal/hex I/O)",
    "correspondence harness harness/c04.py: sampled, not proved",
    "modelled, not verified: CPython str.encode('utf-8'), multidict iteration order, asyncio transports; the C "
    "accelerator _http_writer is out of scope (AIOHTTP_NO_EXTENSIONS=1)",
]
ASSUMPTIONS = [
    "The Python writer is used (AIOHTTP_NO_EXTENSIONS=1).",
    "Model/implementation agreement is validated on the generated cases only.",
]
SIGNATURES: dict = {}

BOUNDARY_CPS = [0, 8, 9, 10, 11, 12, 13, 14, 31, 32, 58, 126, 127, 128, 0x85, 0xA0, 0xFF, 0x100, 0x7FF, 0x800,
                0x2028, 0x2029, 0xD7FF, 0xD800, 0xDBFF, 0xDC00, 0xDFFF, 0xE000, 0xFFFD, 0xFFFF, 0x10000, 0x10FFFF]


def build_model():
    return fw.ocaml_model("C04", ["Model/Writer.vo"])


def csv(s: str) -> str:
    return ",".join(str(ord(c)) for c in s) if s else "-"


def rand_str(rng, maxlen=12):
    n = rng.randint(0, maxlen)
    out = []
    for _ in range(n):
        r = rng.random()
        if r < 0.55:
            out.append(rng.choice("abcXYZ019-_ :;=,/\t"))
        elif r < 0.70:
            out.append(chr(rng.choice(BOUNDARY_CPS)))
        elif r < 0.85:
            out.append(chr(rng.randint(0, 0x7FF)))
        else:
            out.append(chr(rng.randint(0, 0x10FFFF)))
    return "".join(out)


def impl_serialize(sl, hs):
    from multidict import CIMultiDict
    from aiohttp import http_writer
    try:
        return bytes(http_writer._serialize_headers(sl, CIMultiDict(hs)))
    except ValueError:           # includes UnicodeEncodeError
        return None


def oracle_lines(sl, hs, out):
    """Property predicate on implementation output (no model involved): exactly one start line and
    one line per supplied header; nothing else."""
    if out is None:
        return None
    if not out.endswith(b"\r\n\r\n"):
        return "does not end with an empty line"
    body = out[:-4]
    lines = body.split(b"\r\n")
    want = 1 + max(len(hs), 1)     # "\r\n".join([]) == "" still leaves one (empty) line
    if len(lines) != want:
        return f"{len(lines)} lines emitted for 1 start line + {len(hs)} headers"
    if b"\r" in body.replace(b"\r\n", b"") or b"\n" in body.replace(b"\r\n", b""):
        return "bare CR or LF inside a line"
    try:
        exp = [sl.encode()] + [(k + ": " + v).encode() for k, v in hs]
    except UnicodeEncodeError:
        return "accepted a string that cannot be encoded"
    if hs and lines != exp:
        return "lines differ from the supplied start line / headers"
    return None


def suite_serialize(ctx, exe):
    rng = ctx.rng
    cases = []
    if ctx.quick:
        cps = sorted(set(list(range(0, 0x900)) + BOUNDARY_CPS + [rng.randint(0, 0x10FFFF) for _ in range(1500)]))
    else:
        cps = range(0, 0x110000)
    for cp in cps:
        ch = chr(cp)
        for pos in range(3):
            carrier = ["HTTP/1.1 200 OK", "X-Name", "value"]
            for where in ((0, 1, 2) if (cp < 0x100 or cp in BOUNDARY_CPS) else (1,)):
                c = list(carrier)
                base = c[pos]
                c[pos] = (ch + base, base[:2] + ch + base[2:], base + ch)[where]
                cases.append((c[0], [(c[1], c[2]), ("Z", "z")]))
    nrand = 3000 if ctx.quick else 60000
    for _ in range(nrand):
        hs = [(rand_str(rng, 8), rand_str(rng)) for _ in range(rng.randint(0, 4))]
        cases.append((rand_str(rng, 20), hs))
    lines = []
    for sl, hs in cases:
        parts = ["SER", csv(sl)]
        for k, v in hs:
            parts += [csv(k), csv(v)]
        lines.append(" ".join(parts))
    model = fw.run_model(exe, lines)
    ran = 0
    for (sl, hs), m in zip(cases, model):
        # multidict: duplicate names are kept in order; empty header list is allowed
        out = impl_serialize(sl, hs)
        mo = None if m == "NONE" else fw.unhex(m.split()[1])
        ran += 1
        ctx.case((sl, tuple(hs), out), nontrivial=out is not None)
        ctx.count("serialize:accepted" if out is not None else "serialize:refused")
        if mo != out:
            ctx.disagreement("serialize_headers", {"status_line": sl, "headers": hs}, m, None if out is None else out.hex())
        bad = oracle_lines(sl, hs, out)
        if bad:
            ctx.violation({"suite": "serialize_headers", "status_line": sl, "headers": hs}, f"_serialize_headers: {bad}; output={out!r}")
    ctx.sample({"suite": "serialize_headers", "status_line": cases[-1][0], "headers": cases[-1][1], "model": model[-1]})
    ctx.close_suite("serialize_headers", ran)


# ---- glue: the public entry points that feed strings into the serializer -------------------

def _response_bytes(loop, status, reason, headers):
    """Bytes a StreamResponse writes for (status, reason, headers); None if refused before writing."""
    from aiohttp import web
    from aiohttp.test_utils import make_mocked_request
    from aiohttp.http_writer import StreamWriter
    from harness.common.transport import MemTransport
    from unittest import mock

    async def go():
        proto = mock.Mock()
        tr = MemTransport(loop, None)
        proto.transport = tr
        proto._paused = False
        w = StreamWriter(proto, loop)
        req = make_mocked_request("GET", "/", writer=w, protocol=proto, transport=tr)
        try:
            resp = web.StreamResponse(status=status, reason=reason, headers=headers)
            await resp.prepare(req)
            await resp.write_eof()
        except ValueError:
            return None if not tr.buf else bytes(tr.buf) + b"<<RAISED-AFTER-WRITE>>"
        return bytes(tr.buf)
    return loop.run_until_complete(go())


def suite_response_glue(ctx, exe):
    from harness.common.loop import VLoop
    rng = ctx.rng
    loop = VLoop()
    asyncio.set_event_loop(loop)
    ran = 0
    try:
        chars = [chr(c) for c in (list(range(0, 40)) + BOUNDARY_CPS)]
        cases = []
        for ch in chars:
            cases.append((200, "O" + ch + "K", []))
            cases.append((200, None, [("X-A", "v" + ch + "w")]))
            cases.append((200, None, [("X" + ch + "A", "v")]))
        for _ in range(300 if ctx.quick else 5000):
            cases.append((rng.choice([200, 201, 404, 500]), rng.choice([None, rand_str(rng, 6)]),
                          [(("X-" + rand_str(rng, 4)) or "X", rand_str(rng, 8)) for _ in range(rng.randint(0, 3))]))
        reqs = []
        for st, reason, hs in cases:
            reqs.append("REASON " + csv(reason or ""))
        reason_ok = fw.run_model(exe, reqs)
        for (st, reason, hs), rok in zip(cases, reason_ok):
            try:
                out = _response_bytes(loop, st, reason, hs)
            except Exception as e:  # noqa
                ctx.violation({"suite": "response_glue", "status": st, "reason": reason, "headers": hs}, f"unexpected exception {e!r}")
                continue
            ran += 1
            ctx.case((st, reason, tuple(hs), out), nontrivial=out is not None)
            ctx.count("response:accepted" if out is not None else "response:refused")
            if out is not None and out.endswith(b"<<RAISED-AFTER-WRITE>>"):
                ctx.violation({"suite": "response_glue", "status": st, "reason": reason, "headers": hs}, "exception raised after bytes reached the transport")
                continue
            if rok == "0" and out is not None:
                ctx.disagreement("response_glue", {"reason": reason}, "reason refused by model", out.hex())
            if out is None:
                continue
            head = out.split(b"\r\n\r\n", 1)[0]
            lines = head.split(b"\r\n")
            try:
                supplied = [(k + ": " + v).encode() for k, v in hs]
            except UnicodeEncodeError:
                ctx.violation({"suite": "response_glue", "status": st, "reason": reason, "headers": hs}, "accepted an unencodable header")
                continue
            auto = (b"Content-Type: ", b"Content-Length: ", b"Date: ", b"Server: ", b"Transfer-Encoding: ", b"Connection: ")
            rest = list(lines[1:])
            for sline in supplied:
                if sline in rest:
                    rest.remove(sline)
                else:
                    rest.append(b"<missing supplied line>")
            extra = [ln for ln in rest if not ln.startswith(auto)]
            first = lines[0]
            exp_first_prefix = b"HTTP/1.1 %d " % st
            if extra or not first.startswith(exp_first_prefix) or (reason is not None and first != exp_first_prefix + reason.encode()) \
                    or b"\r" in head.replace(b"\r\n", b"") or b"\n" in head.replace(b"\r\n", b""):
                ctx.violation({"suite": "response_glue", "status": st, "reason": reason, "headers": hs},
                              f"response head has injected structure: {head!r}")
        ctx.sample({"suite": "response_glue", "status": cases[-1][0], "reason": cases[-1][1], "headers": cases[-1][2]})
    finally:
        asyncio.set_event_loop(None)
        loop.close()
    ctx.close_suite("response_glue", ran)


# ---- StreamWriter op sequences ---------------------------------------------------------------

HEADS = [("HTTP/1.1 200 OK", [("Content-Type", "text/plain")]), ("POST /x HTTP/1.1", [("Host", "h"), ("X-A", "1")]),
         ("HTTP/1.0 404 Not Found", [])]


def gen_ops(rng):
    ops = []
    n = rng.randint(1, 9)
    chunked = rng.random() < 0.5
    if chunked and rng.random() < 0.8:
        ops.append(("C",))
    if rng.random() < 0.35:
        ops.append(("L", rng.choice([0, 1, 3, 5, 10, 40])))
    if rng.random() < 0.9:
        ops.append(("H", rng.randrange(len(HEADS))))
    for _ in range(n):
        r = rng.random()
        size = rng.choice([0, 0, 1, 2, 3, 5, 16, 17, 255, 256, 300, 2047, 2048, 4100]) if rng.random() < 0.7 else rng.randint(0, 40)
        data = bytes(rng.randrange(256) for _ in range(min(size, 64))) * (1 if size <= 64 else size // 64 + 1)
        data = data[:size]
        if r < 0.5:
            ops.append(("W", data))
        elif r < 0.62:
            ops.append(("S",))
        elif r < 0.77:
            ops.append(("E", data if rng.random() < 0.6 else b""))
        elif r < 0.85:
            ops.append(("X",))
        elif r < 0.9:
            ops.append(("C",))
        elif r < 0.95:
            ops.append(("H", rng.randrange(len(HEADS))))
        else:
            ops.append(("L", rng.choice([None, 0, 2, 7, 1000])))
    if rng.random() < 0.7:
        ops.append(("E", b"") if rng.random() < 0.5 else ("X",))
    return ops


def impl_writer(loop, ops):
    from multidict import CIMultiDict
    from aiohttp.http_writer import StreamWriter, _serialize_headers
    from harness.common.transport import MemTransport
    from unittest import mock

    async def go():
        proto = mock.Mock()
        tr = MemTransport(loop, None)
        proto.transport = tr
        proto._paused = False
        w = StreamWriter(proto, loop)
        for op in ops:
            k = op[0]
            if k == "H":
                sl, hs = HEADS[op[1]]
                await w.write_headers(sl, CIMultiDict(hs))
            elif k == "S":
                w.send_headers()
            elif k == "W":
                await w.write(op[1])
            elif k == "E":
                await w.write_eof(op[1])
            elif k == "X":
                w.set_eof()
            elif k == "C":
                w.enable_chunking()
            elif k == "L":
                w.length = op[1]
        return bytes(tr.buf), (w.chunked, w._headers_written, w._eof, w.length)
    return loop.run_until_complete(go())


def head_bytes(i):
    from multidict import CIMultiDict
    from aiohttp.http_writer import _serialize_headers
    sl, hs = HEADS[i]
    return bytes(_serialize_headers(sl, CIMultiDict(hs)))


def dechunk_ref(b: bytes):
    """Independent reference de-chunker: returns (data, rest) or None."""
    out = b""
    while True:
        i = b.find(b"\r\n")
        if i < 0:
            return None
        try:
            n = int(b[:i], 16)
        except ValueError:
            return None
        b = b[i + 2:]
        if n == 0:
            return (out, b[2:]) if b[:2] == b"\r\n" else None
        if len(b) < n + 2 or b[n:n + 2] != b"\r\n":
            return None
        out, b = out + b[:n], b[n + 2:]


def suite_writer(ctx, exe):
    from harness.common.loop import VLoop
    rng = ctx.rng
    loop = VLoop()
    asyncio.set_event_loop(loop)
    ran = 0
    try:
        n = 1500 if ctx.quick else 40000
        seqs = [gen_ops(rng) for _ in range(n)]
        lines = []
        for ops in seqs:
            toks = []
            for op in ops:
                k = op[0]
                if k == "H":
                    toks.append("H:" + fw.hexs(head_bytes(op[1])))
                elif k in ("W", "E"):
                    toks.append(k + ":" + fw.hexs(op[1]))
                elif k == "L":
                    toks.append("L:" + ("none" if op[1] is None else str(op[1])))
                else:
                    toks.append(k)
            lines.append("WRUN " + " ".join(toks))
        model = fw.run_model(exe, lines)
        for ops, m in zip(seqs, model):
            out, st = impl_writer(loop, ops)
            ran += 1
            mo, flags, mlen = m.split()
            ctx.case((tuple((o[0], bytes(o[1]) if len(o) > 1 and isinstance(o[1], bytes) else (o[1] if len(o) > 1 else None)) for o in ops)), nontrivial=bool(out))
            for o in ops:
                ctx.count("wop:" + o[0])
            ist = "%d%d%d %s" % (st[0], st[1], st[2], "none" if st[3] is None else st[3])
            case = {"suite": "writer", "ops": [[o[0]] + ([o[1].hex()] if len(o) > 1 and isinstance(o[1], bytes) else ([o[1]] if len(o) > 1 else [])) for o in ops]}
            if fw.unhex(mo) != out or (flags + " " + mlen) != ist:
                ctx.disagreement("stream_writer", case, m[:300], out.hex()[:300] + " " + ist)
            # property oracle on the implementation: framing is truthful for the simple, well-formed uses
            #   [C?] [L n?] H (W|S)* (E|X)  with chunking / length fixed before the head
            kinds = [o[0] for o in ops]
            try:
                hi = kinds.index("H")
            except ValueError:
                continue
            pre, post = kinds[:hi], kinds[hi + 1:]
            if any(k not in ("C", "L") for k in pre) or any(k in ("H", "C", "L") for k in post) or not post or post[-1] not in ("E", "X") or any(k in ("E", "X") for k in post[:-1]):
                continue
            head = head_bytes(ops[hi][1])
            if not out.startswith(head):
                ctx.violation(case, "output does not start with the buffered head")
                continue
            body = out[len(head):]
            written = b"".join(o[1] for o in ops[hi + 1:] if o[0] in ("W", "E"))
            chunked = "C" in pre
            length = None
            for o in ops[:hi]:
                if o[0] == "L":
                    length = o[1]
            ctx.count("wellformed:" + ("chunked" if chunked else "plain") + (":len" if length is not None else ""))
            if length is not None:
                # only write() honours the declared length; what write_eof(chunk) adds is the caller's business
                w_only = b"".join(o[1] for o in ops[hi + 1:] if o[0] == "W")
                e_part = b"".join(o[1] for o in ops[hi + 1:] if o[0] == "E")
                written = w_only[:length] + e_part
            if chunked:
                r = dechunk_ref(body)
                if r is None or r[0] != written or r[1] != b"":
                    ctx.violation(case, f"chunked output does not decode to the written data: body={body[:80]!r} written={written[:40]!r}")
            elif body != written:
                ctx.violation(case, f"plain body differs from the written data (declared length {length})")
        ctx.sample({"suite": "writer", "ops": case["ops"][:6], "model": model[-1][:120]})
    finally:
        asyncio.set_event_loop(None)
        loop.close()
    ctx.close_suite("stream_writer", ran)


def run(ctx):
    ok, exe = build_model()
    ctx.oblige("model-runner-build", "correspondence", ok, "" if ok else exe)
    if not ok:
        return
    suite_serialize(ctx, exe)
    suite_response_glue(ctx, exe)
    suite_writer(ctx, exe)


def replay(ctx, case):
    ok, exe = build_model()
    if case.get("suite") == "serialize_headers":
        sl, hs = case["status_line"], [tuple(x) for x in case["headers"]]
        out = impl_serialize(sl, hs)
        parts = ["SER", csv(sl)] + [csv(x) for kv in hs for x in kv]
        m = fw.run_model(exe, [" ".join(parts)])[0]
        bad = oracle_lines(sl, hs, out)
        return {"impl": None if out is None else out.hex(), "model": m, "violates": bool(bad), "why": bad}
    return {"violates": None, "note": "replay of this suite re-runs the generator; use the seed"}
