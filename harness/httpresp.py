"""Response-parser (HttpResponseParser, lax mode) side of the HTTP-parser family: model runner
(bin/modelrun_HTTPRESP, extracted from coq/Model/HttpResp.v), implementation runner, canonical
observable, primitive checks against CPython, generators and the strict-reading oracle.
Used by harness/c03.py and harness/c10.py (suite "response-parser-model")."""
from __future__ import annotations

from unittest import mock

from harness import httpfam as H
from harness.common import framework as fw

ERR_CLASSES = H.ERR_CLASSES


def build_model():
    return fw.ocaml_model("HTTPRESP", ["Model/HttpResp.vo"])


# ----------------------------------------------------------------------------
# implementation side

def _msg_obs(m):
    return {"code": m.code, "reason": [ord(c) for c in m.reason], "version": f"{m.version.major}.{m.version.minor}",
            "headers": [(bytes(k).hex(), bytes(v).hex()) for k, v in m.raw_headers],
            "close": bool(m.should_close), "chunked": bool(m.chunked), "upgrade": bool(m.upgrade),
            "compression": m.compression}


def _pk(p):
    from aiohttp.http_parser import ChunkState, ParseState
    pp = p._payload_parser
    if pp is None:
        return "none"
    if pp._type == ParseState.PARSE_LENGTH:
        return "length"
    if pp._type == ParseState.PARSE_UNTIL_EOF:
        return "eof"
    if pp._type == ParseState.PARSE_CHUNKED:
        return {ChunkState.PARSE_CHUNKED_SIZE: "c-size", ChunkState.PARSE_CHUNKED_CHUNK: "c-data",
                ChunkState.PARSE_CHUNKED_CHUNK_EOF: "c-dataend", ChunkState.PARSE_TRAILERS: "c-trailers"}[pp._chunk]
    return "other"


def impl_run(segs, lim, with_body=True, until_eof=True, eof=True):
    """Feed the segments to a fresh HttpResponseParser built as the client builds it (no method=, no code=).
    Canonical observable: outcome, per message (code, reason code points, version, raw headers, close / chunked /
    upgrade / compression, body bytes, chunk ends, eof, exception class), retained-state sizes measured before
    end-of-stream processing, and what feed_eof() returned or raised."""
    from aiohttp.http_parser import HttpResponseParser
    from aiohttp.streams import EMPTY_PAYLOAD
    ml, mf, mh, mq = lim
    proto = mock.Mock()
    proto._reading_paused = False
    p = HttpResponseParser(proto, H.loop(), 2 ** 22, max_line_size=ml, max_field_size=mf, max_headers=mh,
                           auto_decompress=False, read_until_eof=until_eof, response_with_body=with_body,
                           max_msg_queue_size=mq)
    got = []
    outcome = "OK:-"
    left = b""
    for i, seg in enumerate(segs):
        try:
            msgs, upgraded, tail = p.feed_data(bytes(seg))
        except Exception as e:  # noqa
            nm = type(e).__name__
            outcome = (f"ERR:{nm}@{i}" if nm in ERR_CLASSES else f"ESCAPE:{nm}@{i}")
            break
        got.extend(msgs)
        left += tail
        outcome = "OK:" + fw.hexs(left)
    pp = p._payload_parser
    state = {"up": bool(p._upgraded), "tail": len(p._tail), "lines": len(p._lines),
             "linebytes": sum(len(x) for x in p._lines),
             "ctail": len(pp._chunk_tail) if pp is not None else 0,
             "tlines": len(pp._trailer_lines) if pp is not None else 0,
             "tlbytes": sum(len(x) for x in pp._trailer_lines) if pp is not None else 0}
    pk = _pk(p)
    eofres = "-"
    if outcome.startswith("OK") and eof:
        try:
            r = p.feed_eof()
            eofres = "EOFOK:~" if r is None else {"partial": _msg_obs(r)}
        except Exception as e:  # noqa
            nm = type(e).__name__
            eofres = (f"EOFERR:{nm}" if nm in ERR_CLASSES else f"ESCAPE:{nm}@eof")
    out = []
    for m, payload in got:
        body = payload is not EMPTY_PAYLOAD
        data = b"".join(bytes(x) for x in getattr(payload, "_buffer", ())) if body else b""
        exc = payload.exception() if body else None
        o = _msg_obs(m)
        o.update({"body": body, "data": data.hex(),
                  "splits": list(getattr(payload, "_http_chunk_splits", None) or []) if body else [],
                  "eof": bool(payload.is_eof()) if body else True,
                  "exc": type(exc).__name__ if exc is not None else None})
        out.append(o)
    return {"outcome": outcome, "msgs": out, "state": state, "pk": pk, "eof": eofres}


# ----------------------------------------------------------------------------
# model side

def _parse_msg(fields):
    ver, code, reason, flags, comp, hdrs = fields
    return {"code": int(code), "reason": [] if reason == "-" else [int(x) for x in reason.split(",")], "version": ver,
            "headers": [] if hdrs == "~" else [tuple(fw.unhex(x).hex() for x in kv.split("=")) for kv in hdrs.split(",")],
            "close": flags[0] == "1", "chunked": flags[1] == "1", "upgrade": flags[2] == "1",
            "compression": None if comp == "~" else fw.unhex(comp).decode("latin1")}


def _parse_model(line: str):
    if line.count("#") < 4:
        return {"outcome": line.strip(), "msgs": [], "state": {}, "pk": None, "eof": "-"}
    outcome, state, counts, recs, eofs = line.split("#", 4)
    counts = [int(x) for x in counts.split(",")] if counts else []
    msgs = []
    for e in (recs.split("|") if recs else []):
        f = e.split(":")
        o = _parse_msg(f[1:7])
        o.update({"body": f[7] == "1", "data": fw.unhex(f[8]).hex(),
                  "splits": [] if f[9] == "-" else [int(x) for x in f[9].split(",")],
                  "eof": f[10] == "1", "exc": None if f[11] == "~" else f[11]})
        msgs.append(o)
    # a raising call returns no messages to its caller (their payload streams were still fed)
    if outcome.startswith("ERR:") and counts:
        msgs = msgs[: counts[int(outcome.rsplit("@", 1)[1])]]
    st = dict(kv.split("=") for kv in state.split()) if state else {}
    pk = st.get("pk")
    if eofs.startswith("EOFOK:") and eofs != "EOFOK:~":
        eofs = {"partial": _parse_msg(eofs[len("EOFOK:"):].split(":"))}
    return {"outcome": outcome, "msgs": msgs,
            "state": {k: int(st[k]) if k != "up" else st[k] == "1"
                      for k in ("up", "tail", "lines", "linebytes", "ctail", "tlines", "tlbytes") if k in st},
            "pk": pk, "eof": eofs, "raw_pk": st.get("pk")}


def model_run_many(exe, cases):
    """cases: list of (segs, lim, with_body, until_eof, eof)."""
    lines = []
    for segs, lim, wb, ue, eof in cases:
        lines.append("RUN %d %d %d %d %d %d %d %s" % (*lim, int(wb), int(ue), int(eof), " ".join(fw.hexs(s) for s in segs)))
    return [_parse_model(o) for o in fw.run_model(exe, lines)] if lines else []


def same(model, impl) -> bool:
    if model["outcome"] != impl["outcome"] or model["msgs"] != impl["msgs"]:
        return False
    if model["outcome"].startswith("OK"):
        return model["state"] == impl["state"] and model["pk"] == impl["pk"] and model["eof"] == impl["eof"]
    return True


def strip_model(m):
    return {k: m.get(k) for k in ("outcome", "msgs", "state", "pk", "eof")}


# ----------------------------------------------------------------------------
# the text primitives of coq/Lib/Utf8Decode.v against CPython

def check_primitives(exe, rng, quick=True):
    """Returns a list of discrepancy descriptions (empty = agreement).
    py_isspace: every code point.  lowerU: every code point (must agree with str.lower() wherever an ASCII letter of
    "chunked" is involved).  decode_se: every code point's encoding, every 1- and 2-byte sequence, sampled 3/4-byte
    sequences (all lead-byte classes x boundary continuation bytes)."""
    bad = []
    out = fw.run_model(exe, ["SPACE 0 1114112", "LOWER 0 1114112"])
    model_ws = set() if out[0] == "-" else {int(x) for x in out[0].split(",")}
    py_ws = {c for c in range(0x110000) if chr(c).isspace()}
    if model_ws != py_ws:
        bad.append(f"py_isspace differs from str.isspace() on {sorted(model_ws ^ py_ws)[:8]}")
    for c in sorted(py_ws):
        if len(("a" + chr(c) + "b").split()) != 2 or (chr(c) + "b" + chr(c)).strip() != "b":
            bad.append(f"str.split()/strip() do not treat U+{c:04X} as whitespace")
    model_low = {} if out[1] == "-" else {int(a): int(b) for a, b in (kv.split(":") for kv in out[1].split(","))}
    word = set("chunked")
    for c in range(0x110000):
        lo = chr(c).lower()
        ml = chr(model_low.get(c, c))
        if lo != ml and (set(lo) & word or ml in word):
            bad.append(f"lowerU(U+{c:04X}) = {ml!r} but str.lower() gives {lo!r}")
    # decoder
    seqs = []
    for c in range(0, 0x110000, 1 if not quick else 7):
        if 0xD800 <= c <= 0xDFFF:
            continue
        seqs.append(chr(c).encode("utf-8"))
    seqs += [bytes([a]) for a in range(256)]
    seqs += [bytes([a, b]) for a in range(0x80, 256) for b in (0x00, 0x41, 0x7F, 0x80, 0x8F, 0x90, 0x9F, 0xA0, 0xBF, 0xC0, 0xC2, 0xE0, 0xFF)]
    edge = [0x7F, 0x80, 0x8F, 0x90, 0x9F, 0xA0, 0xBF, 0xC0]
    for a in (0xE0, 0xE1, 0xEC, 0xED, 0xEE, 0xEF, 0xF0, 0xF1, 0xF3, 0xF4, 0xF5, 0xC0, 0xC1, 0xC2, 0xDF):
        for b in edge:
            for c in edge:
                seqs.append(bytes([a, b, c]))
                seqs.append(bytes([a, b, c, rng.choice(edge)]))
                seqs.append(bytes([0x41, a, b, c, 0x42]))
    for _ in range(400 if quick else 4000):
        seqs.append(bytes(rng.choice([0x20, 0x41, 0x80, 0xBF, 0xC2, 0xE0, 0xE2, 0x84, 0xAA, 0xED, 0xA0, 0xF0, 0x90, 0xF4, 0x8F, 0xFF, rng.randrange(256)])
                          for _ in range(rng.randint(1, 7))))
    res = fw.run_model(exe, ["DECODE " + fw.hexs(s) for s in seqs])
    for s, r in zip(seqs, res):
        want = [ord(ch) for ch in s.decode("utf-8", "surrogateescape")]
        got = [] if r == "-" else [int(x) for x in r.split(",")]
        if want != got:
            bad.append(f"decode_se({s.hex()}) = {got} but CPython gives {want}")
            if len(bad) > 10:
                break
    return bad, len(seqs) + 2 * 0x110000


# ----------------------------------------------------------------------------
# generators

WS_CHARS = ["\t", "\x0b", "\x0c", "\x1c", "\x1d", "\x1e", "\x1f", " ", "\x85", "\xa0", "\u1680", "\u2000", "\u2009",
            "\u200a", "\u2028", "\u2029", "\u202f", "\u205f", "\u3000"]
ODD = [b"\xc2", b"\xe2\x80", b"\xff", b"\xed\xa0\x80", b"\xc2\x85", b"\xe2\x80\xa8", b"\xe3\x80\x80", b"\x85", b"\xa0",
       b"\xe1\x9a\x80", b"\xf0\x9f\x98\x80", b"\xf4\x90\x80\x80", b"\xc0\xa0", b"\xe2\x84\xaa", b"\x00", b"\x7f"]


def gen_status_line(rng):
    """A status line with odd whitespace / non-ASCII / undecodable bytes in every position."""
    version = rng.choice([b"HTTP/1.1"] * 14 + [b"HTTP/1.0", b"HTTP/1.0", b"HTTP/2.0", b"HTTP/1.1x", b"HTTP/\xd9\xa1.1", b"http/1.1", b"HTTP/1.", b"HTTP/11.1"])
    code = rng.choice([b"200"] * 10 + [b"204", b"304", b"101", b"100", b"404", b"500", b"999", b"000", b"20", b"2000", b"2x0", b"\xd9\xa2\xd9\xa0\xd9\xa0", b"+20", b"20\xc2\xa0"])
    reason = rng.choice([b"OK", b"", b"Not Found", b"a  b", b"OK " + rng.choice(ODD), rng.choice(ODD) + b"x", b"\xc3\xa9t\xc3\xa9", b"x" * rng.randint(0, 60)])

    def sep(allow_empty=False):
        r = rng.random()
        if r < 0.55:
            return b" "
        if r < 0.6 and allow_empty:
            return b""
        return "".join(rng.choice(WS_CHARS) for _ in range(rng.randint(1, 3))).encode("utf-8")
    line = (sep(True) if rng.random() < 0.15 else b"") + version + sep() + code
    r = rng.random()
    if reason or r < 0.5:
        line += sep(rng.random() < 0.1) + reason
    if rng.random() < 0.2:
        line += sep()
    if rng.random() < 0.06:
        i = rng.randint(0, len(line))
        line = line[:i] + rng.choice(ODD) + line[i:]
    return line


def gen_fields(rng, framing=None):
    """Field lines (without terminators) including obs-fold continuations, odd names/values."""
    out = []
    for _ in range(rng.randint(0, 4)):
        name = rng.choice([b"Server", b"X-A", b"Content-Type", b"Set-Cookie", b"ETag", b"x-b", b"Content-Encoding", b"Connection", b"Upgrade"])
        val = rng.choice([b"v", b"text/html", b"close", b"keep-alive", b"Upgrade", b"upgrade, close", b"websocket", b"gzip", b"GZIP", b"br",
                          b"a=b; Path=/", b"z" * rng.randint(0, 70), b"", b" padded \t", b"\xc3\xa9", b"\xff\xfe", b"a\x01b", b"a\x7fb",
                          b"tcp", b"\xe2\x84\xaaeep-alive"])
        out.append(name + rng.choice([b": ", b":", b":\t ", b": "]) + val)
        while rng.random() < 0.22:
            out.append(rng.choice([b" ", b"\t", b"  \t"]) + rng.choice([b"folded", b"", b"more words", b"x" * rng.randint(0, 40), b"\xc3\xa9", b":colon", b"a\x00b"]))
    if framing:
        out.insert(rng.randint(0, len(out)), framing)
        if rng.random() < 0.1:
            out.insert(rng.randint(0, len(out)), rng.choice([b" cont", framing, b"Content-Length: 3", b"Transfer-Encoding: chunked"]))
    r = rng.random()
    if r < 0.06:
        out.insert(rng.randint(0, len(out)), rng.choice([b" leading: ws", b"No Colon", b": empty", b"X Y: v", b"X\t: v", b"X : v", b"X\xc3\xa9: v",
                                                         b"Sec-WebSocket-Key1: k", b"X: a\rb", b"X: a\x00b", b"X:\r", b"\rX: v"]))
    return out


def lax_chunked(rng, pieces, trailers=()):
    out = b""
    eol = lambda: rng.choice([b"\r\n"] * 6 + [b"\n", b"\r\r\n"])  # noqa: E731
    for pc in pieces:
        sz = ("%x" % len(pc)).encode()
        if rng.random() < 0.3:
            sz = rng.choice([b" ", b"\t", b"0", b"\x0b", b"00"]) + sz + rng.choice([b"", b" ", b"\t \r"])
        if rng.random() < 0.3:
            sz += rng.choice([b";a=b", b" ;x", b";", b"; q=\"z\"", b";" + b"e" * rng.randint(0, 50), b";\r", b" ; \xc3\xa9"])
        out += sz + eol() + pc + eol()
    out += rng.choice([b"0", b"0", b"00", b" 0 ", b"0;last"]) + eol()
    for t in trailers:
        out += t + eol()
    out += eol()
    return out


def gen_lax_response(rng):
    """One response in the lax dialect: LF / CRLF / CR CR LF line ends, odd status lines, folded fields."""
    eol = lambda: rng.choice([b"\r\n"] * 8 + [b"\n", b"\r\r\n"])  # noqa: E731
    kind = rng.choice(["none", "len", "len", "chunked", "chunked", "eof", "len0"])
    framing, body = None, b""
    if kind == "len":
        body = H.rand_bytes(rng, rng.randint(1, 30))
        framing = rng.choice([b"Content-Length: ", b"content-length:"]) + rng.choice([str(len(body)).encode()] * 8 + [b"+3", b"3 3", b"\xd9\xa3", b"0x3", b"", b"03"])
    elif kind == "len0":
        framing = b"Content-Length: 0"
    elif kind == "chunked":
        pieces = [H.rand_bytes(rng, rng.randint(1, 16)) for _ in range(rng.randint(0, 3))]
        trailers = gen_fields(rng)[:2] if rng.random() < 0.3 else ()
        body = lax_chunked(rng, pieces, trailers)
        framing = b"Transfer-Encoding: " + rng.choice([b"chunked"] * 5 + [b"gzip, chunked", b"Chunked", b"chunked ", b"chun\xe2\x84\xaaed", b"chunked, gzip",
                                                                         b"x,chunked", b"chun\xc4\xb0ked", b"chunked\x00", b",", b""])
    elif kind == "eof":
        body = H.rand_bytes(rng, rng.randint(0, 30))
    line = gen_status_line(rng) if rng.random() < 0.6 else (b"HTTP/1.1 " + rng.choice([b"200", b"204", b"304", b"101", b"404"]) + b" OK")
    head = line + eol()
    for f in gen_fields(rng, framing):
        head += f + eol()
    return head + eol() + body


def gen_lax_stream(rng):
    n = rng.choice([1, 1, 1, 2, 3])
    s = b"".join(gen_lax_response(rng) for _ in range(n))
    r = rng.random()
    if r < 0.12:
        s = H.mutate_bytes(rng, s)
    elif r < 0.2:
        s = s[: rng.randint(0, len(s))]
    elif r < 0.25:
        s = rng.choice([b"\n", b"\r\n", b"\n\n", b"\r"]) + s
    return s


DIRECTED = [
    # the optional CR after chunk data, CRs after the last-chunk line (not skipped since eb945bb), in every combination
    *[b"HTTP/1.1 200 OK\r\nTransfer-Encoding: chunked\r\n\r\n" + b for b in (
        b"3\r\nabc\r\r\n0\r\n\r\n", b"3\r\nabc\r\n0\r\r\n\r\n", b"3\r\r\nabc\r\n0\r\n\r\n", b"3\r\nabc\r\n0\r\n\r\r\n",
        b"3\nabc\n0\n\n", b"3\r\nabc\r\n0\r\nX: y\r\r\n\r\n", b"3\r\nabc\r\n0\r\n\rX: y\r\n\r\n", b"3\r\nabc\r\n0\r\n\r\rX: y\r\n\r\n",
        b"3\r\nabc\n0\n\r\n", b"3\r\nabc\r0\r\n\r\n", b"3\r\nabc0\r\n\r\n", b"0\r\n\r", b"0\r\nX: a\r\n b\r\n\tc\r\n\r\n",
        b" 3 ;x\r\nabc\r\n 0 \r\n\r\n", b"3\x0b\r\nabc\r\n0\r\n\r\n", b"\r\n3\r\nabc\r\n0\r\n\r\n", b"3;\r\nabc\r\n0\r\n\r\n", b"g\r\n")],
    b"HTTP/1.1 200 OK\r\r\nContent-Length: 2\r\r\n\r\r\nhi",
    b"\r\nHTTP/1.1 200 OK\r\n\r\n", b"\nHTTP/1.1 200 OK\n\n", b"\n\n\nHTTP/1.1 204 OK\nX: y\n\nHTTP/1.1 304 N\n\n",
    b"HTTP/1.1 200 OK\r\nX-F: a\r\n b\r\n\tc\r\nContent-Length: 0\r\n\r\n",
    b"HTTP/1.1 200 OK\r\n X: leading\r\n\r\n", b"HTTP/1.1 200 OK\r\nX: a\r\n \r\n\r\n",
    b"HTTP/1.1\xc2\xa0200\xe2\x80\xa8OK\r\nContent-Length: 0\r\n\r\n", b"HTTP/1.1 200\r\n\r\n", b"HTTP/1.1 200 \r\n\r\n", b"HTTP/1.1  200   a  b  \r\n\r\n",
    b"HTTP/1.1 200 OK\r\nTransfer-Encoding: chun\xe2\x84\xaaed\r\n\r\n1\r\nx\r\n0\r\n\r\n",
    b"HTTP/1.1 200 OK\r\nTransfer-Encoding: chunked\r\nContent-Length: 3\r\n\r\nabc",
    b"HTTP/1.1 101 Switching\r\nUpgrade: websocket\r\nConnection: upgrade\r\n\r\nframes",
    b"HTTP/1.1 200 OK\r\nUpgrade: websocket\r\nConnection: upgrade\r\nContent-Length: 2\r\n\r\nhiframes",
    b"HTTP/1.1 200 OK\r\nUpgrade: websocket\r\nConnection: upgrade\r\n\r\nbody-until-eof",
    b"HTTP/1.1 200 OK\r\nConnection: close\r\nContent-Length: 1\r\n\r\nxHTTP/1.1 200 OK\r\n\r\n",
    b"HTTP/1.0 200 OK\r\nConnection: keep-alive\r\nContent-Length: 1\r\n\r\nxHTTP/1.1 204 OK\r\n\r\n",
    b"HTTP/1.1 200 OK\r\nContent-Length: 5\r\n\r\nab", b"HTTP/1.1 200 OK\r\nX: partial", b"HTTP/1.1 200", b"HTTP/1.1 200 OK\r\nX: a\r\n fold",
]


def flags(rng):
    """(with_body, until_eof, eof)"""
    return (rng.random() < 0.8, rng.random() < 0.7, rng.random() < 0.7)


# ----------------------------------------------------------------------------
# strict-reading oracle: responses that are well formed by construction, with the reading RFC 9112 gives them;
# the implementation must deliver exactly that reading whatever the segmentation (independent of the Coq model)

def gen_wellformed(rng):
    """Returns (stream, expected): a pipeline of well-formed responses ending with one that may close; expected is the
    list of messages a conforming reader obtains."""
    msgs, s = [], b""
    n = rng.choice([1, 1, 2, 3])
    for i in range(n):
        last = i == n - 1
        version = b"HTTP/1.1" if not last else rng.choice([b"HTTP/1.1", b"HTTP/1.1", b"HTTP/1.0"])
        code = rng.choice([200, 200, 201, 204, 304, 404, 500, 301])
        reason = rng.choice([b"OK", b"Not Found", b"", b"Two  Words"])
        hs = []
        for _ in range(rng.randint(0, 3)):
            hs.append((rng.choice([b"Server", b"X-A", b"Content-Type", b"Set-Cookie", b"Set-Cookie"]),
                       rng.choice([b"v", b"text/html; charset=utf-8", b"a=b; Path=/", b"\xc3\xa9", b"x" * rng.randint(1, 40)])))
        kind = "none" if code in (204, 304) else rng.choice(["len", "chunked", "len0"] + (["eof"] if last else []))
        body, splits = b"", []
        wire_body = b""
        if kind == "len":
            body = H.rand_bytes(rng, rng.randint(1, 40))
            wire_body = body
            hs.append((b"Content-Length", str(len(body)).encode()))
        elif kind == "len0":
            hs.append((b"Content-Length", b"0"))
        elif kind == "chunked":
            pieces = [H.rand_bytes(rng, rng.randint(1, 20)) for _ in range(rng.randint(0, 4))]
            wire_body = H.chunked_body(rng, pieces, [(b"X-T", b"1")] if rng.random() < 0.3 else None, ext=rng.random() < 0.3)
            body = b"".join(pieces)
            pos = 0
            for pc in pieces:
                pos += len(pc)
                splits.append(pos)
            hs.append((b"Transfer-Encoding", b"chunked"))
        elif kind == "eof":
            body = H.rand_bytes(rng, rng.randint(0, 40))
            wire_body = body
        conn = None
        if rng.random() < 0.25:
            conn = rng.choice([b"close", b"keep-alive"]) if last else b"keep-alive"
            hs.append((b"Connection", conn))
        rng.shuffle(hs)
        # RFC 9112 9.3 / 6.3: persistence
        if conn == b"close":
            close = True
        elif conn == b"keep-alive":
            close = False
        elif version == b"HTTP/1.0":
            close = True
        elif kind == "eof":
            close = True
        else:
            close = False          # 1.1 and self-delimiting (length, chunked, or a status without body)
        if version == b"HTTP/1.0" and not last:
            close = False
        fold = rng.random() < 0.15
        head = version + b" " + str(code).encode() + (b" " + reason if reason or rng.random() < 0.5 else b"") + b"\r\n"
        exp_h = []
        for k, v in hs:
            if fold and k == b"X-A":
                head += k + b": " + v + b"\r\n  folded\r\n"
                exp_h.append((k.hex(), (v + b"  folded").hex()))
            else:
                head += k + rng.choice([b": ", b":", b":  "]) + v + rng.choice([b"", b"", b" "]) + b"\r\n"
                exp_h.append((k.hex(), v.hex()))
        s += head + b"\r\n" + wire_body
        msgs.append({"code": code, "reason": [c for c in reason.decode().strip().encode()], "version": version[5:].decode(),
                     "headers": exp_h, "close": close, "chunked": kind == "chunked", "data": body.hex(), "splits": splits,
                     "has_body": kind in ("len", "chunked", "eof"), "complete": True, "kind": kind})
    return s, msgs


def strict_reading_violation(expected, obs):
    """None, or why the observable of a run over the WHOLE stream (then end of stream) departs from the reading."""
    if not obs["outcome"].startswith("OK"):
        return f"a well-formed response pipeline is rejected: {obs['outcome']}"
    if obs["eof"] != "EOFOK:~":
        return f"end of stream after a well-formed pipeline: {obs['eof']}"
    if len(obs["msgs"]) != len(expected):
        return f"{len(obs['msgs'])} messages delivered, {len(expected)} sent"
    for i, (e, m) in enumerate(zip(expected, obs["msgs"])):
        for k in ("code", "reason", "version", "headers", "close", "chunked", "data", "splits"):
            if e[k] != m[k]:
                return f"message {i}: {k} is {m[k]!r}, a conforming reader gets {e[k]!r}"
        if not m["eof"] or m["exc"]:
            return f"message {i}: body not terminated cleanly (eof={m['eof']} exc={m['exc']})"
    return None


MUST_REJECT = [
    (b"HTTP/1.1 200 OK\r\nX: a\x00b\r\nContent-Length: 0\r\n\r\n", "NUL in a field value"),
    (b"HTTP/1.1 200 OK\r\nX: a\rb\r\nContent-Length: 0\r\n\r\n", "bare CR in a field value"),
    (b"HTTP/1.1 200 OK\r\nX: a\r\n \x00\r\nContent-Length: 0\r\n\r\n", "NUL in a folded field value"),
    (b"HTTP/1.1 200 OK\r\nTransfer-Encoding: chunked\r\n\r\n0\r\nX: a\x00b\r\n\r\n", "NUL in a trailer value"),
    (b"HTTP/1.1 200 OK\r\nContent-Length: 3\r\nTransfer-Encoding: chunked\r\n\r\n0\r\n\r\n", "Content-Length with Transfer-Encoding"),
    (b"HTTP/1.1 200 OK\r\nContent-Length: +3\r\n\r\nabc", "signed Content-Length"),
    (b"HTTP/1.1 200 OK\r\nContent-Length: 3, 3\r\n\r\nabc", "list-valued Content-Length"),
    (b"HTTP/1.1 2000 OK\r\n\r\n", "four-digit status"), (b"HTTP/1.1 20 OK\r\n\r\n", "two-digit status"),
    (b"HTTP/1.1 2\xd9\xa00 OK\r\n\r\n", "non-ASCII digit in the status"), (b"HTTP/1.1\r\n\r\n", "no status code"),
    (b"HTTX/1.1 200 OK\r\n\r\n", "bad protocol name"), (b"HTTP/1.1 200 OK\r\nBad Name: v\r\n\r\n", "space in a field name"),
    (b"HTTP/1.1 200 OK\r\nName : v\r\n\r\n", "space before the colon"), (b"HTTP/1.1 200 OK\r\n: v\r\n\r\n", "empty field name"),
    (b"HTTP/1.1 200 OK\r\nTransfer-Encoding: chunked\r\n\r\nzz\r\n", "non-hex chunk size"),
    (b"HTTP/1.1 200 OK\r\nTransfer-Encoding: chunked\r\n\r\n3\r\nabcd\r\n0\r\n\r\n", "chunk longer than announced"),
    (b"HTTP/1.1 200 OK\r\nSec-WebSocket-Key1: x\r\n\r\n", "hixie-76 key"),
]
