"""C05 — server connection: each request answered once, in order, or the connection is closed.

Two suites drive the REAL aiohttp.web_protocol.RequestHandler (AppRunner + in-memory transport + virtual-time loop):

  lts      stimulus histories (reads with chosen segmentation, handler release, clock, peer close) over structured
           pipelines with scripted handler behaviours.  After every stimulus the abstract state of the real
           protocol (queue length, parser in-flight count, pause flag, close flags, keep-alive flag, what start() is
           waiting for, responses on the wire) must equal the state of the extracted Coq model (Model/ServerConn.v)
           after the same events; the parse items of each read come from an independent, uncapped shadow parser.
  hostile  byte streams from the HTTP-family generators (valid, smuggling classes, random mutations), random cuts,
           random handler behaviours: property oracle only.
  special  mechanisms outside the Coq model, property oracle only: declined Upgrade requests with requests pipelined
           behind them (_message_tail re-fed by finish_response), several upgrades per connection; the two independent
           reasons for pausing the transport (pipeline queue full, body reader over its high-water mark) on a transport
           that delivers nothing while paused; a transport that cannot pause (one request per read behind a full queue).

The property oracle never looks at the model: an independent HTTP/1.x response framer over the transport bytes,
the handler log, the loop exception handler and the protocol's queue length.
"""
from __future__ import annotations

import asyncio
import json
import logging
import os
import re

from harness.common import framework as fw

PROP = "C05"
GENERATED = ["ServerGen.v"]
RULE = ("lts: histories = (pipeline of 1..45 requests with per-request scripted handler behaviour, optional bodies, optional "
        "malformed element) x random segmentation x interleaved release/clock/peer-close stimuli, all from the seeded PRNG, "
        "plus fixed sweeps of pipeline depth around the queue cap and resume mark; one evaluation = one history; "
        "non-trivial = at least one complete response was written; distinct by hash of the canonical snapshot sequence. "
        "hostile: one evaluation = one (stream, segmentation, behaviours) triple.")
TRUSTED = [
    "translator/gen_server.py (cap constant, resume formula, the four cap comparisons, guarded inc/dec, status codes; ast shape checks)",
    "extraction: ExtrOcamlBasic only; ocaml/common/conv.ml + ocaml/C05/driver.ml (token parsing, snapshot printing)",
    "correspondence harness harness/c05.py: sampled, not proved; the shadow parser used to abstract reads into parse items is "
    "aiohttp's own HttpRequestParser (uncapped instance), i.e. the request grammar is taken from C01/C03/C10, not re-modelled here",
    "modelled, not verified: asyncio task/future/timer semantics (FIFO stepping on the virtual-time loop), web.Application "
    "dispatch (MatchInfoError raising the stored HTTPBadRequest), StreamWriter/StreamResponse byte output",
]
ASSUMPTIONS = [
    "The transport honours pause_reading(): no data_received() while reading is paused (true of asyncio selector transports).",
    "No Upgrade/CONNECT, no Expect: 100-continue, no write-side back-pressure, bodies below the StreamReader high-water mark, "
    "no Server.shutdown() during the history (those paths are outside the model; the hostile and special suites' oracle "
    "still sees declined upgrades and body-reader pauses).",
    "Model/implementation agreement is validated on the generated histories only.",
]

KA, LINGER = 75, 10


# ----------------------------------------------------------------------------------------------
# independent response framer (the oracle's view of the wire)

_STATUS = re.compile(rb"^HTTP/\d\.\d (\d{3}) [^\r\n]*$")
_HDR = re.compile(rb"^([!#$%&'*+\-.^_`|~0-9A-Za-z]+):[ \t]*([^\r\n]*?)[ \t]*$")
_HEX = re.compile(rb"^[0-9A-Fa-f]+$")


def frame(buf: bytes, closed: bool, methods: list):
    """Split transport bytes into responses.  Returns (list of dict(status, xreq, done, body), error|None).
    `methods[i]` is the method of the request answered by the i-th response when known (HEAD has no body)."""
    out = []
    pos = 0
    n = len(buf)
    while pos < n:
        end = buf.find(b"\r\n\r\n", pos)
        if end < 0:
            # an unfinished head: acceptable only as the last thing on a closed connection
            out.append({"status": None, "xreq": None, "done": False, "body": None})
            return out, None
        lines = buf[pos:end].split(b"\r\n")
        m = _STATUS.match(lines[0])
        if not m:
            return out, f"bad status line at offset {pos}: {lines[0][:60]!r}"
        status = int(m.group(1))
        hdrs = {}
        for ln in lines[1:]:
            h = _HDR.match(ln)
            if not h or b"\r" in ln or b"\n" in ln:
                return out, f"bad header line at offset {pos}: {ln[:60]!r}"
            hdrs.setdefault(h.group(1).lower(), []).append(h.group(2))
        body_start = end + 4
        idx = len(out)
        method = methods[idx] if idx < len(methods) else None
        xreq = hdrs.get(b"x-req", [None])[0]
        ent = {"status": status, "xreq": None if xreq is None else xreq.decode("latin1"), "done": False, "body": None}
        if status == 101:
            # protocol switched: what follows is not HTTP
            ent["done"], ent["body"], ent["after"] = True, b"", buf[body_start:]
            out.append(ent)
            return out, None
        if 100 <= status < 200:
            pos = body_start
            continue
        out.append(ent)
        if status in (204, 304) or method == "HEAD":
            ent["done"], ent["body"] = True, b""
            pos = body_start
            continue
        te = b",".join(hdrs.get(b"transfer-encoding", [])).lower()
        cl = hdrs.get(b"content-length")
        if b"chunked" in te:
            if cl:
                return out, "both Transfer-Encoding: chunked and Content-Length"
            p = body_start
            body = b""
            while True:
                e = buf.find(b"\r\n", p)
                if e < 0:
                    return out, None               # unfinished
                size = buf[p:e].split(b";")[0]
                if not _HEX.match(size):
                    return out, f"bad chunk size at offset {p}: {buf[p:e][:40]!r}"
                sz = int(size, 16)
                p = e + 2
                if sz == 0:
                    # trailers
                    while True:
                        e = buf.find(b"\r\n", p)
                        if e < 0:
                            return out, None
                        if e == p:
                            p = e + 2
                            break
                        if not _HDR.match(buf[p:e]):
                            return out, f"bad trailer line at offset {p}"
                        p = e + 2
                    break
                if p + sz + 2 > n:
                    return out, None
                body += buf[p:p + sz]
                if buf[p + sz:p + sz + 2] != b"\r\n":
                    return out, f"chunk data not followed by CRLF at offset {p + sz}"
                p += sz + 2
            ent["done"], ent["body"] = True, body
            pos = p
        elif cl:
            if len(set(cl)) != 1 or not cl[0].isdigit():
                return out, f"bad Content-Length {cl!r}"
            ln = int(cl[0])
            if body_start + ln > n:
                return out, None
            ent["done"], ent["body"] = True, buf[body_start:body_start + ln]
            pos = body_start + ln
        else:
            # close-delimited
            if closed:
                ent["done"], ent["body"] = True, buf[body_start:]
            pos = n
    return out, None


# ----------------------------------------------------------------------------------------------
# requests and behaviours

BEHAVIOURS = ["ok", "ok", "ok", "fclose", "read", "http", "exc", "timeout", "none", "stream", "stream_exc", "cancel",
              "stream_http", "swallow",        # these two were defects until ff054f9 / ba690df
              "stream_timeout",
              "stream_other"]                  # a defect until 2a9b996
DEFECT_BEHAVIOURS: list = []


def enc_request(i, r):
    """r: {"ver": "1.1"|"1.0", "conn": None|"close"|"keep-alive", "body": None|["len", hex]|["chunked", [hex,...]], "method": ...}"""
    method = r.get("method", "GET")
    head = f"{method} /r/{i} HTTP/{r.get('ver', '1.1')}\r\nHost: x\r\n"
    if r.get("conn"):
        head += f"Connection: {r['conn']}\r\n"
    body = b""
    b = r.get("body")
    if b:
        if b[0] == "len":
            body = bytes.fromhex(b[1])
            head += f"Content-Length: {len(body)}\r\n"
        else:
            head += "Transfer-Encoding: chunked\r\n"
            for pc in b[1]:
                d = bytes.fromhex(pc)
                body += b"%x\r\n" % len(d) + d + b"\r\n"
            body += b"0\r\n\r\n"
    return head.encode() + b"\r\n", body


# "GET / HTTP/1.1\nHost..." and the over-long partial line are errors that stay in the parser's tail (sticky)
BAD_ELEMENTS = [b"BAD\r\n\r\n", b"GET / HTTP/1.1\r\nContent-Length: x\r\n\r\n", b"GET /\x00 HTTP/1.1\r\n\r\n", b"GET / HTTP/9.9.9\r\n\r\n",
                b"GET http://a:b/ HTTP/1.1\r\n\r\n", b"GET http://[::1 HTTP/1.1\r\n\r\n", b"GET / HTTP/1.1\r\nA B: c\r\n\r\n",
                b"GET / HTTP/1.1\r\nHost: x\r\nContent-Length: 1\r\nTransfer-Encoding: chunked\r\n\r\n", b"G" * 9000 + b"\r\n",
                b"POST / HTTP/1.1\r\nTransfer-Encoding: chunked\r\n\r\nzz\r\n", b"GET / HTTP/1.1\nHost: x\n\n"]


class Conn:
    """One real server connection under the stepping loop."""

    def __init__(self, behaviours: dict, ka=KA, linger=LINGER, shadow=True, read_bufsize=None, honour_pause=True):
        from harness.common.loop import VLoop
        from harness.common.transport import start_server
        from aiohttp import web
        from aiohttp.http_parser import HttpRequestParser
        from unittest import mock
        self.web = web
        self.loop = VLoop()
        asyncio.set_event_loop(self.loop)
        self.beh = behaviours
        self.events: list[str] = []          # model event tokens
        self.snaps: list[str] = []
        self.gates: list[asyncio.Future] = []
        self.active = None                   # ordinal (or "E") of the request whose handler is running
        self.active_started = False
        self.last_handled = None
        self.handled = 0                     # handler invocations that ended
        self.invoked = 0
        self.methods: list = []              # methods of handled requests, in order
        self.escapes: list[str] = []
        self.parse_errors = 0
        self.max_q = 0
        self.max_msgs = 0
        self.pending: list[bytes] = []
        self.ka, self.linger = ka, linger
        self.honour_pause = honour_pause
        self.invoke_limit = 400
        self.ws_received: list = []
        self.shutdown_task = None
        self.closed_at_invoked = None     # handler invocations at the moment close() (pre_shutdown) was called
        self.runaway = False
        self.shadow_heads = 0
        self.order_log: list = []
        from aiohttp import web_protocol
        self.maxq = web_protocol.MAX_MSG_QUEUE_SIZE
        conn = self

        @web.middleware
        async def mw(request, handler):
            conn.invoked += 1
            if conn.invoked > conn.invoke_limit and not conn.runaway:
                # far more handler invocations than requests were sent: stop the connection, the oracle reports it
                conn.runaway = True
                conn.tr.peer_close()
            err = request._pre_handler_error is not None
            if err:
                key = "E"
            else:
                tail = request.path.rsplit("/", 1)[-1]
                key = int(tail) if request.path.startswith("/r/") and tail.isdigit() else ("h%d" % conn.invoked)
            conn.active, conn.active_started = key, False
            conn.methods.append(request.method)
            conn.order_log.append(key)
            try:
                if err:
                    resp = await handler(request)
                    tok = "Fr1%d" % resp.status
                else:
                    resp, tok = await conn.behave(request, key)
            except web.HTTPException as e:
                conn.events.append("Fh%d" % e.status)
                raise
            except asyncio.CancelledError:
                conn.events.append("Fc")
                raise
            except asyncio.TimeoutError:
                conn.events.append("Ft")
                raise
            except Exception:
                conn.events.append("Fe")
                raise
            else:
                conn.events.append(tok)
                return resp
            finally:
                conn.handled += 1
                conn.last_handled = key
                conn.active = None

        async def fallback(request):  # never reached for non-error requests (the middleware answers)
            return web.Response(text="fallback")

        async def setup():
            app = web.Application(middlewares=[mw])
            app.router.add_route("*", "/{tail:.*}", fallback)
            kw = {} if read_bufsize is None else {"read_bufsize": read_bufsize}
            return await start_server(app, self.loop, keepalive_timeout=ka, lingering_time=linger, **kw)

        self.runner, connect = self.loop.run_until_complete(setup())
        self.proto, self.tr = connect()
        self.start_task = self.proto._task_handler
        self.parser = self.proto._parser
        # notice parse errors and escapes on the real parser
        real_feed = self.parser.feed_data
        from aiohttp.http_exceptions import HttpProcessingError

        def feed_spy(data, *a, **k):
            try:
                return real_feed(data, *a, **k)
            except HttpProcessingError:
                conn.parse_errors += 1
                raise
        self.parser.feed_data = feed_spy
        # R: BaseProtocol.resume_reading() (-> data_received(b"")); W: the lingering readany() of start() returned
        from aiohttp import web_protocol as _wp, streams as _st
        self._orig_rr = _wp.RequestHandler.resume_reading
        self._orig_ra = _st.StreamReader.readany
        orig_rr, orig_ra = self._orig_rr, self._orig_ra

        def rr(p_self, resume_parser=True):
            if p_self is conn.proto and resume_parser and not p_self._upgraded:
                conn.events.append("R")
            return orig_rr(p_self, resume_parser)

        async def ra(s_self):
            mine = conn.active is None and asyncio.current_task() is conn.start_task
            try:
                return await orig_ra(s_self)
            except asyncio.CancelledError:
                mine = False
                raise
            finally:
                if mine:
                    conn.events.append("W")
        _wp.RequestHandler.resume_reading = rr
        _st.StreamReader.readany = ra
        self.shadow = None
        if shadow:
            p = mock.Mock()
            p._reading_paused = False
            self.shadow = HttpRequestParser(p, self.loop, 2 ** 16, max_msg_queue_size=10 ** 9)
            self.shadow_open = None       # payload of the last head whose body is still open
            self.shadow_dead = False
            rec = self.shadow_rec = []
            real_pm = self.shadow.parse_message

            def pm(lines):
                m = real_pm(lines)
                rec.append(m)
                return m
            self.shadow.parse_message = pm

    # -- scripted handler -------------------------------------------------------------------------
    async def gate(self):
        f = self.loop.create_future()
        self.gates.append(f)
        await f

    async def behave(self, request, key):
        web = self.web
        b = self.beh.get(str(key), {"kind": "ok"})
        kind = b.get("kind", "ok")
        if request.method == "HEAD" and (kind.startswith("stream") or kind == "swallow"):
            kind = "ok"      # a handler must not stream a body to HEAD; that misuse is not what is examined here
        hdr = {"X-Req": str(key)}
        text = "r%s" % key
        if b.get("block"):
            await self.gate()
        if kind == "shielded":
            # outlives the connection and Server.shutdown(): swallows cancellation until the harness releases it
            f = self.loop.create_future()
            self.gates.append(f)
            while not f.done():
                try:
                    await asyncio.shield(f)
                except asyncio.CancelledError:
                    if f.cancelled():
                        raise
            return web.Response(text=text, headers=hdr), "Fr1200"
        if kind == "ws":
            from aiohttp import WSMsgType
            ws = web.WebSocketResponse()
            await ws.prepare(request)
            while True:
                msg = await ws.receive()
                self.ws_received.append([msg.type.name, msg.data if isinstance(msg.data, str) else None])
                if msg.type in (WSMsgType.CLOSE, WSMsgType.CLOSING, WSMsgType.CLOSED, WSMsgType.ERROR):
                    break
            return ws, "Fs"
        if kind == "ok":
            return web.Response(text=text, headers=hdr), "Fr1200"
        if kind == "fclose":
            r = web.Response(text=text, headers=hdr)
            r.force_close()
            return r, "Fr0200"
        if kind == "read":
            await request.read()
            return web.Response(text=text, headers=hdr), "Fr1200"
        if kind == "http":
            raise web.HTTPNotFound(text=text, headers=hdr)
        if kind == "exc":
            raise RuntimeError("scripted failure")
        if kind == "timeout":
            raise asyncio.TimeoutError()
        if kind == "none":
            return None, "Fr1500"
        if kind == "cancel":
            raise asyncio.CancelledError()
        if kind in ("stream", "stream_exc", "stream_http", "stream_other", "stream_timeout"):
            r = web.StreamResponse(headers=hdr)
            if request.version < (1, 1):
                r.content_length = len(text)
            await r.prepare(request)
            self.events.append("S")
            self.active_started = True
            if b.get("block2"):
                await self.gate()
            await r.write(text[:1].encode())
            if kind == "stream_exc":
                raise RuntimeError("scripted failure after streaming started")
            if kind == "stream_http":
                raise web.HTTPNotFound()
            if kind == "stream_timeout":
                raise asyncio.TimeoutError()
            if kind == "stream_other":
                return web.Response(text="other"), "Fr1200"     # a fresh response object, not the one that was started
            await r.write(text[1:].encode())
            await r.write_eof()
            return r, "Fs"
        if kind == "swallow":
            r = web.StreamResponse(headers=hdr)
            r.enable_chunked_encoding()
            try:
                await r.prepare(request)     # RuntimeError on HTTP/1.0: chunked is forbidden
            except RuntimeError:
                return r, "Fw"
            self.events.append("S")
            self.active_started = True
            await r.write(text.encode())
            await r.write_eof()
            return r, "Fs"
        raise AssertionError(kind)

    # -- shadow tokeniser -------------------------------------------------------------------------
    def tokenize(self, chunk: bytes) -> str:
        from aiohttp.http_exceptions import HttpProcessingError
        from aiohttp.streams import EMPTY_PAYLOAD
        sh = self.shadow
        if self.shadow_dead:
            return "D-"
        items = []
        self.shadow_rec.clear()
        before = sh._msg_in_flight
        err = False
        msgs = None
        try:
            msgs, _up, _tail = sh.feed_data(chunk)
        except HttpProcessingError:
            err = True
        if self.shadow_open is not None and self.shadow_open.is_eof():
            items.append("e")
            self.shadow_open = None
        emitted = sh._msg_in_flight - before
        self.shadow_heads += emitted
        if not err:
            assert emitted == len(msgs)
            for m, payload in msgs:
                body = payload is not EMPTY_PAYLOAD
                items.append("h%d%d" % (1 if m.should_close else 0, 1 if body else 0))
                if body:
                    if payload.is_eof():
                        items.append("e")
                    else:
                        self.shadow_open = payload
        else:
            heads = self.shadow_rec[:emitted]
            for j, m in enumerate(heads):
                cl = m.headers.get("Content-Length")
                body = bool(m.chunked or (cl is not None and cl.isdigit() and int(cl) > 0))
                items.append("h%d%d" % (1 if m.should_close else 0, 1 if body else 0))
                last = j == len(heads) - 1
                if body and not (last and sh._payload_parser is not None):
                    items.append("e")
            items.append("X" if sh._tail else "x")
            self.shadow_dead = True
        return "D" + (",".join(items) if items else "-")

    # -- stimuli --------------------------------------------------------------------------------
    def idle(self):
        self.loop.run_until_idle()
        nq = len(self.proto._messages)
        self.max_q = max(self.max_q, nq)
        self.max_msgs = max(self.max_msgs, self.count_msgs())

    def count_msgs(self):
        from aiohttp.web_protocol import _ErrInfo
        return sum(1 for m, _ in self.proto._messages if not isinstance(m, _ErrInfo))

    def deliver(self, chunk: bytes):
        if self.shadow is not None:
            self.events.append(self.tokenize(chunk))
        try:
            self.proto.data_received(chunk)
        except BaseException as e:  # noqa
            self.escapes.append(f"data_received raised {type(e).__name__}: {e}")
        nq = len(self.proto._messages)
        self.max_q = max(self.max_q, nq)
        self.max_msgs = max(self.max_msgs, self.count_msgs())
        self.idle()
        self.snap()

    def pump(self):
        while self.pending and (self.tr.reading or not self.honour_pause) and not self.tr.closed:
            if self.shadow is not None and self.shadow_dead:
                self.pending.clear()
                break
            self.deliver(self.pending.pop(0))
        if self.tr.closed:
            self.pending.clear()

    def stimulus(self, st):
        k = st[0]
        if k == "data":
            if self.shadow is not None and self.shadow_dead:
                return          # lts suite: the peer sends nothing after the point where the stream became unparsable
            self.pending.append(bytes.fromhex(st[1]))
            self.pump()
            return
        if k == "rel":
            if not self.gates:
                return
            g = self.gates.pop(0)
            if not g.done():
                g.set_result(None)
        elif k == "tick":
            self.events.append("T%d" % st[1])
            self.loop.advance(float(st[1]))
        elif k == "drain":
            self.drain()
            return
        elif k == "eof":
            # the peer half-closes: eof_received(); a false return value makes asyncio close the transport
            if self.tr.closed:
                return
            self.events.append("P")
            try:
                keep = self.proto.eof_received()
            except BaseException as e:  # noqa
                self.escapes.append(f"eof_received raised {type(e).__name__}: {e}")
                keep = False
            if not keep:
                self.tr.close()
        elif k == "burst":
            # several segments handed over back to back, without the loop running in between (TLS records of one read,
            # proactor-style transports)
            for h in st[1]:
                if self.tr.closed:
                    break
                if not self.tr.reading and self.honour_pause:
                    self.pending.append(bytes.fromhex(h))
                    continue
                try:
                    self.proto.data_received(bytes.fromhex(h))
                except BaseException as e:  # noqa
                    self.escapes.append(f"data_received raised {type(e).__name__}: {e}")
                self.max_q = max(self.max_q, len(self.proto._messages))
                self.max_msgs = max(self.max_msgs, self.count_msgs())
        elif k == "shutdown":
            # Server.pre_shutdown() + Server.shutdown(timeout), as AppRunner.cleanup() does; runs as its own task, the
            # following ticks let its grace periods expire
            srv = self.runner.server
            srv.pre_shutdown()
            self.shutdown_task = self.loop.create_task(srv.shutdown(float(st[1])))
        elif k == "close":
            # Server.pre_shutdown(): conn.close() -- only while a handler is in flight (the idle case is C20's finding)
            if self.tr.closed:
                return
            self.closed_at_invoked = self.invoked
            self.proto.close()
        elif k == "peer":
            if self.tr.closed:
                return
            self.events.append("P")
            self.tr.peer_close()
        self.idle()
        self.snap()
        self.pump()

    def pc(self):
        if self.start_task.done():
            return "exit"
        if self.proto._waiter is not None:
            return "wait"
        if self.active is not None:
            return "handler%s%s" % (self.active, "s" if self.active_started else "")
        return "linger%s" % self.last_handled

    def wire(self):
        return frame(bytes(self.tr.buf), self.tr.closed, self.methods)

    def snap(self):
        p = self.proto
        resps, ferr = self.wire()
        out = ",".join("%s:%s:%d" % (r["xreq"] if r["xreq"] is not None else "-", r["status"] if r["status"] is not None else 200,
                                     1 if r["done"] else 0) for r in resps) or "-"
        if ferr:
            out += ",!"
        s = "q=%d msgs=%d infl=%d paused=%d closed=%d force=%d ka=%d pc=%s out=%s" % (
            len(p._messages), self.count_msgs(), self.parser._msg_in_flight, int(p._msg_queue_paused), int(self.tr.closed),
            int(p._force_close), int(bool(p._keepalive)), self.pc(), out)
        if bool(p._msg_queue_paused) == bool(self.tr.reading) and not self.tr.closed:
            s += " reading-mismatch"
        self.events.append("|")
        self.snaps.append(s)

    def lingering(self):
        return self.pc().startswith("linger")

    def drain(self):
        """Let everything that can still happen without new input happen (not the keep-alive timer)."""
        for _ in range(400):
            if self.gates:
                self.stimulus(["rel"])
            elif self.pending and (self.tr.reading or not self.honour_pause) and not self.tr.closed:
                self.pump()
            elif self.lingering():
                self.stimulus(["tick", self.linger + 1])
            else:
                break

    def finish(self):
        loop = self.loop
        from aiohttp import web_protocol as _wp, streams as _st
        _wp.RequestHandler.resume_reading = self._orig_rr
        _st.StreamReader.readany = self._orig_ra
        try:
            for g in self.gates:
                if not g.done():
                    g.cancel()
            if not self.tr.closed:
                self.tr.peer_close()
            loop.run_until_idle()
            pend = [t for t in asyncio.all_tasks(loop) if not t.done()]
            for t in pend:
                t.cancel()
            if pend:
                loop.run_until_complete(asyncio.gather(*pend, return_exceptions=True))
            loop.run_until_complete(self.runner.cleanup())
        except Exception:  # noqa
            pass
        finally:
            asyncio.set_event_loop(None)
            loop.close()


# ----------------------------------------------------------------------------------------------
# oracle

def oracle(conn: Conn, expect_heads: int | None, drained: bool):
    """Property predicate on the implementation's behaviour; returns list of (vkind, text)."""
    bad = []
    resps, ferr = conn.wire()
    closed = conn.tr.closed
    if ferr:
        bad.append(("malformed-wire", f"transport bytes are not a sequence of well-formed responses: {ferr}"))
    for i, r in enumerate(resps):
        if not r["done"] and i != len(resps) - 1:
            bad.append(("malformed-wire", f"response {i} is incomplete but is followed by another response"))
    if resps and not resps[-1]["done"] and drained and not closed and conn.active is None:
        bad.append(("incomplete-open", "the last response is incomplete, no handler is running and the connection is open"))
    # order / once: X-Req tags strictly increasing, body matches the tag
    tags = [int(r["xreq"]) for r in resps if r["xreq"] is not None and r["xreq"].isdigit()]
    if any(b <= a for a, b in zip(tags, tags[1:])):
        bad.append(("order", f"responses out of request order or duplicated: tags {tags}"))
    for r in resps:
        if r["xreq"] is not None and r["done"] and r["body"] not in (b"", None) and r["status"] in (200, 404) \
                and r["body"] != ("r%s" % r["xreq"]).encode():
            bad.append(("order", f"response tagged {r['xreq']} carries the body {r['body'][:30]!r}"))
    complete = sum(1 for r in resps if r["done"])
    if complete > conn.handled + (1 if conn.active is not None else 0):
        bad.append(("order", f"{complete} complete responses for {conn.handled} handled requests"))
    # position: the k-th response answers the k-th handled request
    for k, r in enumerate(resps):
        if r["xreq"] is not None and r["xreq"].isdigit() and k < len(conn.order_log) and str(conn.order_log[k]) != r["xreq"]:
            bad.append(("order", f"response #{k} is tagged {r['xreq']} but the #{k} request handled was {conn.order_log[k]}"))
            break
    # never orphaned
    if not closed and conn.start_task.done():
        bad.append(("orphaned", "connection open but the start() task has ended"))
    if conn.start_task.done() and not conn.start_task.cancelled() and conn.start_task.exception() is not None:
        bad.append(("escape", f"start() ended with {conn.start_task.exception()!r}"))
    if conn.escapes:
        bad.append(("escape", conn.escapes[0]))
    if conn.shutdown_task is not None and conn.shutdown_task.done() and not conn.shutdown_task.cancelled() \
            and conn.shutdown_task.exception() is not None:
        bad.append(("escape", f"Server.shutdown() raised {conn.shutdown_task.exception()!r}"))
    if conn.loop.exceptions:
        c0 = conn.loop.exceptions[0]
        bad.append(("escape", f"loop exception handler called: {c0.get('message')} {c0.get('exception')!r}"))
    if drained and not closed and conn.active is None:
        if complete < conn.handled:
            bad.append(("unanswered-open", f"{conn.handled} requests were handled, {complete} complete responses written, connection left open"))
        if len(conn.proto._messages) > 0:
            bad.append(("orphaned", f"{len(conn.proto._messages)} queued requests, no handler running, connection open"))
        if expect_heads is not None and conn.parse_errors == 0 and not conn.pending and conn.handled < expect_heads:
            bad.append(("orphaned", f"the peer sent {expect_heads} complete requests, only {conn.handled} reached a handler, "
                                    "nothing is running and the connection is open"))
    case = getattr(conn, "case", {}) or {}
    quiet = drained and not conn.pending
    # accepted upgrade: nothing behind the handshake is HTTP any more
    sw = next((r for r in resps if r.get("status") == 101), None)
    if sw is not None:
        wskeys = [int(k) for k, b in conn.beh.items() if b.get("kind") == "ws"]
        pos = next((i for i, k in enumerate(conn.order_log) if k in wskeys), None)
        if pos is not None and len(conn.order_log) > pos + 1:
            bad.append(("upgrade", f"requests {conn.order_log[pos + 1:][:5]} were handled after the connection was upgraded (101 sent)"))
        if sw.get("after", b"").startswith(b"HTTP/"):
            bad.append(("upgrade", f"an HTTP response follows the 101: {sw['after'][:40]!r}"))
        if conn.parse_errors:
            bad.append(("upgrade", "bytes behind an accepted handshake were run through the HTTP request parser (it raised)"))
        if quiet and "ws_texts" in case:
            got = [d for t, d in conn.ws_received if t == "TEXT"]
            if got != case["ws_texts"]:
                bad.append(("upgrade", f"frames sent behind the accepted handshake: {case['ws_texts']}, the WebSocket received {conn.ws_received}"))
        if quiet and case.get("ws_junk") and not conn.ws_received:
            bad.append(("upgrade", "bytes sent behind the accepted handshake never reached the WebSocket reader"))
    if drained and case.get("expect_400_last") and conn.parse_errors:
        last = next((r for r in reversed(resps) if r["done"]), None)
        n400 = sum(1 for r in resps if r["done"] and r["status"] == 400)
        if not closed or last is None or last["status"] != 400 or n400 != 1:
            bad.append(("no-4xx-close", f"the parser rejected the input; connection closed={closed}, last complete response "
                                        f"{None if last is None else last['status']}, {n400} responses with status 400 "
                                        "(must be: exactly one 400, as the last response, then close)"))
    for k in case.get("forbidden_keys", []):
        if k in conn.order_log:
            bad.append(("smuggled", f"bytes of a request body were handled as request /r/{k} (handled order {conn.order_log})"))
    if drained and case.get("must_close") and not closed:
        bad.append(("smuggled", "a request whose body could not be decoded was answered and the connection left open with the "
                                "rest of its body unread"))
    if conn.closed_at_invoked is not None and conn.invoked > conn.closed_at_invoked:
        bad.append(("after-close", f"close() was called while request #{conn.closed_at_invoked - 1} was in flight; afterwards "
                                   f"{conn.invoked - conn.closed_at_invoked} queued pipelined request(s) were still started"))
    if conn.runaway:
        bad.append(("order", f"runaway: more than {conn.invoke_limit} handler invocations on one connection; the same requests are "
                             f"handled again and again (handled order starts {conn.order_log[:12]})"))
    # each request reaches a handler at most once
    seen_keys = [k for k in conn.order_log if isinstance(k, int)]
    dup = sorted({k for k in seen_keys if seen_keys.count(k) > 1})
    if dup:
        bad.append(("order", f"requests {dup[:5]} were handled more than once (handled order {conn.order_log[:12]}...)"))
    # wedged: input waits in the kernel, the transport is paused, and nothing is left that could resume it
    if drained and not closed and conn.pending and conn.honour_pause and not conn.tr.reading and not conn.gates:
        bad.append(("wedged", f"transport reading is paused (_msg_queue_paused={conn.proto._msg_queue_paused}, "
                              f"_reading_paused={conn.proto._reading_paused}), {len(conn.pending)} read(s) were never delivered, "
                              f"{conn.handled} requests handled, handler running: {conn.active is not None}; nothing can resume the connection"))
    if drained and conn.parse_errors and not closed and conn.active is None:
        bad.append(("no-4xx-close", "the parser rejected the input but the connection is still open at quiescence"))
    if drained and conn.parse_errors and closed and resps:
        # if every handled request was answered and nothing else closed the connection first, the last answer is the 4xx
        pass
    if conn.max_q > 2 * conn.maxq - 1 or conn.max_msgs > conn.maxq + 1:
        bad.append(("queue-bound", f"queue held {conn.max_q} items / {conn.max_msgs} parsed requests (cap {conn.maxq})"))
    return bad


# ----------------------------------------------------------------------------------------------
# running one lts case on both sides

def run_impl(case, shadow=True):
    conn = Conn(case["beh"], ka=case.get("ka", KA), linger=case.get("linger", LINGER), shadow=shadow,
                read_bufsize=case.get("read_bufsize"), honour_pause=not case.get("nopause", False))
    conn.case = case
    try:
        for st in case["steps"]:
            conn.stimulus(st)
        conn.drain()
        bad = oracle(conn, conn.shadow_heads if shadow else case.get("nreq"), drained=True)
        ran = sorted({conn.beh.get(str(k), {}).get("kind", "ok") for k in conn.order_log})
        return {"events": list(conn.events), "snaps": list(conn.snaps), "bad": bad, "ran_kinds": ran,
                "complete": sum(1 for r in conn.wire()[0] if r["done"]), "closed": conn.tr.closed,
                "wire": bytes(conn.tr.buf).hex() if len(conn.tr.buf) < 4000 else bytes(conn.tr.buf[:4000]).hex() + "..."}
    finally:
        conn.finish()


_SNAP_FIELDS = ("q", "msgs", "infl", "paused", "closed", "force", "ka", "pc", "out")


def parse_snap(s):
    d = {}
    for part in s.split():
        if "=" in part:
            k, v = part.split("=", 1)
            d[k] = v
        else:
            d["flag"] = part
    return d


def snaps_equal(m, i):
    """model snapshot vs implementation snapshot; response tags are compared only where the implementation
    response carries one (server-made 400/500/504 have no X-Req header)."""
    dm, di = parse_snap(m), parse_snap(i)
    if "flag" in di:
        return False
    for k in _SNAP_FIELDS:
        if k == "out":
            continue
        if dm.get(k) != di.get(k):
            # after the connection is gone the real parser is detached; in-flight is frozen on both sides
            return False
    om = [] if dm["out"] == "-" else dm["out"].split(",")
    oi = [] if di["out"] == "-" else di["out"].split(",")
    if oi and oi[-1] == "!":
        # the framer could not go on (bytes of two responses interleaved): compare what it framed before the
        # response next to the damage
        oi = oi[:-2]
        om = om[:len(oi)]
    if len(om) != len(oi):
        return False
    for a, b in zip(om, oi):
        ta, sa, da = a.split(":")
        tb, sb, db = b.split(":")
        if (sa, da) != (sb, db):
            return False
        if tb != "-" and ta != tb:
            return False
    return True


def compare(ctx, exe, cases, results, suite):
    lines = ["RUN %d %d %s" % (c.get("ka", KA), c.get("linger", LINGER), " ".join(r["events"])) for c, r in zip(cases, results)]
    model = fw.run_model(exe, lines)
    for c, r, m in zip(cases, results, model):
        msn = m.split(" | ") if m else []
        isn = r["snaps"]
        ok = len(msn) == len(isn) and all(snaps_equal(a, b) for a, b in zip(msn, isn))
        if not ok:
            k = next((j for j, (a, b) in enumerate(zip(msn, isn)) if not snaps_equal(a, b)), min(len(msn), len(isn)))
            ctx.disagreement(suite, c, {"first_diff_at_snapshot": k, "model": msn[k] if k < len(msn) else None, "events": " ".join(r["events"])[:600]},
                             {"impl": isn[k] if k < len(isn) else None})
        else:
            ctx.traces_validated += 1
        r["model"] = msn


# ----------------------------------------------------------------------------------------------
# generators

def rand_body(rng):
    r = rng.random()
    if r < 0.6:
        return None
    if r < 0.85:
        return ["len", bytes(rng.randrange(97, 123) for _ in range(rng.randint(1, 12))).hex()]
    return ["chunked", [bytes(rng.randrange(97, 123) for _ in range(rng.randint(1, 6))).hex() for _ in range(rng.randint(0, 3))]]


def rand_beh(rng, has_body, allow_defects):
    kinds = BEHAVIOURS + (DEFECT_BEHAVIOURS if allow_defects else [])
    kind = rng.choice(kinds)
    if kind == "read" and not has_body and rng.random() < 0.5:
        kind = "ok"
    b = {"kind": kind}
    if rng.random() < 0.3:
        b["block"] = True
    if kind.startswith("stream") and rng.random() < 0.4:
        b["block2"] = True
    return b


def cut(rng, data: bytes, nmax=4):
    if len(data) <= 1 or rng.random() < 0.3:
        return [data]
    k = rng.randint(1, min(nmax, len(data) - 1))
    pts = sorted(set(rng.randint(1, len(data) - 1) for _ in range(k)))
    return [data[a:b] for a, b in zip([0] + pts, pts + [len(data)])]


def gen_case(rng, allow_defects=True, depth=None):
    n = depth if depth is not None else rng.choice([1, 1, 2, 2, 3, 4, 5, 8, 15, 16, 17, 18, 31, 32, 33, 34, 40, 45])
    plain = n > 8 and rng.random() < 0.7
    reqs, beh = [], {}
    stream_parts = []        # list of byte strings in order; each request is head+body
    for i in range(n):
        r = {"ver": "1.1"}
        x = rng.random()
        if not plain:
            if x < 0.08:
                r["ver"] = "1.0"
                if rng.random() < 0.6:
                    r["conn"] = "keep-alive"
            elif x < 0.14:
                r["conn"] = "close"
            r["body"] = rand_body(rng)
            if rng.random() < 0.1:
                r["method"] = rng.choice(["POST", "PUT", "DELETE", "OPTIONS"])
        b = rand_beh(rng, bool(r.get("body")), allow_defects) if (not plain or rng.random() < 0.15) else {"kind": "ok"}
        if b["kind"] == "swallow":
            r["ver"] = "1.0"
            r["conn"] = "keep-alive"
            r["method"] = "GET"
        if plain and i == 0 and rng.random() < 0.8:
            b["block"] = True
        if b != {"kind": "ok"}:
            beh[str(i)] = b
        reqs.append(r)
        h, bd = enc_request(i, r)
        stream_parts.append((h, bd))
    bad_at = None
    if rng.random() < 0.3:
        bad_at = rng.randint(0, n)
    # byte stream, optionally with the body of one request withheld / delayed
    pieces = []
    for i, (h, bd) in enumerate(stream_parts):
        if bad_at == i:
            pieces.append(rng.choice(BAD_ELEMENTS))
            break
        pieces.append(h + bd)
    else:
        if bad_at == n:
            pieces.append(rng.choice(BAD_ELEMENTS))
    data = b"".join(pieces)
    if rng.random() < 0.15 and len(data) > 4:
        data = data[: rng.randint(len(data) // 2, len(data) - 1)]     # the peer stops mid-stream
    mode = rng.random()
    if mode < 0.35:
        chunks = [data]
    elif mode < 0.7:
        chunks = cut(rng, data, 6)
    else:
        chunks = []
        for p in pieces:
            chunks += cut(rng, p, 2)
        tot = b"".join(chunks)
        chunks = chunks if len(tot) <= len(data) else cut(rng, data, 6)
        if b"".join(chunks) != data:
            chunks = cut(rng, data, 6)
    steps = []
    for c in chunks:
        steps.append(["data", c.hex()])
        for _ in range(rng.choice([0, 0, 1, 1, 2])):
            x = rng.random()
            if x < 0.6:
                steps.append(["rel"])
            elif x < 0.9:
                steps.append(["tick", rng.choice([1, 5, 9, 10, 11, 74, 75, 76, 200])])
            elif x < 0.96:
                steps.append(["peer"] if rng.random() < 0.5 else ["eof"])
            else:
                steps.append(["tick", 0])
    for _ in range(rng.choice([0, 1, 2, 4])):
        x = rng.random()
        steps.append(["rel"] if x < 0.6 else ["tick", rng.choice([1, 9, 10, 11, 74, 75, 76, 300])] if x < 0.92 else ["peer"])
    return {"suite": "lts", "beh": beh, "steps": steps, "ka": KA, "linger": rng.choice([LINGER, LINGER, LINGER, 0, 3])}


def gen_badbody_case(rng):
    """A request whose chunked body turns out to be malformed in a LATER read than its head: the handler may ignore the
    body (lingering read meets the parser's exception), read it (the handler gets the exception) or be blocked."""
    n = rng.randint(1, 4)
    beh = {}
    parts = []
    for i in range(n - 1):
        parts.append(b"".join(enc_request(i, {"ver": "1.1"})))
        if rng.random() < 0.3:
            beh[str(i)] = rand_beh(rng, False, False)
    last = n - 1
    head = ("POST /r/%d HTTP/1.1\r\nHost: x\r\nTransfer-Encoding: chunked\r\n\r\n" % last).encode()
    good = b"3\r\nabc\r\n" if rng.random() < 0.6 else b""
    bad = rng.choice([b"zz\r\n", b"-1\r\n", b"3\r\nabcd\r\n", b"1" + b"0" * 40 + b";" + b"e" * 9000 + b"\r\n", b"0\r\nBad Trailer\r\n\r\n"])
    beh[str(last)] = {"kind": rng.choice(["ok", "ok", "read", "fclose", "http", "stream", "exc"])}
    if rng.random() < 0.4:
        beh[str(last)]["block"] = True
    steps = [["data", (b"".join(parts) + head + good).hex()]]
    for _ in range(rng.choice([0, 1, 1, 2])):
        steps.append(["rel"] if rng.random() < 0.7 else ["tick", rng.choice([1, 9, 10])])
    steps.append(["data", bad.hex()])
    for _ in range(rng.choice([0, 1, 2])):
        steps.append(["rel"] if rng.random() < 0.6 else ["tick", rng.choice([1, 10, 11])])
    return {"suite": "lts", "beh": beh, "steps": steps, "ka": KA, "linger": rng.choice([LINGER, LINGER, 0])}


def depth_sweep_cases():
    """Fixed histories: a blocked first handler and a pipeline of every depth around the cap and the resume mark,
    in one read and in two reads split at every request boundary near the marks."""
    out = []
    for n in list(range(1, 8)) + list(range(14, 20)) + list(range(30, 37)) + [48, 49, 50, 64, 65, 66, 70]:
        reqs = [enc_request(i, {"ver": "1.1"})[0] for i in range(n)]
        out.append({"suite": "lts", "beh": {"0": {"kind": "ok", "block": True}}, "ka": KA, "linger": LINGER,
                    "steps": [["data", b"".join(reqs).hex()], ["rel"]]})
    for n, k in [(40, 31), (40, 32), (40, 33), (34, 16), (34, 17), (50, 33), (66, 32), (66, 48)]:
        reqs = [enc_request(i, {"ver": "1.1"})[0] for i in range(n)]
        out.append({"suite": "lts", "beh": {"0": {"kind": "ok", "block": True}, "20": {"kind": "ok", "block": True}}, "ka": KA, "linger": LINGER,
                    "steps": [["data", b"".join(reqs[:k]).hex()], ["data", b"".join(reqs[k:]).hex()], ["rel"], ["rel"]]})
    # errors queued behind a blocked handler, then a full pipeline: the 2*MAX-1 corner
    for nerr in (1, 5, 31):
        reqs = [enc_request(i, {"ver": "1.1"})[0] for i in range(41)]
        steps = [["data", reqs[0].hex()]] + [["data", b"BAD\r\n\r\n".hex()]] * nerr + [["data", b"".join(reqs[1:]).hex()], ["rel"]]
        out.append({"suite": "lts-posterr", "beh": {"0": {"kind": "ok", "block": True}}, "ka": KA, "linger": LINGER, "steps": steps})
    return out


# ----------------------------------------------------------------------------------------------
# suites

def build_model():
    return fw.ocaml_model("C05", ["Model/ServerConn.vo"])


def case_vkinds(case):
    return sorted({b.get("kind") for b in case.get("beh", {}).values()})


def report(ctx, case, res):
    for vkind, text in res["bad"]:
        c = dict(case)
        c["vkind"] = vkind
        c["ran_kinds"] = res.get("ran_kinds", [])
        ctx.violation(c, f"{vkind}: {text}")


def suite_lts(ctx, exe):
    rng = ctx.rng
    cases = []
    for name in sorted(os.listdir(os.path.join(fw.VERIF, "corpus", "C05"))) if os.path.isdir(os.path.join(fw.VERIF, "corpus", "C05")) else []:
        payload = json.load(open(os.path.join(fw.VERIF, "corpus", "C05", name)))
        c = payload.get("case", payload)
        if c.get("suite") == "lts":
            cases.append(c)
    ncorpus = len(cases)
    sweep = depth_sweep_cases()
    cases += [c for c in sweep if c["suite"] == "lts"]
    n = 900 if ctx.quick else 20000
    for k in range(n):
        cases.append(gen_badbody_case(rng) if k % 12 == 5 else gen_case(rng, allow_defects=rng.random() < 0.12))
    results = []
    for c in cases:
        r = run_impl(c)
        results.append(r)
        ctx.case(tuple(r["snaps"]), nontrivial=r["complete"] > 0)
        ctx.count("lts:closed" if r["closed"] else "lts:open-idle")
        for k in case_vkinds(c):
            ctx.count("beh:" + k)
        nreq = sum(e.count("h") for e in r["events"] if e.startswith("D"))
        ctx.count("depth:%s" % ("1" if nreq <= 1 else "2-8" if nreq <= 8 else "9-16" if nreq <= 16 else "17-31" if nreq <= 31 else "32+"))
        if any("x" in e for e in r["events"] if e.startswith("D")):
            ctx.count("lts:parse-error")
        if any("paused=1" in s for s in r["snaps"]):
            ctx.count("lts:queue-paused")
        if any("pc=linger" in s for s in r["snaps"]):
            ctx.count("lts:lingering")
        report(ctx, c, r)
    if exe is not None:
        compare(ctx, exe, cases, results, "lts")
    if results:
        ctx.sample({"suite": "lts", "case": cases[-1], "events": " ".join(results[-1]["events"])[:400], "last_snapshot": results[-1]["snaps"][-1] if results[-1]["snaps"] else None})
    ctx.count("lts:corpus", ncorpus)
    if exe is not None:
        ctx.close_suite("lts", len(cases))
    # after-error data: the model's parser keeps going like the real one only as long as both saw the same call
    # boundaries; these fixed histories keep them aligned (one element per read)
    pe = [c for c in sweep if c["suite"] == "lts-posterr"]
    res2 = []
    for c in pe:
        r = run_impl(c, shadow=False)
        res2.append(r)
        ctx.case(tuple(r["snaps"]), nontrivial=r["complete"] > 0)
        report(ctx, c, r)
    ctx.close_suite("lts-posterr-oracle", len(pe))


def gen_hostile(rng):
    from harness import httpfam
    s = httpfam.gen_stream(rng)
    r = rng.random()
    label = "valid"
    if r < 0.4:
        s, label = httpfam.mutate_smuggling(rng, s)
    elif r < 0.6:
        s = httpfam.mutate_bytes(rng, s)
        label = "bytes"
    if rng.random() < 0.3:
        s = s + httpfam.gen_stream(rng)
    if len(s) > 30000:
        s = s[:30000]
    chunks = cut(rng, s, 5)
    beh = {}
    for i in range(1, 9):
        if rng.random() < 0.5:
            b = rand_beh(rng, True, False)
            b.pop("block2", None)
            beh["h%d" % i] = b
    steps = []
    for c in chunks:
        steps.append(["data", c.hex()])
        if rng.random() < 0.4:
            steps.append(rng.choice([["rel"], ["tick", rng.choice([1, 10, 11, 75, 76])], ["rel"], ["peer"] if rng.random() < 0.2 else ["rel"]]))
    return {"suite": "hostile", "label": label, "beh": beh, "steps": steps, "ka": KA, "linger": LINGER}


def hostile_usable(case):
    data = b"".join(bytes.fromhex(s[1]) for s in case["steps"] if s[0] == "data").lower()
    return not (b"upgrade" in data or b"connect " in data or b"expect" in data)


UPG = "Connection: Upgrade\r\nUpgrade: websocket\r\n"


def _plain(i, upgrade=False):
    return (f"GET /r/{i} HTTP/1.1\r\nHost: x\r\n" + (UPG if upgrade else "") + "\r\n").encode()


def gen_upgrade_case(rng, fixed=None):
    """Declined Upgrade requests with ordinary requests pipelined behind them (buffered in _message_tail and re-fed by
    finish_response), several upgrades per connection, reads cut anywhere or at request boundaries."""
    if fixed is not None:
        reads_spec = fixed
    else:
        reads_spec = []
        for _ in range(rng.randint(1, 4)):
            k = rng.choice([1, 1, 2, 3, 4, 6])
            reads_spec.append([rng.random() < 0.45 for _ in range(k)])
    beh, reads, i = {}, [], 0
    for spec in reads_spec:
        data = b""
        for up in spec:
            data += _plain(i, up)
            r = rng.random()
            if r < 0.15:
                beh[str(i)] = {"kind": "ok", "block": True}
            elif r < 0.3:
                beh[str(i)] = {"kind": "http"}
            i += 1
        reads.append(data)
    steps = []
    for d in reads:
        for c in (cut(rng, d, 3) if fixed is None and rng.random() < 0.4 else [d]):
            steps.append(["data", c.hex()])
            if rng.random() < 0.5:
                steps.append(["rel"])
        steps.append(["drain"])          # everything sent so far is answered before the next read arrives
    return {"suite": "upgrade", "beh": beh, "steps": steps, "ka": KA, "linger": LINGER, "nreq": i}


def gen_pause_case(rng, fixed=None):
    """Both reasons for pausing the transport: the pipeline queue (32 parsed requests) and the body reader's high-water
    mark (2 x read_bufsize), with a transport that delivers nothing while paused -- or (nopause) one that cannot pause."""
    bufsize = 1024
    if fixed is not None:
        n_gets, first, total, after, nopause, kind = fixed
    else:
        n_gets = rng.choice([0, 3, 15, 16, 30, 31, 31, 31, 32, 33, 40])
        total = rng.choice([500, 3000, 5000, 9000])
        first = min(total - 1, rng.choice([0, 100, 2047, 2048, 2049, 2500, 4000]))
        after = rng.choice([0, 1, 3, 35])
        nopause = rng.random() < 0.15
        kind = rng.choice(["read", "read", "ok", "stream"])
    beh = {str(n_gets): {"kind": kind}}
    if rng.random() < 0.5:
        beh["0"] = dict(beh.get("0", {"kind": "ok"}), block=True)
    head = (f"POST /r/{n_gets} HTTP/1.1\r\nHost: x\r\nContent-Length: {total}\r\n\r\n").encode()
    body = b"b" * total
    read1 = b"".join(_plain(i) for i in range(n_gets)) + head + body[:first]
    steps = [["data", read1.hex()]]
    rest = body[first:]
    for c in cut(rng, rest, 2):
        steps.append(["data", c.hex()])
    for j in range(after):
        steps.append(["data", _plain(n_gets + 1 + j).hex()])
    if rng.random() < 0.5:
        steps.insert(rng.randint(1, len(steps)), ["rel"])
    return {"suite": "pause", "beh": beh, "steps": steps, "ka": KA, "linger": LINGER, "nreq": n_gets + 1 + after,
            "read_bufsize": bufsize, "nopause": nopause}


def _ws_frame(text: bytes) -> bytes:
    mask = b"\x11\x22\x33\x44"
    return b"\x81" + bytes((0x80 | len(text),)) + mask + bytes(b ^ mask[i % 4] for i, b in enumerate(text))


def _handshake(i):
    return (f"GET /r/{i} HTTP/1.1\r\nHost: x\r\nConnection: Upgrade\r\nUpgrade: websocket\r\n"
            "Sec-WebSocket-Version: 13\r\nSec-WebSocket-Key: dGhlIHNhbXBsZSBub25jZQ==\r\n\r\n").encode()


def _ignored_upgrade(i, token="h2c"):
    return (f"GET /r/{i} HTTP/1.1\r\nHost: x\r\nConnection: Upgrade\r\nUpgrade: {token}\r\n\r\n").encode()


def gen_ws_case(rng, fixed=None):
    """Requests (plain / with an Upgrade token the server ignores / declined websocket upgrades) pipelined AHEAD of a
    WebSocket handshake that the handler accepts, with bytes behind the handshake: masked text frames or an HTTP look-alike."""
    if fixed is not None:
        kinds, tail_kind, layout, block0 = fixed
    else:
        kinds = [rng.choice(["plain", "h2c", "h2c", "other"]) for _ in range(rng.randint(0, 3))]
        tail_kind = rng.choice(["frames", "frames", "lookalike", "none"])
        layout = rng.choice(["one", "tail-own", "cut"])
        block0 = rng.random() < 0.5
    beh, data, i = {}, b"", 0
    for k in kinds:
        data += _plain(i) if k == "plain" else _ignored_upgrade(i, "h2c" if k == "h2c" else rng.choice(["foo", "TLS/1.0", "h2c, bar"]))
        i += 1
    if kinds and block0:
        beh["0"] = {"kind": "ok", "block": True}
    data += _handshake(i)
    beh[str(i)] = {"kind": "ws"}
    case = {"suite": "ws", "beh": beh, "ka": KA, "linger": LINGER, "nreq": i + 1}
    if tail_kind == "frames":
        texts = ["f%d" % j for j in range(rng.randint(1, 3))]
        tail = b"".join(_ws_frame(t.encode()) for t in texts)
        case["ws_texts"] = texts
    elif tail_kind == "lookalike":
        tail = b"GET /r/666 HTTP/1.1\r\nHost: x\r\n\r\n"
        case["ws_junk"] = True
        case["forbidden_keys"] = [666]
    else:
        tail = b""
    if layout == "one":
        reads = [data + tail]
    elif layout == "tail-own":
        reads = [data, tail] if tail else [data]
    else:
        reads = cut(rng, data + tail, 3)
    steps = [["data", r.hex()] for r in reads if r]
    steps.insert(rng.randint(1, len(steps)), ["rel"])
    steps.append(["rel"])
    case["steps"] = steps
    return case


def gen_latebad_case(rng):
    """Malformed bytes arriving in a LATER read while a keep-alive request is still being handled: every request is
    HTTP/1.1 keep-alive without body, handlers only answer (200/404), nothing else can close the connection, so the
    400 must be the last response and the connection must close."""
    n = rng.randint(1, 4)
    beh = {"0": {"kind": rng.choice(["ok", "http"]), "block": True}}
    for i in range(1, n):
        if rng.random() < 0.4:
            beh[str(i)] = {"kind": rng.choice(["ok", "http"]), "block": rng.random() < 0.5}
    first = b"".join(_plain(i) for i in range(n))
    bad = rng.choice(BAD_ELEMENTS[:8] + [BAD_ELEMENTS[10]])
    steps = [["data", first.hex()], ["data", bad.hex()]] + [["rel"]] * n
    return {"suite": "latebad", "beh": beh, "steps": steps, "ka": KA, "linger": LINGER, "nreq": n, "expect_400_last": True}


def gen_badenc_case(rng):
    """A body with a content coding that fails to decode on its first bytes, split over two reads; the rest of the announced
    body spells an HTTP request.  Whatever the handler does, that request must never be served and the connection must not stay open."""
    smuggled = b"GET /r/666 HTTP/1.1\r\nHost: x\r\n\r\n"
    junk = bytes(rng.randrange(1, 255) for _ in range(rng.randint(4, 12)))
    if junk[:2] in (b"\x1f\x8b", b"\x78\x9c", b"\x78\x01", b"\x78\xda"):
        junk = b"\x00" + junk
    body = junk + smuggled
    head = (f"POST /r/0 HTTP/1.1\r\nHost: x\r\nContent-Encoding: {rng.choice(['gzip', 'deflate'])}\r\n"
            f"Content-Length: {len(body)}\r\n\r\n").encode()
    beh = {"0": {"kind": rng.choice(["ok", "ok", "http", "read", "fclose", "stream"])}}
    if rng.random() < 0.5:
        beh["0"]["block"] = True
    k = rng.randint(2, len(junk))
    steps = [["data", (head + body[:k]).hex()]]
    if rng.random() < 0.5:
        steps.append(["rel"])
    steps.append(["data", body[k:].hex()])
    steps += [["rel"], ["tick", rng.choice([0, 1, 11])]]
    return {"suite": "badenc", "beh": beh, "steps": steps, "ka": KA, "linger": rng.choice([LINGER, 0]), "nreq": 1,
            "forbidden_keys": [666], "must_close": True}


def gen_shutdown_case(rng):
    """close() (Server.pre_shutdown) while a request is in flight and more are queued: the one in flight is answered,
    no queued request may be started afterwards."""
    n = rng.randint(2, 6)
    beh = {"0": {"kind": rng.choice(["ok", "http", "stream"]), "block": True}}
    if rng.random() < 0.25:
        # idle keep-alive connection: close() closes the transport at once (009879e)
        return {"suite": "shutdown", "beh": {}, "ka": KA, "linger": LINGER, "nreq": 1,
                "steps": [["data", _plain(0).hex()], ["drain"], ["close"], ["tick", 1]]}
    steps = [["data", b"".join(_plain(i) for i in range(n)).hex()], ["close"], ["rel"], ["rel"]]
    if rng.random() < 0.3:
        steps.insert(1, ["data", _plain(n).hex()])
    return {"suite": "shutdown", "beh": beh, "steps": steps, "ka": KA, "linger": LINGER, "nreq": n}


NONUTF8 = [b"\xff", b"\xe9", b"\xc3\x28", b"\xed\xa0\x80", b"\xf8\x88", b"\x80abc", b"caf\xe9"]


def gen_nonutf8_case(rng, fixed=None):
    """Bytes that are not valid UTF-8 in every syntactic position of a request head.  Whatever the parser decides: a rejection
    is answered by exactly one 400 and the close, an accepted request by its handler's response."""
    x = rng.choice(NONUTF8)
    pos = fixed if fixed is not None else rng.choice(["method", "origin", "origin-query", "absolute-host", "absolute-path", "authority",
                                                      "noslash", "noslash-only", "version", "name", "value", "host-value", "asterisk"])
    lead = rng.randint(0, 2)
    method, target, version, hdrs = b"GET", b"/r/%d" % lead, b"HTTP/1.1", [(b"Host", b"x")]
    if pos == "method":
        method = b"GE" + x + b"T"
    elif pos == "origin":
        target = b"/a" + x + b"b"
    elif pos == "origin-query":
        target = b"/a?q=" + x
    elif pos == "absolute-host":
        target = b"http://h" + x + b".example/p"
    elif pos == "absolute-path":
        target = b"http://h.example/p" + x
    elif pos == "authority":
        target = b"caf" + x + b".example:80"
    elif pos == "noslash":
        target = b"foo" + x + b"bar"
    elif pos == "noslash-only":
        target = x
    elif pos == "asterisk":
        target = b"*" + x
    elif pos == "version":
        version = b"HTTP/1." + x
    elif pos == "name":
        hdrs.append((b"X-" + x, b"v"))
    elif pos == "value":
        hdrs.append((b"X-A", b"v" + x + b"w"))
    elif pos == "host-value":
        hdrs = [(b"Host", b"h" + x)]
    if rng.random() < 0.3:
        method = rng.choice([b"CONNECT", b"OPTIONS", b"POST"]) if pos != "method" else method
    bad = method + b" " + target + b" " + version + b"\r\n" + b"".join(k + b": " + v + b"\r\n" for k, v in hdrs) + b"\r\n"
    beh = {}
    if lead and rng.random() < 0.5:
        beh["0"] = {"kind": "ok", "block": True}
    data = b"".join(_plain(i) for i in range(lead))
    if lead and rng.random() < 0.5:
        reads = [data, bad]
    else:
        reads = cut(rng, data + bad, 2) if rng.random() < 0.3 else [data + bad]
    steps = [["data", r.hex()] for r in reads if r] + [["rel"], ["rel"]]
    return {"suite": "nonutf8", "pos": pos, "beh": beh, "steps": steps, "ka": KA, "linger": LINGER, "expect_400_last": True}


def gen_srvshutdown_case(rng, fixed=None):
    """A handler that outlives its connection (peer gone, or force-closed by shutdown) and the grace period of
    Server.shutdown(timeout), swallowing the cancellation, and returns only afterwards.  Nothing may reach the loop's
    exception handler, Server.shutdown() must not raise."""
    peer_first, timeout, n = fixed if fixed is not None else (rng.random() < 0.5, rng.choice([1, 2, 6]), rng.randint(1, 3))
    beh = {"0": {"kind": "shielded"}}
    steps = [["data", b"".join(_plain(i) for i in range(n)).hex()]]
    if peer_first:
        steps.append(["peer"])
    steps += [["shutdown", timeout], ["tick", timeout + 1], ["tick", timeout + 1], ["tick", 1], ["rel"], ["tick", 1]]
    if not peer_first and rng.random() < 0.3:
        steps.insert(2, ["peer"])
    return {"suite": "srvshutdown", "beh": beh, "steps": steps, "ka": KA, "linger": LINGER}


def gen_halfclose_case(rng):
    """The peer half-closes (FIN -> eof_received) at any point of a request, in particular in the middle of a body
    (Content-Length or chunked) while the handler reads it, ignores it or has not been released yet."""
    chunked = rng.random() < 0.5
    lead = rng.randint(0, 2)
    data = b"".join(_plain(i) for i in range(lead))
    if chunked:
        head = (f"POST /r/{lead} HTTP/1.1\r\nHost: x\r\nTransfer-Encoding: chunked\r\n\r\n").encode()
        body = b"5\r\nabcde\r\n3\r\nxyz\r\n0\r\n\r\n"
    else:
        head = (f"POST /r/{lead} HTTP/1.1\r\nHost: x\r\nContent-Length: 12\r\n\r\n").encode()
        body = b"abcdefghijkl"
    k = rng.randint(0, len(body) - 1)
    if rng.random() < 0.15:
        k = -rng.randint(1, len(head) - 1)          # FIN inside the header block
    stream = data + head + body
    cutpos = len(data) + len(head) + k
    beh = {str(lead): {"kind": rng.choice(["read", "read", "ok", "http", "stream"])}}
    if rng.random() < 0.4:
        beh[str(lead)]["block"] = True
    steps = [["data", c.hex()] for c in cut(rng, stream[:cutpos], 2)] + [["eof"], ["rel"], ["tick", 11]]
    return {"suite": "halfclose", "beh": beh, "steps": steps, "ka": KA, "linger": LINGER}


def gen_burst_case(rng):
    """Idle connection, several request-completing segments delivered back to back before start() runs again."""
    n = rng.randint(2, 6)
    warm = rng.random() < 0.4
    segs, i = [], (1 if warm else 0)
    for _ in range(n):
        k = rng.choice([1, 1, 2])
        seg = b"".join(_plain(i + j) for j in range(k))
        i += k
        segs.append(seg)
    nreq = i
    if rng.random() < 0.25:
        segs.insert(rng.randint(1, len(segs)), rng.choice(BAD_ELEMENTS[:6]))
        nreq = None
    beh = {}
    if rng.random() < 0.3:
        beh["1" if warm else "0"] = {"kind": "ok", "block": True}
    steps = []
    if warm:
        steps.append(["data", _plain(0).hex()])        # an earlier request, answered: the connection is idle keep-alive
        steps.append(["drain"])
    steps += [["burst", [x.hex() for x in segs]], ["rel"], ["rel"]]
    c = {"suite": "burst", "beh": beh, "steps": steps, "ka": KA, "linger": LINGER}
    if nreq is not None:
        c["nreq"] = nreq
    return c


def gen_upgrade_body_case(rng, fixed=None):
    """An Upgrade request WITH a body whose handler answers (declining) before the body has fully arrived; the upgrade takes
    effect in the parser when the body ends.  Requests behind it must still be answered (or the connection closed)."""
    total = rng.randint(2, 12)
    first = rng.randint(0, total - 1) if fixed is None else fixed[0]
    together = rng.random() < 0.5 if fixed is None else fixed[1]
    head = (f"POST /r/0 HTTP/1.1\r\nHost: x\r\n" + UPG + f"Content-Length: {total}\r\n\r\n").encode()
    body = b"u" * total
    nxt = _plain(1)
    # "read": the handler reads the body first -- the bytes of a later read are still this request's body
    beh = {"0": {"kind": rng.choice(["ok", "http", "read", "read"])}}
    if together:
        steps = [["data", (head + body[:first]).hex()], ["data", (body[first:] + nxt).hex()]]
    else:
        steps = [["data", (head + body[:first]).hex()], ["data", body[first:].hex()], ["data", nxt.hex()]]
    return {"suite": "upgrade", "beh": beh, "steps": steps, "ka": KA, "linger": LINGER, "nreq": 2}


def gen_upgrade_bigtail_case(rng, fixed=None):
    """A declined Upgrade request whose handler is still running while at least read_bufsize bytes arrive behind it
    (buffered in _message_tail: the transport is paused) - and those bytes hold no complete request head, so settling
    the declined upgrade parses nothing: reading has to be resumed there, or the rest of the pipelined request is
    never read."""
    bufsize = 256
    if fixed is not None:
        pad, same_read, tailreq = fixed
    else:
        pad = rng.choice([100, 200, 230, 256, 300, 1000, 3000])
        same_read = rng.random() < 0.5
        tailreq = rng.random() < 0.3           # a complete request in front of the partial one
    upg = _plain(0, True)
    i = 1
    front = b""
    if tailreq:
        front = _plain(i)
        i += 1
    big = (f"GET /r/{i} HTTP/1.1\r\nHost: x\r\nX-Pad: " + "p" * pad).encode()
    rest = b"\r\n\r\n"
    last = _plain(i + 1)
    steps = [["data", (upg + front + big).hex()]] if same_read else [["data", upg.hex()], ["data", (front + big).hex()]]
    steps += [["rel"], ["data", rest.hex()], ["data", last.hex()], ["drain"]]
    return {"suite": "upgrade", "beh": {"0": {"kind": "ok", "block": True}}, "steps": steps, "ka": KA, "linger": LINGER,
            "nreq": i + 2, "read_bufsize": bufsize}


def special_fixed_cases(rng):
    out = [gen_upgrade_case(rng, fixed=f) for f in (
        [[True, False, False], [True]], [[True, False], [False], [True]], [[True, False, False], [True, False]],
        [[False, True, False, False], [True], [False]], [[True], [True]], [[True, True, False], [True]])]
    for f in ((31, 2500, 5000, 1, False, "read"), (31, 100, 5000, 1, False, "read"), (3, 2500, 5000, 1, False, "read"),
              (31, 4000, 9000, 3, False, "ok"), (32, 2500, 5000, 2, False, "read"), (30, 2049, 5000, 35, False, "read"),
              (0, 0, 500, 0, True, "read")):
        out.append(gen_pause_case(rng, fixed=f))
    for f in ((["h2c"], "frames", "one", False), (["h2c"], "frames", "tail-own", True), (["h2c"], "lookalike", "one", False),
              (["plain"], "frames", "one", False), ([], "frames", "one", False), (["h2c", "plain"], "lookalike", "tail-own", True),
              (["other", "h2c"], "frames", "one", True)):
        out.append(gen_ws_case(rng, fixed=f))
    for pos in ("method", "origin", "absolute-host", "authority", "noslash", "noslash-only", "version", "name", "value", "asterisk"):
        out.append(gen_nonutf8_case(rng, fixed=pos))
    for f in ((True, 1, 1), (False, 1, 2), (False, 6, 1), (True, 6, 3)):
        out.append(gen_srvshutdown_case(rng, fixed=f))
    out.append(gen_upgrade_body_case(rng, fixed=(5, False)))
    out.append(gen_upgrade_body_case(rng, fixed=(5, True)))
    for f in ((300, True, False), (300, False, False), (1000, True, True), (200, True, False), (256, False, True)):
        out.append(gen_upgrade_bigtail_case(rng, fixed=f))
    # a transport that cannot pause: a burst that fills the queue behind a blocked handler, then one request per read
    steps = [["data", b"".join(_plain(i) for i in range(33)).hex()]] + [["data", _plain(i).hex()] for i in range(33, 75)] + [["rel"]]
    out.append({"suite": "pause", "beh": {"0": {"kind": "ok", "block": True}}, "steps": steps, "ka": KA, "linger": LINGER,
                "nreq": 75, "nopause": True})
    return out


def suite_special(ctx):
    """Oracle-only: mechanisms outside the Coq model (declined Upgrade + _message_tail; the two pause reasons; a
    transport without read flow control)."""
    rng = ctx.rng
    cpath = os.path.join(fw.VERIF, "corpus", "C05")
    cases = []
    for name in sorted(os.listdir(cpath)) if os.path.isdir(cpath) else []:
        payload = json.load(open(os.path.join(cpath, name)))
        c = payload.get("case", payload)
        if c.get("suite") in ("upgrade", "pause", "ws", "latebad", "badenc", "shutdown", "nonutf8", "srvshutdown", "halfclose", "burst"):
            cases.append(c)
    cases += special_fixed_cases(rng)
    n = 440 if ctx.quick else 8800
    gens = (gen_upgrade_case, gen_pause_case, gen_ws_case, gen_latebad_case, gen_badenc_case, gen_shutdown_case,
            gen_nonutf8_case, gen_srvshutdown_case, gen_upgrade_body_case, gen_halfclose_case, gen_burst_case,
            gen_upgrade_bigtail_case)
    for k in range(n):
        cases.append(gens[k % len(gens)](rng))
    for c in cases:
        r = run_impl(c, shadow=False)
        ctx.case((c["suite"], tuple(r["snaps"])), nontrivial=r["complete"] > 0)
        ctx.count("special:" + c["suite"] + (":nopause" if c.get("nopause") else ""))
        if any("paused=1" in s for s in r["snaps"]):
            ctx.count("special:queue-paused")
        report(ctx, c, r)
    ctx.sample({"suite": cases[-1]["suite"], "steps": [s if s[0] != "data" else ["data", s[1][:60] + "..."] for s in cases[-1]["steps"][:4]]})
    ctx.close_suite("special-oracle", len(cases))


def suite_hostile(ctx):
    rng = ctx.rng
    n = 500 if ctx.quick else 12000
    ran = 0
    cpath = os.path.join(fw.VERIF, "corpus", "C05")
    cases = []
    for name in sorted(os.listdir(cpath)) if os.path.isdir(cpath) else []:
        payload = json.load(open(os.path.join(cpath, name)))
        c = payload.get("case", payload)
        if c.get("suite") == "hostile":
            cases.append(c)
    while len(cases) < n:
        c = gen_hostile(rng)
        if hostile_usable(c):
            cases.append(c)
    for c in cases:
        r = run_impl(c, shadow=False)
        ran += 1
        ctx.case((c.get("label"), tuple(r["snaps"])), nontrivial=r["complete"] > 0)
        ctx.count("hostile:" + str(c.get("label")))
        ctx.count("hostile:closed" if r["closed"] else "hostile:open-idle")
        report(ctx, c, r)
    if cases:
        ctx.sample({"suite": "hostile", "label": cases[-1].get("label"), "steps": cases[-1]["steps"][:3]})
    ctx.close_suite("hostile-oracle", ran)


def run(ctx):
    logging.disable(logging.CRITICAL)
    try:
        ok, exe = build_model()
        ctx.oblige("model-runner-build", "correspondence", ok, "" if ok else exe)
        if not ok:
            exe = None          # no model: the property oracle still searches the implementation for a failing input
        else:
            consts = fw.run_model(exe, ["CONSTS"])[0]
            from aiohttp import web_protocol
            want = "max=%d resume=%d" % (web_protocol.MAX_MSG_QUEUE_SIZE, web_protocol.MAX_MSG_QUEUE_SIZE // 2)
            ctx.oblige("correspondence:constants", "correspondence", consts == want, f"model {consts} / implementation {want}")
        suite_lts(ctx, exe)
        suite_hostile(ctx)
        suite_special(ctx)
    finally:
        logging.disable(logging.NOTSET)


# ----------------------------------------------------------------------------------------------
# known findings

SIGNATURES: dict = {}       # no open known finding: every violation is reported


def replay(ctx, case):
    logging.disable(logging.CRITICAL)
    try:
        shadow = case.get("suite", "lts") == "lts"
        r = run_impl(case, shadow=shadow)
        res = {"impl_snapshots": r["snaps"], "events": " ".join(r["events"]), "wire": bytes.fromhex(r["wire"].rstrip(".")).decode("latin1")[:1500],
               "violates": bool(r["bad"]), "why": [f"{k}: {t}" for k, t in r["bad"]]}
        if shadow:
            ok, exe = build_model()
            if ok:
                m = fw.run_model(exe, ["RUN %d %d %s" % (case.get("ka", KA), case.get("linger", LINGER), " ".join(r["events"]))])[0]
                res["model_snapshots"] = m.split(" | ")
                res["model_agrees"] = len(res["model_snapshots"]) == len(r["snaps"]) and all(
                    snaps_equal(a, b) for a, b in zip(res["model_snapshots"], r["snaps"]))
        return res
    finally:
        logging.disable(logging.NOTSET)
