"""C16 — cookies are sent only where RFC 6265 scoping allows.

Three parties run on every generated history of (Set-Cookie headers, response URL), clock advances,
clear / clear_domain, save+load and filter_cookies(request URL) queries:

  * the real aiohttp.cookiejar.CookieJar (with `time` patched to a virtual integer clock; Set-Cookie
    headers go through the real parse_set_cookie_headers via update_cookies_from_headers);
  * the extracted Coq model (Model/Cookies.v `run`), fed the attribute records the real parser produced
    -> correspondence: the attached (name, value) dict must be equal for every query;
  * an independent RFC 6265 reference store written here from the RFC text, fed the *generated*
    attributes -> property oracle on IMPLEMENTATION output: every attached cookie must be attached by
    the reference store too (domain-match / host-only / path-match / Secure / not expired / not
    overwritten or cleared), and a response may change only cookies whose domain domain-matches its host.
    The Coq reference store (`rfc_run`, the one the theorems speak about) is cross-checked against it.
"""
from __future__ import annotations

import glob
import json
import os
import tempfile
import time as _time

from harness.common import framework as fw

PROP = "C16"
GENERATED = ["CookiesGen.v"]
RULE = ("(plus a session suite: redirect chains through the real ClientSession, one evaluation per hop) histories of 3-16 operations over a lattice of related hosts (parent/child/grand-child/sibling/suffix- and "
        "prefix-lookalikes/trailing-dot/IPv4/IPv6/IP-lookalike), paths and schemes, each followed by a sweep of "
        "filter_cookies over hosts x paths x {http,https}; every cookie value is unique so an attached cookie "
        "identifies the Set-Cookie that created it.  One evaluation = one filter_cookies query compared on "
        "implementation, model and reference; non-trivial = at least one cookie attached; distinct by hash of "
        "(query URL, attached dict, reference set).")
TRUSTED = [
    "translator/gen_cookies.py (constants, expiry formulas and comparison directions, ast shapes of _is_domain_match / is_ip_address)",
    "extraction: ExtrOcamlBasic only; ocaml/common/conv.ml + ocaml/C16/driver.ml (hex I/O, sorting of answers)",
    "correspondence harness harness/c16.py: sampled, not proved; the RFC 6265 reference store in it is hand-written from the RFC text",
    "not modelled, but compared on every run with the RFC 6265 5.2 / 5.1.1 reference parser of this harness (suite set_cookie_parser), "
    "whose records also feed the end-to-end oracle: aiohttp._cookie_helpers.parse_set_cookie_headers, http.cookies.Morsel, CookieJar._parse_date; "
    "oracles: int() on Max-Age, yarl.URL (raw_host, path, scheme), json + file I/O of save/load, "
    "Morsel value quoting in _build_morsel",
    "treat_as_secure_origin: request secure-ness (scheme, or exact origin among the declared ones) is computed by the harness and given to model and reference",
    "not modelled: quote_cookie=False, cookies set without a response URL (shared cookies), the morsel cache",
]
ASSUMPTIONS = [
    "Response and request URLs have a host; request paths are yarl's decoded .path (percent-encoded slashes are outside the generated domain).",
    "Time is the patched clock, moving in ticks of 1/8 s (exact floats); 'expired' means deadline <= now (the jar's own boundary).",
    "Model/implementation agreement is validated on the generated histories only.",
]

T0 = 1_700_000_000
# time.time() is a float and the jar adds Max-Age to it unrounded: the virtual clock moves in ticks of 1/8 s (exact in
# binary floating point, so the jar's float sums and comparisons are exact); model and reference count in ticks.
TICKS = 8


def ticks(seconds) -> int:
    t = seconds * TICKS
    if t != int(t):
        raise ValueError(f"clock step {seconds} is not a multiple of 1/{TICKS} s")
    return int(t)


HOSTS = ["example.com", "sub.example.com", "a.sub.example.com", "other.example.com", "badexample.com", "ample.com",
         "example.com.evil.org", "com", "example.org", "example.com.", "1.2.3.4", "4.3.2.1", "x.1.2.3.4", "[::1]", "3.4"]
DOMAIN_ATTRS = [None, None, None, "example.com", ".example.com", "sub.example.com", "a.sub.example.com", "other.example.com",
                "com", ".com", "ample.com", "example.com.", "example.org", "1.2.3.4", "3.4", "2.3.4",
                "evil.org", "..example.com", ".", "sub.example.com."]
REQ_PATHS = ["/", "/foo", "/foo/", "/foo/bar", "/foobar", "/foo//", "/foo/x", "/foo/xy", "/bar", "/foo/bar/baz"]
SWEEP_PATHS = ["/", "/foo", "/foo/", "/foo/bar", "/foobar", "/foo/xy"]
PATH_ATTRS = [None, None, None, "/", "/foo", "/foo/", "/foo/bar", "/bar", "foo", "/foo//", "/foo/bar/"]
NAMES = ["a", "a", "b", "c"]
SCHEMES = ["http", "https", "http", "https", "ws", "wss"]


def split_host(h):
    """'example.com:8443' / '[::1]:80' / '[::1]' / 'example.com' -> (raw host, port or None)"""
    if h.startswith("["):
        host, _, rest = h[1:].partition("]")
        return host, (int(rest[1:]) if rest.startswith(":") else None)
    host, sep, port = h.partition(":")
    return host, (int(port) if sep else None)


def raw_host(h):
    return split_host(h)[0]


DEFAULT_PORT = {"http": 80, "ws": 80, "https": 443, "wss": 443}


def origin_of(sch, h):
    host, port = split_host(h)
    return (sch, host, port if port is not None else DEFAULT_PORT[sch])


def parse_origin(o: str):
    sch, _, rest = o.partition("://")
    return origin_of(sch, rest.rstrip("/"))


def is_secure(case, sch, h) -> bool:
    """A request is secure if its scheme is, or its ORIGIN (scheme, host, port) is one the jar was told to treat
    as secure (CookieJar(treat_as_secure_origin=...)); computed here, independently of the jar."""
    return secure_scheme(sch) or origin_of(sch, h) in {parse_origin(o) for o in case.get("secure_origins") or []}


def secure_scheme(s):
    return s in ("https", "wss")


# ---------------------------------------------------------------------------------------------
# independent RFC 6265 reference (section numbers refer to the RFC)

def rfc_is_ip(h: str) -> bool:
    if ":" in h:
        return True
    parts = h.split(".")
    return all(p.isdigit() and p.isascii() for p in parts if p != "") and any(p != "" for p in parts)


def rfc_domain_match(domain: str, host: str) -> bool:          # 5.1.3
    if domain == host:
        return True
    return (domain != "" and host.endswith(domain) and host[: len(host) - len(domain)].endswith(".")
            and not rfc_is_ip(host))


def rfc_default_path(upath: str) -> str:                       # 5.1.4
    if not upath.startswith("/"):
        return "/"
    if upath.count("/") == 1:
        return "/"
    return upath[: upath.rfind("/")]


def rfc_path_match(cpath: str, rpath: str) -> bool:            # 5.1.4
    if cpath == rpath:
        return True
    if rpath.startswith(cpath):
        return cpath.endswith("/") or rpath[len(cpath)] == "/"
    return False


def rfc_max_age(s):
    """5.2.2: ignore unless -?DIGIT+ ; returns int or None."""
    if s is None or s == "":
        return None
    body = s[1:] if s[0] == "-" else s
    if body == "" or not (body.isascii() and body.isdigit()):
        return None
    return int(s)


_MONTHS = ["jan", "feb", "mar", "apr", "may", "jun", "jul", "aug", "sep", "oct", "nov", "dec"]


def parse_http_date(v: str):
    """RFC 6265 5.1.1 cookie-date, written here from the RFC (independent of CookieJar._parse_date)."""
    import calendar
    import re
    delim = lambda c: c == "\t" or " " <= c <= "/" or ";" <= c <= "@" or "[" <= c <= "`" or "{" <= c <= "~"  # noqa: E731
    tokens, cur = [], ""
    for c in v:
        if delim(c):
            if cur:
                tokens.append(cur)
            cur = ""
        else:
            cur += c
    if cur:
        tokens.append(cur)
    tm = dom = mon = yr = None
    for tok in tokens:
        m = re.match(r"(\d{1,2}):(\d{1,2}):(\d{1,2})(?!\d)", tok)
        if tm is None and m:
            tm = tuple(int(x) for x in m.groups())
            continue
        m = re.match(r"(\d{1,2})(?!\d)", tok)
        if dom is None and m:
            dom = int(m.group(1))
            continue
        if mon is None and tok[:3].lower() in _MONTHS:
            mon = _MONTHS.index(tok[:3].lower()) + 1
            continue
        m = re.match(r"(\d{2,4})(?!\d)", tok)
        if yr is None and m:
            yr = int(m.group(1))
    if None in (tm, dom, mon, yr):
        return None
    if 70 <= yr <= 99:
        yr += 1900
    elif 0 <= yr <= 69:
        yr += 2000
    if not 1 <= dom <= 31 or yr < 1601 or tm[0] > 23 or tm[1] > 59 or tm[2] > 59:
        return None
    return calendar.timegm((yr, mon, dom, tm[0], tm[1], tm[2], -1, -1, -1))


def rfc_parse_set_cookie(header: str) -> dict:
    """RFC 6265 5.2 on the Set-Cookie string AS WRITTEN (this is what the reference store is fed; the model is fed
    what aiohttp's parser produced).  cookie-avs are processed in order, the last one of a name wins; a Domain
    with an empty value is ignored (5.2.3)."""
    parts = header.split(";")
    name, _, value = parts[0].partition("=")
    a = dict(name=name.strip(), value=value.strip(), domain=None, path=None, secure=False, max_age=None, expires=None)
    for av in parts[1:]:
        k, _, v = av.partition("=")
        k, v = k.strip().lower(), v.strip()
        if k == "domain":
            if v:
                a["domain"] = v
        elif k == "path":
            a["path"] = v or None
        elif k == "secure":
            a["secure"] = True
        elif k == "max-age":
            a["max_age"] = v or None
        elif k == "expires":
            a["expires"] = (v, parse_http_date(v)) if v else None
    return a


class RefStore:
    """RFC 6265 section 5.3 storage model + 5.4 retrieval, for what this property is about."""

    def __init__(self, unsafe=False):
        self.cookies = []    # dicts: name value domain path host_only secure expiry src
        self.unsafe = unsafe
        self.gone = {}       # value -> why the reference store does not hold that cookie (for diagnostics)

    def set(self, host, upath, a, now, src):
        if not self.unsafe and rfc_is_ip(host):
            self.gone[a["value"]] = f"never stored: response host {host} is an IP address and the jar is not unsafe"
            return                    # 5.2: a user agent MAY ignore Set-Cookie; the jar's policy is "from IP hosts, unless unsafe"
        dom = a["domain"] or ""
        if dom.endswith("."):            # the jar ignores such an attribute; adopted by the reference
            dom = ""
        if dom.startswith("."):
            dom = dom[1:]
        dom = dom.lower()
        if dom:
            if not rfc_domain_match(dom, host):
                self.gone[a["value"]] = f"never stored: response host {host} does not domain-match Domain={dom}"
                return                    # 5.3 step 6: ignore the cookie entirely
            host_only, domain = False, dom
        else:
            host_only, domain = True, host
        path = a["path"] if (a["path"] or "").startswith("/") else rfc_default_path(upath)
        ma = rfc_max_age(a["max_age"])          # `now` and expiry are in ticks
        if ma is not None:
            expiry = now + ma * TICKS
        elif a["expires"] is not None and a["expires"][1] is not None:
            expiry = a["expires"][1] * TICKS
        else:
            expiry = None
        c = dict(name=a["name"], value=a["value"], domain=domain, path=path, host_only=host_only,
                 secure=bool(a["secure"]), expiry=expiry, src=src)
        for x in self.cookies:
            if (x["name"], x["domain"], x["path"]) == (c["name"], domain, path):
                self.gone[x["value"]] = f"replaced by {c['name']}={c['value']} (same name, domain {domain}, path {path})"
        self.cookies = [x for x in self.cookies if (x["name"], x["domain"], x["path"]) != (c["name"], domain, path)]
        self.cookies.append(c)

    def clear(self):
        for x in self.cookies:
            self.gone[x["value"]] = "removed by clear()"
        self.cookies = []

    def clear_domain(self, d):
        for x in self.cookies:
            if rfc_domain_match(d, x["domain"]):
                self.gone[x["value"]] = f"removed by clear_domain({d})"
        self.cookies = [c for c in self.cookies if not rfc_domain_match(d, c["domain"])]

    @staticmethod
    def why_not(c, host, rpath, secure, now):
        if c["host_only"]:
            if c["domain"] != host:
                return "host_only"
        elif not rfc_domain_match(c["domain"], host):
            return "domain"
        if not rfc_path_match(c["path"], rpath):
            return "path"
        if c["secure"] and not secure:
            return "secure"
        if c["expiry"] is not None and not (now < c["expiry"]):
            return "expired"
        return None

    def filter(self, host, rpath, secure, now):
        return sorted({(c["name"], c["value"]) for c in self.cookies if self.why_not(c, host, rpath, secure, now) is None})


# ---------------------------------------------------------------------------------------------
# generation

DATE_STYLES = ["rfc1123", "rfc1123", "rfc850", "rfc850", "asctime", "rfc1123z"]


def http_date(t: int, style: str = "rfc1123") -> str:
    """The date syntaxes servers write in Expires (RFC 7231 7.1.1.1 + the numeric-zone variant aiohttp accepts)."""
    g = _time.gmtime(t)
    if style == "rfc850":
        return _time.strftime("%A, %d-%b-%y %H:%M:%S GMT", g)       # Saturday, 09-Jan-27 08:00:00 GMT
    if style == "asctime":
        return _time.strftime("%a %b ", g) + "%2d" % g.tm_mday + _time.strftime(" %H:%M:%S %Y", g)   # Sat Jan  9 08:00:00 2027
    if style == "rfc1123z":
        return _time.strftime("%a, %d %b %Y %H:%M:%S +0000", g)
    return _time.strftime("%a, %d %b %Y %H:%M:%S GMT", g)


class Gen:
    def __init__(self, rng):
        self.rng = rng
        self.n = 0

    def attrs(self, now):
        r = self.rng
        self.n += 1
        a = dict(name=r.choice(NAMES), value=f"v{self.n}", domain=r.choice(DOMAIN_ATTRS), path=r.choice(PATH_ATTRS),
                 secure=r.random() < 0.25, max_age=None, expires=None)
        x = r.random()
        if x < 0.22:
            a["max_age"] = r.choice(["0", "-1", "5", "10", "100", "5", "10", "99999999999999", "abc"])
        if 0.12 < x < 0.40:
            k = r.random()
            if k < 0.12:
                a["expires"] = (http_date(0, r.choice(DATE_STYLES)), 0)
            elif k < 0.18:
                a["expires"] = (http_date(1, r.choice(DATE_STYLES)), 1)
            elif k < 0.26:
                a["expires"] = ("garbage", None)
            else:
                t = int(now) + r.choice([-100, -5, 0, 5, 6, 10, 50, 100]) + 86400 * r.choice([0, 0, 0, 0] + list(range(-7, 8)))
                a["expires"] = (http_date(t, r.choice(DATE_STYLES)), t)
        return dress(a, r) if r.random() < 0.5 else a

    def url(self, paths):
        r = self.rng
        return [r.choice(SCHEMES), r.choice(HOSTS if r.random() < 0.7 else HOSTS[:4]), r.choice(paths)]

    def touch(self, ops, p):
        """With probability p, query a URL the cookie just set should match (this is what fills the jar's cache of
        built morsels, so that a later overwrite / expiry / reload has something stale to serve)."""
        r = self.rng
        if r.random() < p:
            _, (sch, h, up), attrs = ops[-1]
            a = attrs[-1]
            path = a["path"] if (a["path"] or "").startswith("/") else up
            ops.append(["filter", ["https" if a["secure"] else sch, h, (path.rstrip("/") + r.choice(["", "/", "/x"])) or "/"]])

    def churn(self):
        """Long history re-scheduling deadlines of a few cookies: drives the expiry heap past the clean-up threshold
        (_MIN_SCHEDULED_COOKIE_EXPIRATION entries and more than twice the live deadlines)."""
        r = self.rng
        self.n = 0
        ops, now = [], T0
        for i in range(r.randint(110, 170)):
            self.n += 1
            a = dict(name=r.choice(["a", "b", "c", "d"]), value=f"v{self.n}", domain=r.choice([None, "example.com"]),
                     path=r.choice([None, "/foo"]), secure=False,
                     max_age=str(r.choice([300 + r.randint(0, 200), 300 + i, 100000 + i])), expires=None)
            ops.append(["set", ["http", r.choice(["example.com", "sub.example.com"]), "/"], [a]])
            x = r.random()
            if x < 0.08:
                dt = r.choice([1, 2, 3])
                now += dt
                ops.append(["advance", dt])
            elif x < 0.16:
                ops.append(["filter", ["http", r.choice(["example.com", "sub.example.com"]), r.choice(["/", "/foo"])]])
            elif x < 0.17:
                ops.append(["save_load"])
        # let every short deadline pass before the final sweep
        ops.append(["advance", 1000])
        return {"unsafe": False, "t0": T0, "ops": ops, "sweep": True}

    def focused(self):
        """Few hosts, one or two names, short deadlines: histories in which cookies collide on (domain, name),
        are overwritten across host-only / Domain=, expire one by one and go through save+load."""
        r = self.rng
        self.n = 0
        ops, now = [], T0
        hosts = r.choice([["example.com", "sub.example.com"], ["example.com", "sub.example.com", "a.sub.example.com"],
                          ["example.com.", "example.com"], ["1.2.3.4", "x.1.2.3.4", "3.4"]])
        names = r.choice([["a"], ["a", "b"]])
        for _ in range(r.randint(4, 14)):
            x = r.random()
            if x < 0.5:
                self.n += 1
                h = r.choice(hosts)
                a = dict(name=r.choice(names), value=f"v{self.n}", domain=r.choice([None, None, hosts[0], "." + hosts[0], h]),
                         path=r.choice([None, "/foo", "/bar", "/foo/", "/foo/bar"]), secure=r.random() < 0.15,
                         max_age=r.choice([None, None, "5", "10", "0"]), expires=None)
                if a["max_age"] is None and r.random() < 0.3:
                    t = int(now) + r.choice([5, 10, -5])
                    a["expires"] = (http_date(t, r.choice(DATE_STYLES)), t)
                if r.random() < 0.4:
                    dress(a, r)
                ops.append(["set", [r.choice(["http", "https"]), h, r.choice(["/", "/foo/x", "/bar"])], [a]])
                self.touch(ops, 0.35)
            elif x < 0.68:
                dt = r.choice([1, 5, 5, 6, 10, 0.125, 0.25, 0.5, 0.875, 4.5, 9.875])
                now += dt
                ops.append(["advance", dt])
            elif x < 0.80:
                ops.append(["save_load"])
            elif x < 0.85:
                ops.append(["clear_domain", r.choice(hosts)])
            else:
                ops.append(["filter", [r.choice(["http", "https"]), r.choice(hosts), r.choice(["/", "/foo", "/bar", "/foo/bar"])]])
        return {"unsafe": hosts[0][0].isdigit() or r.random() < 0.1, "t0": T0, "ops": ops, "sweep": True}

    def secure_origin(self):
        """Jar configured with treat_as_secure_origin: Secure cookies, and queries on the declared origins and on other
        ports / schemes of the same hosts (only the exact origin -- scheme, host, port -- counts as secure)."""
        r = self.rng
        self.n = 0
        origins = r.choice([["http://example.com:8443"], ["http://sub.example.com"], ["http://example.com"],
                            ["http://example.com:8443", "ws://sub.example.com:9000"], ["ws://example.com:8080", "http://other.example.com:8080"]])
        hosts = ["example.com", "sub.example.com", "other.example.com"]
        ports = ["", ":8443", ":8080", ":9000"]     # no explicit default ports: yarl's origin() of http://h:80 != http://h
        ops = []
        for _ in range(r.randint(3, 9)):
            if r.random() < 0.5:
                self.n += 1
                a = dict(name=r.choice(["a", "b"]), value=f"v{self.n}", domain=r.choice([None, "example.com", None]),
                         path=r.choice([None, "/foo"]), secure=r.random() < 0.8, max_age=None, expires=None)
                if r.random() < 0.3:
                    dress(a, r)
                ops.append(["set", [r.choice(["https", "http"]), r.choice(hosts) + r.choice(ports), "/"], [a]])
            else:
                ops.append(["filter", [r.choice(["http", "ws", "https", "http"]), r.choice(hosts) + r.choice(ports), r.choice(["/", "/foo"])]])
            if r.random() < 0.1:
                ops.append(["save_load"])
        return {"unsafe": False, "t0": T0, "ops": ops, "sweep": True, "secure_origins": origins}

    def refresh(self):
        """The same cookie is re-sent by several responses a fraction of a second (or exactly one, or a few seconds)
        apart -- session-refresh middleware -- so its deadline moves by less than a second each time; then the clock
        passes the last deadline by a fraction of a second, by seconds, by an hour."""
        r = self.rng
        self.n = 0
        ops, now = [], T0 + r.choice([0, 0.5, 0.875])
        if now != T0:
            ops.append(["advance", now - T0])
        host = r.choice(["example.com", "sub.example.com"])
        name, path = r.choice(["a", "b"]), r.choice([None, "/foo"])
        dom = r.choice([None, None, "example.com"])
        keep_max_age = r.random() < 0.7
        max_age = r.choice([1, 2, 5, 60])
        deadline = None
        for i in range(r.randint(2, 5)):
            self.n += 1
            a = dict(name=name, value=f"v{self.n}", domain=dom, path=path, secure=False, max_age=None, expires=None)
            if keep_max_age or r.random() < 0.6:
                a["max_age"] = str(max_age if keep_max_age else r.choice([1, 2, 5]))
                deadline = now + int(a["max_age"])
            else:
                t = int(now) + r.choice([1, 2, 5])
                a["expires"] = (http_date(t, r.choice(DATE_STYLES)), t)
                deadline = t
            if r.random() < 0.3:
                dress(a, r)
            ops.append(["set", ["https", host, "/"], [a]])
            if r.random() < 0.25:
                ops.append(["filter", ["https", host, path or "/"]])
            if r.random() < 0.15:
                ops.append(["save_load"])
            gap = r.choice([0.125, 0.25, 0.25, 0.5, 0.875, 0.875, 1, 1.125, 3, 0])
            now += gap
            ops.append(["advance", gap])
        if deadline is not None and deadline > now:
            wait = deadline - now + r.choice([-0.125, 0, 0.125, 0.5, 1, 60, 3600])
            if wait > 0:
                now += wait
                ops.append(["advance", wait])
        ops.append(["filter", ["https", host, path or "/"]])
        return {"unsafe": False, "t0": T0, "ops": ops, "sweep": True}

    def history(self):
        r = self.rng
        x = r.random()
        if x < 0.3:
            return self.focused()
        if x < 0.4:
            return self.refresh()
        if x < 0.5:
            return self.secure_origin()
        self.n = 0
        ops = []
        now = T0
        for _ in range(r.randint(3, 16)):
            x = r.random()
            if x < 0.42:
                u = self.url(REQ_PATHS)
                ops.append(["set", u, [self.attrs(now) for _ in range(1 if r.random() < 0.8 else 2)]])
                self.touch(ops, 0.2)
            elif x < 0.57:
                dt = r.choice([0, 1, 4, 5, 6, 10, 45, 50, 100, 0.25, 0.5, 0.875, 4.75, 9.5, 86400 * 3, 86400 * 8])
                now += dt
                ops.append(["advance", dt])
            elif x < 0.60:
                ops.append(["clear"])
            elif x < 0.66:
                ops.append(["clear_domain", r.choice(["example.com", "sub.example.com", "com", "example.org", "1.2.3.4", "other.example.com"])])
            elif x < 0.76:
                ops.append(["save_load"])
            else:
                ops.append(["filter", self.url(REQ_PATHS)])
        return {"unsafe": r.random() < 0.2, "t0": T0, "ops": ops, "sweep": True}


def dress(a, r):
    """Write the cookie's attributes in a random order, with empty-valued attributes (`Domain=`, `Path=`,
    `Max-Age=`, `Expires=`) for the ones it does not have, HttpOnly / SameSite noise and mixed-case names."""
    avs = []
    for key, val in (("Domain", a["domain"]), ("Path", a["path"]), ("Max-Age", a["max_age"]),
                     ("Expires", a["expires"][0] if a["expires"] is not None else None)):
        if val is not None:
            avs.append(f"{key}={val}")
        elif r.random() < 0.3:
            avs.append(f"{key}=")
    if a["secure"]:
        avs.append(r.choice(["Secure", "Secure", "secure", "SECURE"]))
    if r.random() < 0.2:
        avs.append("HttpOnly")
    if r.random() < 0.1:
        avs.append("SameSite=Lax")
    r.shuffle(avs)
    if r.random() < 0.3:
        avs = [x.lower() if r.random() < 0.5 and not x.startswith("Expires=") else x for x in avs]
    a["header"] = "; ".join([f"{a['name']}={a['value']}"] + avs)
    return a


def header_of(a) -> str:
    if a.get("header"):
        return a["header"]
    s = f"{a['name']}={a['value']}"
    if a["domain"] is not None:
        s += f"; Domain={a['domain']}"
    if a["path"] is not None:
        s += f"; Path={a['path']}"
    if a["secure"]:
        s += "; Secure"
    if a["max_age"] is not None:
        s += f"; Max-Age={a['max_age']}"
    if a["expires"] is not None:
        s += f"; Expires={a['expires'][0]}"
    return s


def expand(case):
    """Operation list with the final sweep appended as explicit filter ops."""
    ops = list(case["ops"])
    if case.get("sweep"):
        for h in HOSTS:
            for p in SWEEP_PATHS:
                for sch in ("http", "https"):
                    ops.append(["filter", [sch, h, p]])
        if case.get("secure_origins"):
            hosts = sorted({parse_origin(o)[1] for o in case["secure_origins"]} | {"example.com", "sub.example.com"})
            for h in hosts:
                for port in ("", ":8443", ":8080", ":9000"):
                    for sch in ("http", "ws", "https"):
                        for p in ("/", "/foo"):
                            ops.append(["filter", [sch, h + port, p]])
    return ops


# ---------------------------------------------------------------------------------------------
# running one history on the implementation (+ reference), producing the model request

def hx(s: str) -> str:
    return s.encode("utf-8").hex() if s else "-"


class FakeTime:
    """`t` is in ticks; time() is the exact float t / TICKS."""

    def __init__(self, t):
        self.t = t

    def time(self):
        return self.t / TICKS

    @property
    def seconds(self):
        return self.t / TICKS

    def __getattr__(self, n):
        return getattr(_time, n)


def snapshot(jar):
    return {(d, p, n): m.value for (d, p), sc in jar.cookies.items() for n, m in sc.items()}


def run_impl(case, tmpdir):
    """-> (model_line, impl_outputs, ref_outputs, violations, meta)"""
    from yarl import URL
    import aiohttp.cookiejar as cj
    from aiohttp._cookie_helpers import parse_set_cookie_headers

    ops = expand(case)
    clock = FakeTime(ticks(case["t0"]))
    real_time = cj.time
    cj.time = clock
    viol = []
    try:
        so = case.get("secure_origins") or []
        jar = cj.CookieJar(unsafe=case["unsafe"],
                           treat_as_secure_origin=(None if not so else (so[0] if len(so) == 1 else [URL(o) for o in so])))
        ref = RefStore(case["unsafe"])
        words = []
        impl_out, ref_out, queries = [], [], []
        for idx, op in enumerate(ops):
            kind = op[0]
            if kind == "set":
                sch, h, p = op[1]
                url = URL(f"{sch}://{h}{p}")
                hdrs = [header_of(a) for a in op[2]]
                host, upath = url.raw_host or "", url.path
                before = snapshot(jar)
                ho_before = set(jar.host_only_cookies)
                jar.update_cookies_from_headers(hdrs, url)
                after = snapshot(jar)
                # "a response can set or overwrite cookies only within its own host's domain"
                for k, v in after.items():
                    if before.get(k) != v and not rfc_domain_match(k[0], raw_host(h)):
                        viol.append((idx, None, {"kind": "set_foreign_domain", "key": list(k), "setter": h},
                                     f"response from {h} stored/overwrote cookie {k} whose domain does not domain-match it"))
                for k in set(jar.host_only_cookies) - ho_before:
                    if k[0] != raw_host(h):
                        viol.append((idx, None, {"kind": "host_only_foreign", "key": list(k), "setter": h},
                                     f"response from {h} marked {k} host-only"))
                ms = []
                for (name, mo), a in zip(parse_set_cookie_headers(hdrs), op[2]):
                    ma = mo["max-age"]
                    if not ma:
                        mas = "n"
                    else:
                        try:
                            mas = "v%d" % int(ma)
                        except ValueError:
                            mas = "x"
                    ex = mo["expires"]
                    if not ex:
                        exs = "n"
                    else:
                        t = cj.CookieJar._parse_date(ex)
                        exs = "x" if t is None else "v%d" % (t * TICKS)
                    ms.append("/".join([hx(name), hx(mo.value), hx(mo["domain"]), hx(mo["path"]),
                                        "1" if mo["secure"] else "0", mas, exs]))
                if len(ms) != len(op[2]):
                    raise RuntimeError("parser oracle dropped a generated cookie: %r" % hdrs)
                words.append(":".join(["S", "1" if secure_scheme(sch) else "0", hx(host), hx(upath), "+".join(ms)]))
                for hd in hdrs:           # the reference store reads the header as written (own RFC 5.2 parser)
                    ref.set(raw_host(h), upath, rfc_parse_set_cookie(hd), clock.t, idx)
            elif kind == "advance":
                clock.t += ticks(op[1])
                words.append(f"T:{ticks(op[1])}")
            elif kind == "clear":
                jar.clear()
                ref.clear()
                words.append("C")
            elif kind == "clear_domain":
                jar.clear_domain(op[1])
                ref.clear_domain(op[1])
                words.append("D:" + hx(op[1]))
            elif kind == "save_load":
                fn = os.path.join(tmpdir, "jar.json")
                jar.save(fn)
                jar.load(fn)
                words.append("L")
            elif kind == "filter":
                sch, h, p = op[1]
                url = URL(f"{sch}://{h}{p}")
                got = sorted((k, m.value) for k, m in jar.filter_cookies(url).items())
                rpath = url.path           # yarl is the oracle for URL -> request path ("" becomes "/")
                sec = is_secure(case, sch, h)
                allowed = ref.filter(raw_host(h), rpath, sec, clock.t)
                impl_out.append(got)
                ref_out.append(allowed)
                queries.append((idx, sch, h, p, clock.seconds))
                words.append(":".join(["F", "1" if sec else "0", hx(url.raw_host or ""), hx(url.path)]))
                for nv in got:
                    if tuple(nv) not in allowed:
                        cands = [c for c in ref.cookies if c["value"] == nv[1]]
                        if cands:
                            c = cands[0]
                            why = ref.why_not(c, raw_host(h), rpath, sec, clock.t)
                            src = ops[c["src"]]
                            a = [x for x in src[2] if x["value"] == nv[1]][0]
                            shown = {k: c[k] for k in ("name", "domain", "path", "host_only", "secure")}
                            shown["expiry"] = None if c["expiry"] is None else c["expiry"] / TICKS
                            diag = {"kind": why, "cookie": shown, "attrs": a, "set_by": src[1], "now": clock.seconds}
                        else:
                            diag = {"kind": "not_in_reference_store", "why": ref.gone.get(nv[1], "unknown value"), "now": clock.seconds}
                        viol.append((idx, list(nv), diag,
                                     f"{sch}://{h}{p} at t={clock.seconds}: cookie {nv[0]}={nv[1]} attached, but RFC 6265 forbids it "
                                     f"({diag['kind']}): {json.dumps(diag, default=str)[:400]}"))
            else:
                raise ValueError(kind)
        line = "H %d %d %s" % (1 if case["unsafe"] else 0, ticks(case["t0"]), " ".join(words))
        return line, impl_out, ref_out, viol, queries
    finally:
        cj.time = real_time


def parse_model(ans: str):
    """-> (jar outputs, reference outputs) as sorted lists of (name, value)."""
    if ans.startswith("EXN") or ans == "BADREQ":
        raise RuntimeError("model driver: " + ans)
    ans = ans.split(" # ")[0]
    if ans == "-":
        return [], []

    def dec(s):
        if s == "-":
            return []
        out = []
        for it in s.split(","):
            n, v = it.split("~")
            out.append((fw.unhex(n).decode(), fw.unhex(v).decode()))
        return sorted(out)
    js, rs = [], []
    for part in ans.split("|"):
        j, r = part.split(";")
        js.append(dec(j[2:]))
        rs.append(dec(r[2:]))
    return js, rs


# ---------------------------------------------------------------------------------------------
# known-finding signatures (family predicates over violation cases)

def _diag(case):
    return case.get("diag") or {}


def sig_expires_epoch_zero(case, params):
    d = _diag(case)
    a = d.get("attrs") or {}
    return (d.get("kind") == "expired" and a.get("expires") is not None and a["expires"][1] == 0
            and rfc_max_age(a.get("max_age")) is None and d.get("cookie", {}).get("expiry") == 0)


def sig_path_extra_trailing_slashes(case, params):
    d = _diag(case)
    p = (d.get("attrs") or {}).get("path") or ""
    return d.get("kind") == "path" and p.endswith("//")


def sig_invalid_max_age_masks_expires(case, params):
    d = _diag(case)
    a = d.get("attrs") or {}
    return (d.get("kind") == "expired" and a.get("max_age") not in (None, "") and rfc_max_age(a.get("max_age")) is None
            and a.get("expires") is not None and a["expires"][1] not in (None, 0))


SIGNATURES = {
    "expires_epoch_zero": sig_expires_epoch_zero,
    "path_extra_trailing_slashes": sig_path_extra_trailing_slashes,
    "invalid_max_age_masks_expires": sig_invalid_max_age_masks_expires,
}


def is_known(case):
    """Matches the signature of an OPEN known finding (fixed entries suppress nothing)."""
    for k in fw.load_known():
        if k.get("property") != PROP or not str(k.get("status", "")).startswith("open"):
            continue
        sig = k.get("signature") or {}
        pred = SIGNATURES.get(sig.get("kind"))
        if pred and pred(case, sig.get("params") or {}):
            return True
    return False


# ---------------------------------------------------------------------------------------------

def build_model():
    return fw.ocaml_model("C16", ["Model/Cookies.vo"])


def violation_case(case, v):
    idx, sent, diag, what = v
    vc = {"suite": "history", "unsafe": case["unsafe"], "t0": case["t0"], "ops": case["ops"], "sweep": case.get("sweep", False),
          "at": idx, "sent": sent, "diag": diag}
    if case.get("secure_origins"):
        vc["secure_origins"] = case["secure_origins"]
    return vc, what


def shrink(case, kind, tmpdir, budget=120):
    """Drop operations (and the sweep) while a violation of the same kind remains."""
    def bad(c):
        try:
            _, _, _, viol, _ = run_impl(c, tmpdir)
        except Exception:  # noqa
            return None
        for v in viol:
            vc, _ = violation_case(c, v)
            if v[2].get("kind") == kind and not is_known(vc):
                return v
        return None
    cur = dict(case)
    v = bad(cur)
    if v is None:
        return case, None
    # replace the sweep by the one failing query
    if cur.get("sweep"):
        ops = expand(cur)
        trial = dict(cur, ops=cur["ops"] + [ops[v[0]]], sweep=False) if v[0] >= len(cur["ops"]) else dict(cur, sweep=False)
        tv = bad(trial)
        if tv is not None:
            cur, v = trial, tv
    changed = True
    while changed and budget > 0:
        changed = False
        for i in range(len(cur["ops"]) - 1, -1, -1):
            budget -= 1
            trial = dict(cur, ops=cur["ops"][:i] + cur["ops"][i + 1:])
            tv = bad(trial)
            if tv is not None:
                cur, v, changed = trial, tv, True
                break
            if cur["ops"][i][0] == "set" and len(cur["ops"][i][2]) > 1:
                for j in range(len(cur["ops"][i][2])):
                    o = cur["ops"][i]
                    trial = dict(cur, ops=cur["ops"][:i] + [[o[0], o[1], o[2][:j] + o[2][j + 1:]]] + cur["ops"][i + 1:])
                    tv = bad(trial)
                    if tv is not None:
                        cur, v, changed = trial, tv, True
                        break
                if changed:
                    break
    return cur, v


def check_history(ctx, exe, case, tmpdir, suite, result=None, model_ans=None):
    """Run one history everywhere; returns number of queries."""
    line, impl_out, ref_out, viol, queries = result if result is not None else run_impl(case, tmpdir)
    if model_ans is None and exe is not None:
        model_ans = fw.run_model(exe, [line])[0]
    if model_ans is None:
        # no model runner (its build is a broken obligation): the search oracle still runs on the implementation
        mj, mr = impl_out, ref_out
    else:
        mj, mr = parse_model(model_ans)
    if len(mj) != len(impl_out):
        ctx.disagreement(suite, case, f"{len(mj)} answers", f"{len(impl_out)} queries")
        return 0
    # the Coq reference compares Domain case-sensitively (as the jar does); the hand-written one lower-cases it
    # (RFC 5.2.3), so with an upper-case Domain attribute the Coq reference may hold a subset
    upper = any(a["domain"] and a["domain"] != a["domain"].lower() for op in case["ops"] if op[0] == "set" for a in op[2])
    for q, got, m, allowed, r in zip(queries, impl_out, mj, ref_out, mr):
        ctx.case((q[1:4], tuple(got), tuple(allowed)), nontrivial=bool(got))
        if got != m:
            ctx.disagreement(suite, dict(case, at=q[0], query=list(q[1:4])), m, got)
        # the Coq reference store (what the theorems are about) against the hand-written RFC reference
        if (r != allowed) if not upper else (not set(r) <= set(allowed)):
            ctx.disagreement("reference_store", dict(case, at=q[0], query=list(q[1:4])), r, allowed)
        ctx.count("attached:%d" % min(len(got), 3))
        if len(allowed) > len(got):
            ctx.count("undersend(benign, not a violation)")
    for v in viol:
        vc, what = violation_case(case, v)
        if not is_known(vc) and len(ctx.violations) < 2:
            small, sv = shrink(case, v[2].get("kind"), tmpdir)
            if sv is not None:
                vc, what = violation_case(small, sv)
        ctx.violation(vc, what)
    return len(queries)


def suite_domain_match(ctx, exe):
    """Unit level: CookieJar._is_domain_match / is_ip_address against the model and the RFC predicate."""
    from aiohttp.cookiejar import CookieJar
    from aiohttp.helpers import is_ip_address
    doms = sorted({d for d in DOMAIN_ATTRS if d} | {raw_host(h) for h in HOSTS} | {"", "e.com", "xample.com", "b.example.com", "sub.example.com.evil.org", "Example.com", "EXAMPLE.COM"})
    hosts = sorted({raw_host(h) for h in HOSTS} | {"sub.example.org", "notexample.com", "a.b.example.com"})
    pairs = [(d, h) for d in doms for h in hosts]
    lines = ["DM %s %s" % (hx(d), hx(h)) for d, h in pairs] + ["IP " + hx(h) for h in doms + hosts]
    if exe is None:
        from aiohttp.cookiejar import CookieJar as _CJ
        from aiohttp.helpers import is_ip_address as _ip
        ans = [("1 1" if _CJ._is_domain_match(d, h) else "0 0") for d, h in pairs] + [("1" if _ip(h) else "0") for h in doms + hosts]
    else:
        ans = fw.run_model(exe, lines)
    n = 0
    for (d, h), a in zip(pairs, ans):
        got = CookieJar._is_domain_match(d, h)
        n += 1
        ctx.case(("dm", d, h, got), nontrivial=got)
        if a.split()[0] != ("1" if got else "0"):
            ctx.disagreement("domain_match", {"domain": d, "host": h}, a, got)
        if got and d and not rfc_domain_match(d, h) and len(ctx.violations) < 8:
            ctx.violation({"suite": "domain_match", "domain": d, "host": h, "diag": {"kind": "domain_match"}},
                          f"_is_domain_match({d!r}, {h!r}) is True but {h!r} does not domain-match {d!r} (RFC 6265 5.1.3)")
    for h, a in zip(doms + hosts, ans[len(pairs):]):
        got = is_ip_address(h)
        n += 1
        ctx.case(("ip", h, got), nontrivial=got)
        if a != ("1" if got else "0"):
            ctx.disagreement("domain_match", {"is_ip_address": h}, a, got)
    ctx.close_suite("domain_match", n)



# ---------------------------------------------------------------------------------------------
# session level: the Cookie header the real ClientSession puts on every hop of a redirect chain

S_HOSTS = ["example.com", "sub.example.com", "other.example.com", "example.com:8080"]
S_PATHS = ["/account/logout", "/account", "/account/", "/public/bye", "/", "/foo/x"]


def gen_session_case(r):
    n = [0]

    def cookie():
        n[0] += 1
        return dict(name=r.choice(["a", "b", "c", "sid"]), value=f"v{n[0]}", domain=r.choice([None, None, "example.com"]),
                    path=r.choice([None, "/account", "/public", "/", "/foo"]), secure=r.random() < 0.25, max_age=None, expires=None)
    jar = [[[r.choice(["http", "https"]), r.choice(S_HOSTS), r.choice(S_PATHS)], [cookie()]] for _ in range(r.randint(1, 5))]
    chain = []
    for i in range(r.randint(2, 4)):
        hop = {"url": [r.choice(["http", "https", "http"]), r.choice(S_HOSTS[:2] if r.random() < 0.7 else S_HOSTS), r.choice(S_PATHS)],
               "status": r.choice([301, 302, 303, 307, 308]), "set_cookie": [cookie()] if r.random() < 0.15 else []}
        if chain and r.random() < 0.6:            # stay on the origin, change only the path
            hop["url"][0], hop["url"][1] = chain[-1]["url"][0], chain[-1]["url"][1]
        chain.append(hop)
    return {"suite": "session", "t0": T0, "jar": jar, "chain": chain, "req_cookies": r.random() < 0.1}


class _SOrigin:
    """One in-memory connection of a scripted origin: records the Cookie header of every request it receives and
    answers hop i with a redirect to hop i+1 (the last hop with 200)."""

    def __init__(self, run, loop):
        self.run, self.loop, self.buf = run, loop, bytearray()

    def on_bytes(self, tr, data):
        self.buf += data
        while b"\r\n\r\n" in self.buf:
            head, _, rest = bytes(self.buf).partition(b"\r\n\r\n")
            self.buf = bytearray(rest)
            lines = head.decode("latin-1").split("\r\n")
            target = lines[0].split(" ")[1]
            hs = {}
            for ln in lines[1:]:
                k, _, v = ln.partition(":")
                hs.setdefault(k.strip().lower(), []).append(v.strip())
            self.loop.call_soon(self._deliver, tr, self.run.received(target, hs))

    @staticmethod
    def _deliver(tr, data):
        if not tr.closed and tr.protocol is not None:
            tr.protocol.data_received(data)


class _SRun:
    def __init__(self, case):
        self.case, self.requests = case, []

    def received(self, target, hs):
        i = len(self.requests)
        self.requests.append({"target": target, "host": (hs.get("host") or [""])[0], "cookie": hs.get("cookie") or []})
        chain = self.case["chain"]
        lines = []
        if i + 1 < len(chain):
            sch, h, p = chain[i + 1]["url"]
            lines = [f"HTTP/1.1 {chain[i]['status']} R", f"Location: {sch}://{h}{p}"]
            for a in chain[i]["set_cookie"]:
                lines.append("Set-Cookie: " + header_of(a))
        else:
            lines = ["HTTP/1.1 200 OK"]
        lines.append("Content-Length: 0")
        return ("\r\n".join(lines) + "\r\n\r\n").encode()


def run_session_case(case):
    """-> (per-hop received {name: value}, per-hop twin-jar selection, per-hop reference selection, error)"""
    import asyncio
    import aiohttp
    import aiohttp.cookiejar as cj
    from yarl import URL
    from harness.common.loop import VLoop
    from harness.common.transport import make_connector
    clock = FakeTime(ticks(case["t0"]))
    real_time = cj.time
    cj.time = clock
    loop = VLoop()
    asyncio.set_event_loop(loop)
    run = _SRun(case)
    try:
        jar, twin, ref = cj.CookieJar(), cj.CookieJar(), RefStore(False)
        for (sch, h, p), attrs in case["jar"]:
            hdrs = [header_of(a) for a in attrs]
            for j in (jar, twin):
                j.update_cookies_from_headers(hdrs, URL(f"{sch}://{h}{p}"))
            for hd in hdrs:
                ref.set(raw_host(h), URL(f"{sch}://{h}{p}").path, rfc_parse_set_cookie(hd), clock.t, -1)
        extra = {"rq": "r1"} if case.get("req_cookies") else None

        async def go():
            conn = make_connector(loop, lambda req: _SOrigin(run, loop))
            async with aiohttp.ClientSession(connector=conn, cookie_jar=jar) as session:
                sch, h, p = case["chain"][0]["url"]
                async with session.get(f"{sch}://{h}{p}", cookies=extra, max_redirects=10) as resp:
                    await resp.read()
        err = None
        try:
            loop.run_until_complete(asyncio.wait_for(go(), 600))
        except Exception as e:  # noqa
            err = repr(e)
        got, twins, allowed = [], [], []
        origin0 = origin_of(*case["chain"][0]["url"][:2])
        same_origin = True
        for i, rq in enumerate(run.requests):
            sch, h, p = case["chain"][i]["url"]
            d = {}
            for line in rq["cookie"]:
                for item in line.split(";"):
                    k, _, v = item.strip().partition("=")
                    if k:
                        d[k] = v
            same_origin = same_origin and origin_of(sch, h) == origin0
            url = URL(f"{sch}://{h}{p}")
            tw = {k: m.value for k, m in twin.filter_cookies(url).items()}
            al = dict()
            for k, v in ref.filter(raw_host(h), url.path, secure_scheme(sch), clock.t):
                al.setdefault(k, set()).add(v)
            if extra and same_origin:     # per-request cookies travel only while the chain stays on the first origin
                tw.update(extra)
                al.setdefault("rq", set()).add("r1")
            got.append(d)
            twins.append(tw)
            allowed.append(al)
            # the hop's response may carry Set-Cookie
            if i + 1 < len(case["chain"]):
                hdrs = [header_of(a) for a in case["chain"][i]["set_cookie"]]
                if hdrs:
                    twin.update_cookies_from_headers(hdrs, url)
                    for hd in hdrs:
                        ref.set(raw_host(h), url.path, rfc_parse_set_cookie(hd), clock.t, -1)
        return got, twins, allowed, err
    finally:
        cj.time = real_time
        try:
            loop.run_until_complete(loop.shutdown_asyncgens())
        except Exception:  # noqa
            pass
        asyncio.set_event_loop(None)
        loop.close()


def check_session_case(ctx, case):
    got, twins, allowed, err = run_session_case(case)
    viol = []
    if err is not None or len(got) != len(case["chain"]):
        ctx.disagreement("session", case, f"{len(case['chain'])} hops", f"{len(got)} requests, error={err}")
    for i, (g, tw, al) in enumerate(zip(got, twins, allowed)):
        sch, h, p = case["chain"][i]["url"]
        ctx.case(("session", sch, h, p, tuple(sorted(g.items()))), nontrivial=bool(g))
        ctx.count("session-hop:%d" % i)
        if g != tw:
            ctx.disagreement("session", dict(case, at=i), sorted(tw.items()), sorted(g.items()))
        for k, v in sorted(g.items()):
            if v not in al.get(k, ()):
                viol.append((i, f"hop {i} {sch}://{h}{p}: the request carried Cookie {k}={v}, which an RFC 6265 store would not "
                                f"attach to this URL (allowed here: { {n: sorted(vs) for n, vs in al.items()} })"))
    for i, what in viol:
        ctx.violation(dict(case, at=i, diag={"kind": "session_hop"}), what)
    return len(got), bool(viol)


def shrink_session(case):
    """Drop pre-loaded cookies and hops while some hop still carries a forbidden cookie."""
    def bad(c):
        try:
            got, twins, allowed, err = run_session_case(c)
        except Exception:  # noqa
            return False
        return any(v not in al.get(k, ()) for g, al in zip(got, allowed) for k, v in g.items())
    cur = dict(case, req_cookies=False) if bad(dict(case, req_cookies=False)) else case
    changed = True
    while changed:
        changed = False
        for i in range(len(cur["jar"]) - 1, -1, -1):
            t = dict(cur, jar=cur["jar"][:i] + cur["jar"][i + 1:])
            if bad(t):
                cur, changed = t, True
                break
        if changed:
            continue
        for i in range(len(cur["chain"]) - 1, -1, -1):
            if len(cur["chain"]) <= 2:
                break
            t = dict(cur, chain=cur["chain"][:i] + cur["chain"][i + 1:])
            if bad(t):
                cur, changed = t, True
                break
    return cur


def suite_session(ctx):
    n = 0
    cases = [c for _, c in load_corpus() if c.get("suite") == "session"]
    cases += [gen_session_case(ctx.rng) for _ in range(150 if ctx.quick else 3000)]
    shrunk = 0
    for case in cases:
        before = len(ctx.violations)
        hops, bad = check_session_case(ctx, case)
        n += hops
        if bad and shrunk < 1 and len(ctx.violations) > before:
            # replace the recorded violations of this case by the shrunk one
            small = shrink_session(case)
            del ctx.violations[before:]
            check_session_case(ctx, small)
            shrunk += 1
    ctx.sample({"suite": "session", "case": cases[-1]})
    ctx.close_suite("session", n)


# ---------------------------------------------------------------------------------------------
# header -> attribute record: aiohttp's parse_set_cookie_headers against the RFC 6265 5.2 reference parser

def parser_record_impl(header):
    """What aiohttp makes of one Set-Cookie header, in the shape of rfc_parse_set_cookie (Expires as a time)."""
    from aiohttp._cookie_helpers import parse_set_cookie_headers
    from aiohttp.cookiejar import CookieJar
    out = parse_set_cookie_headers([header])
    if len(out) != 1:
        return {"cookies": len(out)}
    name, mo = out[0]
    return {"name": name, "value": mo.value, "domain": mo["domain"] or None, "path": mo["path"] or None,
            "secure": bool(mo["secure"]), "max_age": mo["max-age"] or None,
            "expires": CookieJar._parse_date(mo["expires"]) if mo["expires"] else None}


def parser_record_ref(header):
    a = rfc_parse_set_cookie(header)
    return {"name": a["name"], "value": a["value"], "domain": a["domain"], "path": a["path"], "secure": a["secure"],
            "max_age": a["max_age"], "expires": a["expires"][1] if a["expires"] is not None else None}


def suite_parser(ctx):
    r = ctx.rng
    headers = []
    base = 1_799_020_800          # Mon, 04 Jan 2027 00:00:00 GMT
    others = [["Secure"], ["Path=/foo"], ["Domain=example.com"], ["HttpOnly"], ["Max-Age="], ["Secure", "Path=/foo", "Domain=example.com", "HttpOnly"]]
    for style in ("rfc1123", "rfc850", "asctime", "rfc1123z"):
        for day in range(7):
            for t in (base + day * 86400 + 8 * 3600, base - (7 - day) * 86400 * 52 + 61):
                date = "Expires=" + http_date(t, style)
                for rest in others:
                    for pos in range(len(rest) + 1):
                        headers.append("; ".join(["n=v"] + rest[:pos] + [date] + rest[pos:]))
    g = Gen(r)
    for _ in range(600 if ctx.quick else 20000):
        headers.append(header_of(dress(g.attrs(T0), r)))
    n = 0
    for hd in headers:
        got, want = parser_record_impl(hd), parser_record_ref(hd)
        n += 1
        ctx.case(("parser", hd), nontrivial=True)
        if got != want:
            ctx.disagreement("set_cookie_parser", {"suite": "parser", "header": hd}, want, got)
            lost = [k for k in ("secure", "expires", "max_age", "domain", "path") if want.get(k) and got.get(k) != want.get(k)]
            if lost and len(ctx.violations) < 6:
                ctx.violation({"suite": "parser", "header": hd, "diag": {"kind": "parser", "lost": lost}},
                              f"Set-Cookie {hd!r}: aiohttp's parser yields {got}, RFC 6265 5.2 yields {want}: the cookie loses {lost} "
                              "and will be scoped more widely / live longer than the server said")
    ctx.count("parser:systematic-dates", len(headers) - (600 if ctx.quick else 20000))
    ctx.close_suite("set_cookie_parser", n)


def load_corpus():
    out = []
    for f in sorted(glob.glob(os.path.join(fw.VERIF, "corpus", "C16", "*.json"))):
        payload = json.load(open(f))
        out.append((os.path.basename(f), payload.get("case", payload)))
    return out


def run(ctx):
    ok, exe = build_model()
    ctx.oblige("model-runner-build", "correspondence", ok, "" if ok else exe)
    if not ok:
        exe = None          # keep searching the implementation with the property oracle alone
    import aiohttp.cookiejar as cj
    gen_max = None
    try:
        for ln in open(os.path.join(fw.COQ, "Generated", "CookiesGen.v")):
            if ln.startswith("Definition MAX_TIME"):
                gen_max = int(ln.split(":=")[1].strip().rstrip(".").replace("%Z", ""))
    except FileNotFoundError:
        pass
    if gen_max is not None and gen_max != cj.CookieJar.MAX_TIME:
        ctx.oblige("translator:MAX_TIME-value", "translator", False, f"generated {gen_max} != runtime {cj.CookieJar.MAX_TIME}")
    with tempfile.TemporaryDirectory(prefix="c16-") as tmpdir:
        n = 0
        for name, case in load_corpus():
            if case.get("suite", "history") != "history":
                continue
            n += check_history(ctx, exe, case, tmpdir, "corpus")
            ctx.count("corpus-case")
        ctx.close_suite("corpus", n)
        g = Gen(ctx.rng)
        nhist = 700 if ctx.quick else 12000
        cases = [g.history() for _ in range(nhist)] + [g.churn() for _ in range(6 if ctx.quick else 60)]
        n = 0
        batch = 100
        for i in range(0, len(cases), batch):
            chunk = cases[i:i + batch]
            results = [run_impl(c, tmpdir) for c in chunk]
            answers = fw.run_model(exe, [r[0] for r in results]) if exe else [None] * len(results)
            for c, res, a in zip(chunk, results, answers):
                n += check_history(ctx, exe, c, tmpdir, "history", result=res, model_ans=a)
                for op in c["ops"]:
                    ctx.count("op:" + op[0])
                ctx.count("jar:" + ("unsafe" if c["unsafe"] else "safe"))
        ctx.sample({"suite": "history", "case": {k: cases[-1][k] for k in ("unsafe", "t0", "ops")}})
        ctx.close_suite("history", n)
        ctx.close_suite("reference_store", n)
        ctx.traces_validated += len(cases)
    suite_domain_match(ctx, exe)
    suite_session(ctx)
    suite_parser(ctx)


def replay(ctx, case):
    ok, exe = build_model()
    if case.get("suite") == "domain_match":
        from aiohttp.cookiejar import CookieJar
        got = CookieJar._is_domain_match(case["domain"], case["host"])
        m = fw.run_model(exe, ["DM %s %s" % (hx(case["domain"]), hx(case["host"]))])[0] if ok else None
        return {"impl": got, "model": m, "rfc": rfc_domain_match(case["domain"], case["host"]),
                "violates": bool(got and not rfc_domain_match(case["domain"], case["host"]))}
    if case.get("suite") == "parser":
        got, want = parser_record_impl(case["header"]), parser_record_ref(case["header"])
        return {"violates": got != want, "aiohttp": got, "rfc_6265_5_2": want}
    if case.get("suite") == "session":
        got, twins, allowed, err = run_session_case(case)
        bad = [(i, k, v) for i, (g, al) in enumerate(zip(got, allowed)) for k, v in g.items() if v not in al.get(k, ())]
        return {"violates": bool(bad), "forbidden": bad, "error": err,
                "hops": [{"url": h["url"], "cookie_header": g, "jar_selection": tw, "rfc_reference": {k: sorted(v) for k, v in al.items()}}
                         for h, g, tw, al in zip(case["chain"], got, twins, allowed)]}
    with tempfile.TemporaryDirectory(prefix="c16-") as tmpdir:
        line, impl_out, ref_out, viol, queries = run_impl(case, tmpdir)
        model = fw.run_model(exe, ["HD" + line[1:]])[0] if ok else None
        mj = parse_model(model)[0] if model else None
        shown = [{"query": list(q[1:4]), "t": q[4], "impl": got, "model": (mj[i] if mj else None), "rfc_reference": allowed}
                 for i, (q, got, allowed) in enumerate(zip(queries, impl_out, ref_out))
                 if got or allowed or i < 4][:40]
        return {"violates": bool(viol), "violations": [v[3] for v in viol][:10],
                "known": [is_known(violation_case(case, v)[0]) for v in viol][:10],
                "model_agrees": (mj == impl_out) if mj is not None else None,
                "queries": shown, "model_final_state": model.split(" # ")[1] if model and " # " in model else None}
